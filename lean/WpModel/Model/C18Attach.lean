/-
Mirror of the attachment code of `weasyprint/pdf/anchors.py` (`write_pdf_attachment`,
`add_annotations`) and of the "Embedded files" block of `weasyprint/pdf/__init__.py::generate_pdf`.

Outside the model (standard library / I/O, supplied by the harness as data): the bytes delivered by
the URL fetcher (only their length and whether fetching raised `URLFetchingError`), the code points of
a file name (file names are opaque atoms; `cpsOf` is supplied by the driver),
`basename(unquote(urlsplit(url).path))`, `mimetypes.guess_type`, `md5`, `strftime`.
No Mathlib: linked into the driver.
-/
import WpModel.Model.Wire
import WpModel.Model.Anchors
import WpModel.Model.C18PdfString
import WpModel.Model.Outline

namespace Wp.Attach
open Wp Wp.Anchors

/-- What `write_pdf_attachment` reads from an `Attachment`. -/
structure Att where
  /-- `none`: reading `attachment.source` raised `URLFetchingError`; `some n`: `n` bytes were read. -/
  size : Option Nat
  /-- `attachment.name`. -/
  name : Option String
  /-- `basename(unquote(urlsplit(url).path))` when `url and urlsplit(url).path`, else `none`. -/
  urlBase : Option String
  description : Option String
  deriving Repr, DecidableEq

/-- The file specification dictionary (object `spec`) and its embedded file stream (object `stream`). -/
structure FileSpec where
  stream : Nat
  spec : Nat
  filename : String
  subtype : String
  size : Nat
  desc : String
  deriving Repr, DecidableEq

/-- `if attachment.name: … elif url and urlsplit(url).path: … else: 'attachment.bin'`. -/
def chooseFilename (a : Att) : String :=
  match a.name with
  | some n => if n != "" then n else
    match a.urlBase with
    | some b => b
    | none => "attachment.bin"
  | none =>
    match a.urlBase with
    | some b => b
    | none => "attachment.bin"

/-- `mimetypes.guess_type(filename, strict=False)[0]` as a table supplied by the caller;
`if not mime_type: mime_type = 'application/octet-stream'`. -/
def mimeOf (guesses : List (String × String)) (filename : String) : String :=
  match guesses.find? (fun g => g.1 == filename) with
  | some g => if g.2 != "" then g.2 else "application/octet-stream"
  | none => "application/octet-stream"

/-- `write_pdf_attachment(pdf, attachment, compress)`; `next = len(pdf.objects)`.  `attachment.source` is a
property that opens the source anew for each call (a0bb005), so the function of an `Attachment` is the
same for every PDF written from the document: the model has no state for it.
`none`: the error was logged and nothing was added. -/
def writeAttachment (guesses : List (String × String)) (next : Nat) (a : Att) : Option FileSpec × Nat :=
  match a.size with
  | none => (none, next)
  | some n =>
    let filename := chooseFilename a
    (some ⟨next, next + 1, filename, mimeOf guesses filename, n, a.description.getD ""⟩, next + 2)

/-- The loop `for attachment in attachments: pdf_attachment = write_pdf_attachment(…); if … is not None: append`. -/
def writeAll (guesses : List (String × String)) : Nat → List Att → List FileSpec × Nat
  | next, [] => ([], next)
  | next, a :: rest =>
    match writeAttachment guesses next a with
    | (none, next') => writeAll guesses next' rest
    | (some f, next') =>
      let r := writeAll guesses next' rest
      (f :: r.1, r.2)

/-- The `/EmbeddedFiles` name dictionary: object number and `[F, reference, F, reference, …]`. -/
structure EmbeddedFiles where
  num : Nat
  names : List (String × Nat)
  deriving Repr, DecidableEq

/-- `str.encode(errors='ignore')` for one code point: UTF-8; a lone surrogate is dropped. -/
def utf8 (c : Nat) : List Nat :=
  if c < 128 then [c]
  else if c < 2048 then [192 + c / 64, 128 + c % 64]
  else if Wp.PdfStr.isSurrogate c then []
  else if c < 65536 then [224 + c / 4096, 128 + c / 64 % 64, 128 + c % 64]
  else [240 + c / 262144, 128 + c / 4096 % 64, 128 + c / 64 % 64, 128 + c % 64]

/-- The bytes of the `/F` key, `filename.encode(errors='ignore')` (what a PDF reader compares in the
`/EmbeddedFiles` name tree). -/
def fKey (cps : List Nat) : List Nat := cps.flatMap utf8

/-- `pydyf.String(<bytes>).data`, the written form of the `/F` key: the bytes between parentheses with
`\\`, `(` and `)` escaped.  It was the sort key of repair 186e86a (finding
`embedded-files-written-form-order`); since e909019 the keys are compared as bytes.  Kept for the
regression example. -/
def fData (cps : List Nat) : List Nat := 40 :: (Wp.PdfStr.escapeLit (fKey cps) ++ [41])

def insertSpec (cpsOf : String → List Nat) (x : FileSpec) : List FileSpec → List FileSpec
  | [] => [x]
  | y :: ys =>
    if Wp.Outline.nameLt (fKey (cpsOf y.filename)) (fKey (cpsOf x.filename)) then y :: insertSpec cpsOf x ys
    else x :: y :: ys

/-- `sorted(pdf_attachments, key=lambda attachment: attachment['F'].string)` (stable): `F` is
`pydyf.String(filename.encode(errors='ignore'))`, its `.string` the bytes of the file name. -/
def sortSpecs (cpsOf : String → List Nat) : List FileSpec → List FileSpec
  | [] => []
  | x :: xs => insertSpec cpsOf x (sortSpecs cpsOf xs)

/-- "Embedded files" of `generate_pdf`: `metadata.attachments` then `options['attachments']`; the name
array lists them sorted by the bytes of their `/F` key (e909019).  `cpsOf` gives the code points of a
file name. -/
def embeddedFiles (cpsOf : String → List Nat) (guesses : List (String × String)) (next : Nat) (atts : List Att) :
    List FileSpec × Option EmbeddedFiles × Nat :=
  let r := writeAll guesses next atts
  if r.1.isEmpty then (r.1, none, r.2)
  else (r.1, some ⟨r.2, (sortSpecs cpsOf r.1).map (fun f => (f.filename, f.spec))⟩, r.2 + 1)

/-- `<link rel=attachment href=… title=…>` as `get_html_metadata` sees it: `href` is the resolved URL
(`get_url_attribute`), `none` when the attribute is missing. -/
structure LinkEl where
  href : Option String
  title : Option String
  deriving Repr, DecidableEq

/-- The `attachments` list of `get_html_metadata`: an element without href is reported and skipped;
the title becomes the description. -/
def metaAttachments (fetch : String → Att) : List LinkEl → List Att
  | [] => []
  | e :: rest =>
    match e.href with
    | none => metaAttachments fetch rest
    | some url => { fetch url with description := e.title } :: metaAttachments fetch rest

/-! ## link-level attachments -/

/-- A `('attachment', target, rectangle, box)` entry of `Page.links` (other link types are skipped). -/
structure AttLink where
  target : String
  rect : Rect
  deriving Repr, DecidableEq

/-- One `/FileAttachment` annotation: its object number, the appearance stream before it, the file
specification it points to and its rectangle. -/
structure FileAnnot where
  stream : Nat
  annot : Nat
  fs : Nat
  rect : Rect
  deriving Repr, DecidableEq

/-- `annot_files`: URL → the file specification number, or `none` when loading failed (kept, so that
the URL is not fetched again). -/
abbrev Cache := List (String × Option Nat)

def Cache.get? (c : Cache) (url : String) : Option (Option Nat) :=
  (c.find? (fun e => e.1 == url)).map (·.2)

structure AnnotState where
  cache : Cache
  files : List FileSpec
  next : Nat
  deriving Repr

/-- One iteration of the loop of `add_annotations` for an attachment link; `fetch url` is what
`Attachment(url=…, url_fetcher=document.url_fetcher)` will deliver. -/
def annotStep (guesses : List (String × String)) (fetch : String → Att) (m : Matrix)
    (st : AnnotState) (l : AttLink) : AnnotState × Option FileAnnot :=
  let st := match st.cache.get? l.target with
    | some _ => st
    | none =>
      match writeAttachment guesses st.next (fetch l.target) with
      | (none, next') => { st with cache := st.cache ++ [(l.target, none)], next := next' }
      | (some f, next') =>
        { cache := st.cache ++ [(l.target, some f.spec)], files := st.files ++ [f], next := next' }
  match st.cache.get? l.target with
  | some (some fs) =>
    ({ st with next := st.next + 2 }, some ⟨st.next, st.next + 1, fs, annotRect m l.rect⟩)
  | _ => (st, none)

/-- `add_annotations` for one page. -/
def addAnnotations (guesses : List (String × String)) (fetch : String → Att) (m : Matrix) :
    AnnotState → List AttLink → AnnotState × List FileAnnot
  | st, [] => (st, [])
  | st, l :: rest =>
    let r := annotStep guesses fetch m st l
    let r' := addAnnotations guesses fetch m r.1 rest
    (r'.1, match r.2 with | some a => a :: r'.2 | none => r'.2)

/-- The page loop of `generate_pdf`: `annot_files = {}` is created once and shared by all pages. -/
def addAnnotationsPages (guesses : List (String × String)) (fetch : String → Att) :
    AnnotState → List (Matrix × List AttLink) → AnnotState × List (List FileAnnot)
  | st, [] => (st, [])
  | st, (m, links) :: rest =>
    let r := addAnnotations guesses fetch m st links
    let r' := addAnnotationsPages guesses fetch r.1 rest
    (r'.1, r.2 :: r'.2)

end Wp.Attach
