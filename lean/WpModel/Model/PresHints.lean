/-
Mirror of the presentational-hint half of `find_style_attributes` (`weasyprint/css/__init__.py`):
for one element, the declaration blocks (as the texts handed to `tinycss2.parse_blocks_contents`)
that HTML attributes contribute to the cascade with origin `author` and specificity `(0, 0, 0, 0)`
— below every author rule (`Cascade.elementDecls` applies them first, `Props/C06`:
`style_attr_outranks_selectors`).

`element.get(name)` is an association list of attribute texts; `if element.get(name):` is "present
and not empty".  `str.strip`, `str.lower`, `str.isdigit`, `int(…)` are modelled on ASCII text (the
harness draws attribute values from ASCII; `int` without `_` separators).
`table cellpadding` yields for the table's `td` / `th` descendants: `cellPaddingHint`.
No Mathlib, no Std.
-/
import WpModel.Model.StyleDoc

namespace Wp.PresHints
open Wp Wp.StyleDoc

abbrev Attrs := List (String × String)

/-- `element.get(name)` when it is truthy. -/
def get? (attrs : Attrs) (name : String) : Option String :=
  match attrs.find? (fun p => p.1 == name) with
  | some (_, v) => if v.isEmpty then none else some v
  | none => none

/-- `element.get(name, '')` -/
def getD (attrs : Attrs) (name : String) : String :=
  match attrs.find? (fun p => p.1 == name) with
  | some (_, v) => v
  | none => ""

def lower (s : String) : String := String.ofList (pyLower s.toList)

/-- `str.isdigit()` on ASCII text: non-empty, only `0`–`9`. -/
def isDigit (s : String) : Bool := !s.isEmpty && s.toList.all (fun c => '0' ≤ c && c ≤ '9')

def digitsVal (cs : List Char) : Nat := cs.foldl (fun n c => n * 10 + (c.toNat - '0'.toNat)) 0

/-- `int(s)`: optional white space, optional sign, ASCII digits; `none` = `ValueError`. -/
def pyInt (s : List Char) : Option Int :=
  let t := pyStrip s
  let (neg, ds) : Bool × List Char := match t with
    | '-' :: rest => (true, rest)
    | '+' :: rest => (false, rest)
    | _ => (false, t)
  if ds.isEmpty || !(ds.all (fun c => '0' ≤ c && c ≤ '9')) then none
  else some (if neg then -(digitsVal ds : Int) else (digitsVal ds : Int))

/-- `f'width:{v}'` + `'px'` when `v.isdigit()`. -/
def dimension (prop v : String) : String := prop ++ ":" ++ v ++ (if isDigit v then "px" else "")

/-- `v + 'px' if v.isdigit() else v` -/
def pxIfDigits (v : String) : String := if isDigit v then v ++ "px" else v

/-- The `align` attribute of `div`, table parts and `caption`. -/
def alignHint (attrs : Attrs) : List String :=
  let align := lower (getD attrs "align")
  if align == "middle" then ["text-align:center"]
  else if ["center", "left", "right", "justify"].contains align then ["text-align:" ++ align]
  else []

/-- The `font_sizes` dict of the `<font size>` branch. -/
def fontSizes : List (Int × String) :=
  [(1, "x-small"), (2, "small"), (3, "medium"), (4, "large"), (5, "x-large"), (6, "xx-large"), (7, "48px")]

def lookupInt (k : Int) : List (Int × String) → Option String
  | [] => none
  | (a, b) :: rest => if a == k then some b else lookupInt k rest

/-- `<font size=…>`: absolute `1`–`7`, or relative `+n` / `-n` around 3, clamped to `1`–`7`. -/
def fontSizeHint (attr : String) : Option String :=
  let size := pyStrip attr.toList
  let plus := size.head? == some '+'
  let minus := size.head? == some '-'
  let size := if plus || minus then pyStrip (size.drop 1) else size
  match pyInt size with
  | none => none                                     -- ValueError: a warning, no declaration
  | some n =>
    let n := if plus then n + 3 else if minus then n - 3 else n
    let n := max 1 (min 7 n)
    (lookupInt n fontSizes).map ("font-size:" ++ ·)

/-- Python's `str(size / 2)` for an integer `size`: `k.0` or `k.5`. -/
def halfRepr (size : Int) : String :=
  let sign := if size < 0 then "-" else ""
  let a := size.natAbs
  sign ++ toString (a / 2) ++ (if a % 2 == 0 then ".0" else ".5")

def when (c : Bool) (l : List String) : List String := if c then l else []

def opt (o : Option String) (f : String → String) : List String :=
  match o with
  | some v => [f v]
  | none => []

/-- `margin-left:{h};margin-right:{h}` / `margin-top:{v};margin-bottom:{v}`. -/
def spaceHints (attrs : Attrs) : List String :=
  opt (get? attrs "hspace") (fun h => "margin-left:" ++ pxIfDigits h ++ ";margin-right:" ++ pxIfDigits h) ++
  opt (get? attrs "vspace") (fun v => "margin-top:" ++ pxIfDigits v ++ ";margin-bottom:" ++ pxIfDigits v)

def backgroundHints (attrs : Attrs) : List String :=
  opt (get? attrs "background") (fun v => "background-image:url(" ++ v ++ ")") ++
  opt (get? attrs "bgcolor") (fun v => "background-color:" ++ v)

/-- The `body` margins: for each side the first present attribute of (`margin{part}`, `{position}margin`). -/
def bodyMargin (attrs : Attrs) (part position : String) : List String :=
  match get? attrs ("margin" ++ part) with
  | some v => ["margin-" ++ position ++ ":" ++ v ++ "px"]
  | none => opt (get? attrs (position ++ "margin")) (fun v => "margin-" ++ position ++ ":" ++ v ++ "px")

/-- The declaration blocks yielded for the element itself when `presentational_hints` is on, in
order (after the `style` attribute, which is not part of this function). -/
def hints (tag : String) (attrs : Attrs) : List String :=
  if tag == "body" then
    bodyMargin attrs "height" "top" ++ bodyMargin attrs "height" "bottom" ++
    bodyMargin attrs "width" "left" ++ bodyMargin attrs "width" "right" ++
    backgroundHints attrs ++ opt (get? attrs "text") ("color:" ++ ·)
  else if tag == "center" then ["text-align:center"]
  else if tag == "div" then alignHint attrs
  else if tag == "font" then
    opt (get? attrs "color") ("color:" ++ ·) ++ opt (get? attrs "face") ("font-family:" ++ ·) ++
    (match get? attrs "size" with
     | some s => (fontSizeHint s).toList
     | none => [])
  else if tag == "table" then
    opt (get? attrs "cellspacing") (fun v => "border-spacing:" ++ v ++ "px") ++
    spaceHints attrs ++
    opt (get? attrs "width") (dimension "width") ++ opt (get? attrs "height") (dimension "height") ++
    backgroundHints attrs ++
    opt (get? attrs "bordercolor") ("border-color:" ++ ·) ++
    opt (get? attrs "border") (fun v => "border-width:" ++ v ++ "px")
  else if ["tr", "td", "th", "thead", "tbody", "tfoot"].contains tag then
    alignHint attrs ++ backgroundHints attrs ++
    when (["tr", "td", "th"].contains tag) (opt (get? attrs "height") (dimension "height")) ++
    when (["td", "th"].contains tag) (opt (get? attrs "width") (dimension "width"))
  else if tag == "caption" then alignHint attrs
  else if tag == "col" then opt (get? attrs "width") (dimension "width")
  else if tag == "hr" then
    let size : Int := match get? attrs "size" with
      | some s => (pyInt s.toList).getD 0
      | none => 0
    -- (element.get('color'), element.get('noshade')) != (None, None): presence, even when empty
    let shaded := (attrs.find? (fun p => p.1 == "color")).isSome || (attrs.find? (fun p => p.1 == "noshade")).isSome
    (if shaded then when (size ≥ 1) ["border-width:" ++ halfRepr size ++ "px"]
     else if size == 1 then ["border-bottom-width:0"]
     else when (size > 1) ["height:" ++ toString (size - 2) ++ "px"]) ++
    opt (get? attrs "width") (dimension "width") ++ opt (get? attrs "color") ("color:" ++ ·)
  else if ["iframe", "applet", "embed", "img", "input", "object"].contains tag then
    if tag != "input" || lower (getD attrs "type") == "image" then
      let align := lower (getD attrs "align")
      when (align == "middle" || align == "center") ["vertical-align:middle"] ++
      spaceHints attrs ++
      opt (get? attrs "width") (dimension "width") ++ opt (get? attrs "height") (dimension "height") ++
      when (["img", "object", "input"].contains tag)
        (opt (get? attrs "border") (fun v => "border-width:" ++ v ++ "px;border-style:solid"))
    else []
  else if tag == "ol" then
    opt (get? attrs "start") (fun v => "counter-reset:list-item " ++ v ++ ";counter-increment:list-item -1")
  else if tag == "li" then
    opt (get? attrs "value") (fun v => "counter-reset:list-item " ++ v ++ ";counter-increment:none")
  else []

/-- `table cellpadding`: the block yielded for every `td` / `th` descendant of the table. -/
def cellPaddingHint (attrs : Attrs) : Option String :=
  (get? attrs "cellpadding").map (fun c =>
    let c := pxIfDigits c
    "padding-left:" ++ c ++ ";padding-right:" ++ c ++ ";padding-top:" ++ c ++ ";padding-bottom:" ++ c ++ ";")

end Wp.PresHints
