/-
Property values as the cascade and `computed_values.py` see them, for the subset of value shapes
the C06 models talk about, and the Python failure points of the mirrored code.

  Python                                wire                     Lean
  'auto', 'bold', …  (str)              (kw auto)                `Val.kw "auto"`
  Dimension(3/2, 'em')                  (dim 3/2 em)             `Val.dim (3/2) "em"`     (unit None ↦ "none")
  3, 400, 1.5  (int / float / Fraction) (num 3)                  `Val.num 3`
  ('block', 'flow'), ('running()', x)   (strs block flow)        `Val.strs ["block", "flow"]`
  {'underline', 'overline'}  (set)      (strs overline underline) sorted
  ('PIXELS', 12), ('NUMBER', 3/2)       (tag PIXELS 12)          `Val.tagged "PIXELS" 12`

`isinstance(value, int)` is modelled as "the number has denominator 1": the harnesses never pass an
integral-valued `Fraction` / `float` where the code tests for `int`.
No Mathlib, no Std: linked into the compiled driver.
-/
import WpModel.Model.Wire

namespace Wp

inductive Val where
  | kw (s : String)
  | dim (q : Rat) (unit : String)
  | num (q : Rat)
  | strs (l : List String)
  | tagged (tag : String) (q : Rat)
  deriving Repr, DecidableEq, Inhabited

namespace Val

/-- Parentheses cannot be part of an atom: `running()` travels as `running[]`. -/
def unesc (s : String) : String := (s.replace "[" "(").replace "]" ")"

def ofSx? : Sx → Option Val
  | .list [.atom "kw", .atom s] => some (.kw (unesc s))
  | .list [.atom "kw"] => some (.kw "")
  | .list [.atom "dim", q, .atom u] => q.rat?.map (fun q => .dim q (unesc u))
  | .list [.atom "num", q] => q.rat?.map .num
  | .list (.atom "strs" :: xs) => (allSome Sx.atom? xs).map (fun l => .strs (l.map unesc))
  | .list [.atom "tag", .atom t, q] => q.rat?.map (fun q => .tagged (unesc t) q)
  | _ => none

/-- Canonical text (the harness prints the implementation's value the same way). -/
def render : Val → String
  | .kw s => "kw:" ++ s
  | .dim q u => "dim:" ++ showRat q ++ ":" ++ u
  | .num q => "num:" ++ showRat q
  | .strs l => "strs:" ++ ",".intercalate l
  | .tagged t q => "tag:" ++ t ++ ":" ++ showRat q

def isKw (v : Val) (s : String) : Bool :=
  match v with
  | .kw t => t == s
  | _ => false

end Val

/-- Python failure points of the code mirrored by the C06 models (`Wp.PyErr` of the shared wire
file has no constructor for `KeyError`, `TypeError`, `OverflowError`). -/
inductive CErr where
  | assertion (site : String)
  | keyError (site : String)
  | attributeError (site : String)
  | typeError (site : String)
  | overflow (site : String)
  | indexError (site : String)
  | unsupported (what : String)   -- outside the modelled fragment: never a Python outcome
  deriving Repr, DecidableEq

/-- The harness prints `err:<ExceptionClass>`; sites are for the reader only and not printed. -/
def CErr.render : CErr → String
  | .assertion _ => "err:AssertionError"
  | .keyError _ => "err:KeyError"
  | .attributeError _ => "err:AttributeError"
  | .typeError _ => "err:TypeError"
  | .overflow _ => "err:OverflowError"
  | .indexError _ => "err:IndexError"
  | .unsupported w => "unsupported:" ++ w

def renderExcept {α} (f : α → String) : Except CErr α → String
  | .ok a => f a
  | .error e => e.render

end Wp
