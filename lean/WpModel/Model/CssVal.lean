/-
Property values as the cascade and `computed_values.py` see them, for the subset of value shapes
the C06 models talk about, and the Python failure points of the mirrored code.

  Python                                wire                     Lean
  'auto', 'bold', …  (str)              (kw auto)                `Val.kw "auto"`
  Dimension(3/2, 'em')                  (dim 3/2 em)             `Val.dim (3/2) "em"`     (unit None ↦ "none")
  3, 400, 1.5  (int / float / Fraction) (num 3)                  `Val.num 3`
  ('block', 'flow'), ('running()', x)   (strs block flow)        `Val.strs ["block", "flow"]`
  {'underline', 'overline'}  (set)      (strs overline underline) sorted
  ('PIXELS', 12), ('NUMBER', 3/2)       (tag PIXELS 12)          `Val.tagged "PIXELS" 12`
  None                                  (null)                   `Val.null`
  (Dimension, 'auto'), ((…), (…))       (tup v1 v2 …)            `Val.tup [v1, v2, …]`   (any other tuple)

`isinstance(value, int)` is modelled as "the number has denominator 1": the harnesses never pass an
integral-valued `Fraction` / `float` where the code tests for `int`.
No Mathlib, no Std: linked into the compiled driver.
-/
import WpModel.Model.Wire

namespace Wp

inductive Val where
  | kw (s : String)
  | dim (q : Rat) (unit : String)
  | num (q : Rat)
  | strs (l : List String)
  | tagged (tag : String) (q : Rat)
  /-- `None` -/
  | null
  /-- a tuple that is not a flat tuple of strings: `(Dimension, Dimension)`, `(('left', d, 'top', d),)` … -/
  | tup (l : List Val)
  deriving Repr, Inhabited

namespace Val

mutual
/-- Structural equality test (the derive handler does not support the nested `List Val`). -/
def beq : Val → Val → Bool
  | .kw a, .kw b => a == b
  | .dim q u, .dim q' u' => q == q' && u == u'
  | .num q, .num q' => q == q'
  | .strs l, .strs l' => l == l'
  | .tagged t q, .tagged t' q' => t == t' && q == q'
  | .null, .null => true
  | .tup l, .tup l' => beqList l l'
  | _, _ => false
def beqList : List Val → List Val → Bool
  | [], [] => true
  | a :: as, b :: bs => beq a b && beqList as bs
  | _, _ => false
end

instance : BEq Val := ⟨beq⟩

mutual
theorem eq_of_beq : ∀ (a b : Val), beq a b = true → a = b
  | .kw a, .kw b, h => by simp [beq] at h; rw [h]
  | .dim q u, .dim q' u', h => by simp [beq] at h; rw [h.1, h.2]
  | .num q, .num q', h => by simp [beq] at h; rw [h]
  | .strs l, .strs l', h => by simp [beq] at h; rw [h]
  | .tagged t q, .tagged t' q', h => by simp [beq] at h; rw [h.1, h.2]
  | .null, .null, _ => rfl
  | .tup l, .tup l', h => by
      simp only [beq] at h
      rw [eq_of_beqList l l' h]
  | .kw _, .dim .., h | .kw _, .num _, h | .kw _, .strs _, h | .kw _, .tagged .., h | .kw _, .null, h | .kw _, .tup _, h
  | .dim .., .kw _, h | .dim .., .num _, h | .dim .., .strs _, h | .dim .., .tagged .., h | .dim .., .null, h | .dim .., .tup _, h
  | .num _, .kw _, h | .num _, .dim .., h | .num _, .strs _, h | .num _, .tagged .., h | .num _, .null, h | .num _, .tup _, h
  | .strs _, .kw _, h | .strs _, .dim .., h | .strs _, .num _, h | .strs _, .tagged .., h | .strs _, .null, h | .strs _, .tup _, h
  | .tagged .., .kw _, h | .tagged .., .dim .., h | .tagged .., .num _, h | .tagged .., .strs _, h | .tagged .., .null, h | .tagged .., .tup _, h
  | .null, .kw _, h | .null, .dim .., h | .null, .num _, h | .null, .strs _, h | .null, .tagged .., h | .null, .tup _, h
  | .tup _, .kw _, h | .tup _, .dim .., h | .tup _, .num _, h | .tup _, .strs _, h | .tup _, .tagged .., h | .tup _, .null, h => by
      simp [beq] at h
theorem eq_of_beqList : ∀ (l l' : List Val), beqList l l' = true → l = l'
  | [], [], _ => rfl
  | a :: as, b :: bs, h => by
      simp only [beqList, Bool.and_eq_true] at h
      rw [eq_of_beq a b h.1, eq_of_beqList as bs h.2]
  | [], _ :: _, h => by simp [beqList] at h
  | _ :: _, [], h => by simp [beqList] at h
end

mutual
theorem beq_self : ∀ (a : Val), beq a a = true
  | .kw _ | .num _ | .strs _ | .null => by simp [beq]
  | .dim .. | .tagged .. => by simp [beq]
  | .tup l => by simp only [beq]; exact beqList_self l
theorem beqList_self : ∀ (l : List Val), beqList l l = true
  | [] => rfl
  | a :: as => by simp only [beqList, beq_self a, beqList_self as, Bool.and_self]
end

instance : DecidableEq Val := fun a b =>
  if h : beq a b = true then isTrue (eq_of_beq a b h)
  else isFalse (fun e => h (e ▸ beq_self a))


/-- Parentheses cannot be part of an atom: `running()` travels as `running[]`. -/
def unesc (s : String) : String := (s.replace "[" "(").replace "]" ")"

partial def ofSx? : Sx → Option Val
  | .list [.atom "kw", .atom s] => some (.kw (unesc s))
  | .list [.atom "kw"] => some (.kw "")
  | .list [.atom "dim", q, .atom u] => q.rat?.map (fun q => .dim q (unesc u))
  | .list [.atom "num", q] => q.rat?.map .num
  | .list (.atom "strs" :: xs) => (allSome Sx.atom? xs).map (fun l => .strs (l.map unesc))
  | .list [.atom "tag", .atom t, q] => q.rat?.map (fun q => .tagged (unesc t) q)
  | .list [.atom "null"] => some .null
  | .list (.atom "tup" :: xs) => (allSome ofSx? xs).map .tup
  | _ => none

mutual
/-- Canonical text (the harness prints the implementation's value the same way). -/
def render : Val → String
  | .kw s => "kw:" ++ s
  | .dim q u => "dim:" ++ showRat q ++ ":" ++ u
  | .num q => "num:" ++ showRat q
  | .strs l => "strs:" ++ ",".intercalate l
  | .tagged t q => "tag:" ++ t ++ ":" ++ showRat q
  | .null => "null"
  | .tup l => "tup[" ++ renderList l ++ "]"
def renderList : List Val → String
  | [] => ""
  | [v] => render v
  | v :: rest => render v ++ "|" ++ renderList rest
end

def isKw (v : Val) (s : String) : Bool :=
  match v with
  | .kw t => t == s
  | _ => false

end Val

/-- Python failure points of the code mirrored by the C06 models (`Wp.PyErr` of the shared wire
file has no constructor for `KeyError`, `TypeError`, `OverflowError`). -/
inductive CErr where
  | assertion (site : String)
  | keyError (site : String)
  | attributeError (site : String)
  | typeError (site : String)
  | overflow (site : String)
  | indexError (site : String)
  | valueError (site : String)
  | unboundLocal (site : String)
  | unsupported (what : String)   -- outside the modelled fragment: never a Python outcome
  deriving Repr, DecidableEq

/-- The harness prints `err:<ExceptionClass>`; sites are for the reader only and not printed. -/
def CErr.render : CErr → String
  | .assertion _ => "err:AssertionError"
  | .keyError _ => "err:KeyError"
  | .attributeError _ => "err:AttributeError"
  | .typeError _ => "err:TypeError"
  | .overflow _ => "err:OverflowError"
  | .indexError _ => "err:IndexError"
  | .valueError _ => "err:ValueError"
  | .unboundLocal _ => "err:UnboundLocalError"
  | .unsupported w => "unsupported:" ++ w

def renderExcept {α} (f : α → String) : Except CErr α → String
  | .ok a => f a
  | .error e => e.render

end Wp
