/-
C09 — `text/line_break.py::split_first_line` (steps 1, 2, 3, 5; step 4 is a no-op on texts without
soft hyphens under `hyphens: manual|none`, or `auto` without a language), `first_line_metrics`,
`create_layout`, and from `layout/inline.py`: `split_text_box`, `skip_first_whitespace` /
`remove_last_whitespace` (text part), `text_align`, `justify_line` / `count_expandable_spaces` /
`add_word_spacing`, and the line loop `iter_line_boxes` / `get_next_linebox` for a block whose line
box holds one text box and no float.

Mirrors the Python branch for branch, quirks included (the second-line break point made relative
twice, `break_point or -1`, the text cut to the heuristic prefix; since fix 3c674e2 a negative width is
clamped to 0 before the step-5 re-wrap).  Python failure points are explicit (`Except PyErr`).
No Mathlib: linked into the driver.
-/
import WpModel.Model.Pango

namespace Wp.LB
open Wp Wp.Py Wp.Pango

/-! ### keywords -/

inductive WS | normal | nowrap | pre | preWrap | preLine
  deriving DecidableEq, Repr, Inhabited

def WS.css : WS → String
  | .normal => "normal" | .nowrap => "nowrap" | .pre => "pre" | .preWrap => "pre-wrap"
  | .preLine => "pre-line"

def WS.all : List WS := [.normal, .nowrap, .pre, .preWrap, .preLine]
def WS.ofCss? (s : String) : Option WS := WS.all.find? (fun w => w.css == s)

inductive OW | normal | anywhere | breakWord
  deriving DecidableEq, Repr, Inhabited

def OW.css : OW → String
  | .normal => "normal" | .anywhere => "anywhere" | .breakWord => "break-word"

def OW.all : List OW := [.normal, .anywhere, .breakWord]
def OW.ofCss? (s : String) : Option OW := OW.all.find? (fun w => w.css == s)

inductive WB | normal | breakAll
  deriving DecidableEq, Repr, Inhabited

def WB.css : WB → String
  | .normal => "normal" | .breakAll => "break-all"

def WB.all : List WB := [.normal, .breakAll]
def WB.ofCss? (s : String) : Option WB := WB.all.find? (fun w => w.css == s)

/-- `style['white_space'] in ('normal', 'pre-wrap', 'pre-line')` (tuple regenerated from the source). -/
def WS.textWrap (w : WS) : Bool := Gen.LineBreak.textWrapValues.contains w.css
def WS.spaceCollapse (w : WS) : Bool := Gen.LineBreak.spaceCollapseValues.contains w.css
def WS.layoutWrap (w : WS) : Bool := Gen.LineBreak.createLayoutWrapValues.contains w.css
def WS.skipFirst (w : WS) : Bool := Gen.LineBreak.skipFirstWsValues.contains w.css
def WS.removeLast (w : WS) : Bool := Gen.LineBreak.removeLastWsValues.contains w.css
def WS.alignCollapse (w : WS) : Bool := Gen.LineBreak.textAlignCollapseValues.contains w.css
/-- `can_break_inside`: `text_wrap = box.style['white_space'] in ('normal', 'pre-wrap', 'pre-line')` -/
def WS.breakInside (w : WS) : Bool := Gen.LineBreak.canBreakInsideWrapValues.contains w.css
/-- `split_inline_box`: `box.style['white_space'] in ('pre', 'nowrap')` → no break between two children -/
def WS.noBreakBetween (w : WS) : Bool := Gen.LineBreak.inlineNoBreakValues.contains w.css
/-- `preferred.inline_line_widths`: its own `space_collapse` / `text_wrap` -/
def WS.prefCollapse (w : WS) : Bool := Gen.LineBreak.preferredCollapseValues.contains w.css
def WS.prefWrap (w : WS) : Bool := Gen.LineBreak.preferredWrapValues.contains w.css
/-- `overflow_wrap in ('anywhere', 'break-word')`: Pango's automatic hyphens are switched off. -/
def OW.wordBreaking (o : OW) : Bool := Gen.LineBreak.wordBreakingValues.contains o.css

/-- `max_width`: `None`, `math.inf` or a number. -/
inductive MaxW | none | inf | fin (q : Rat)
  deriving Repr, Inhabited, DecidableEq

/-- `x <= max_width` for a numeric `max_width`. -/
def MaxW.ge (m : MaxW) (x : Rat) : Bool :=
  match m with
  | .none => false
  | .inf => true
  | .fin q => decide (x ≤ q)

/-- the part of the computed style read by the modelled functions -/
structure Style where
  ws : WS
  wb : WB
  ow : OW
  fs : Rat
  deriving Repr

/-- `(length, resume_index, width)` of `split_first_line`'s result and `layout.text`. -/
structure Res where
  length : Nat
  resume : Option Nat
  width : Rat
  text : Text
  deriving Repr, BEq, DecidableEq

/-! ### create_layout / first_line_metrics -/

/-- `create_layout(text, style, context, max_width, …)`. -/
def createLayout (st : Style) (text : Text) (maxWidth : MaxW) : Layout :=
  let width : Option Rat :=
    match maxWidth with
    | .fin q => if st.ws.layoutWrap && decide (q < (2 : Rat) ^ Gen.LineBreak.maxWidthLog2) then some (quantize q) else none
    | _ => none
  { text := truncNl text, width := width, wrapChar := false, hyph := !st.ow.wordBreaking }

/-- `first_line_metrics(first_line, text, layout, resume_at, space_collapse, style)` (not hyphenated). -/
def firstLineMetrics (fs : Rat) (line : Line) (text : Text) (lay : Layout) (resumeAt : Option Nat)
    (spaceCollapse : Bool) : Res :=
  match resumeAt with
  | some r =>
    if r ≠ 0 then
      let flt := text.take line.length
      let flt := if spaceCollapse then rstripSp flt else flt
      let lay := ({ lay with width := none } : Layout).setText flt
      let l := firstLine fs lay
      { length := l.length, resume := resumeAt, width := l.width, text := lay.text }
    else { length := line.length, resume := resumeAt, width := line.width, text := lay.text }
  | none => { length := line.length, resume := none, width := line.width, text := lay.text }

/-! ### split_first_line -/

/-- Step 1: the amount of text handed to Pango.  `heur = false` is the function without its speed
heuristic (`short_text = text`), used to state `heuristic_transparent`. -/
def shortText (heur : Bool) (fs : Rat) (text : Text) (W : Rat) : Text :=
  if !heur then text
  else if fs * Gen.LineBreak.ratio > W then
    match find text ' ' with
    | some si => text.take (si + 2)
    | none => text
  else sliceTo text (some (truncZ (W / fs * Gen.LineBreak.ratio)))

/-- what step 1 leaves behind -/
structure Draft where
  text : Text
  short : Text
  lay : Layout
  line : Line
  deriving Repr

def step1 (heur : Bool) (st : Style) (text : Text) (W : Rat) : Except PyErr Draft :=
  let short := shortText heur st.fs text W
  let lay := createLayout st short (.fin W)
  let line := firstLine st.fs lay
  if line.resume = none ∧ short ≠ text then
    -- the small amount of text fits in one line: use the whole text
    .ok { text := text, short := text, lay := lay.setText text, line := firstLine st.fs (lay.setText text) }
  else
    let flt := sliceToNat short line.resume
    if flt ≠ short then
      (nextBreakPoint lay.text (flt.length + 1) short.length).map fun bp =>
        { text := if bp.isSome then short else text, short := short, lay := lay, line := line }
    else
      .ok { text := text, short := short, lay := lay, line := line }

/-- the `else:` of step 1 (no usable width): whole text, `original_max_width` -/
def draftFull (st : Style) (text : Text) (original : MaxW) : Draft :=
  let lay := createLayout st text original
  { text := text, short := text, lay := lay, line := firstLine st.fs lay }

/-- Step 5: the layout re-wrapped at character level (`set_text(text)`,
`set_width(int(max(0, max_width) * TO_UNITS))` — a negative available width is clamped to 0 like in
`create_layout`, so Pango never sees the negative value that means "no width" —, `PANGO_WRAP_CHAR`). -/
def step5Layout (lay : Layout) (text : Text) (W : Rat) : Layout :=
  { lay.setText text with width := some ((truncZ (max 0 W * 1024) : Rat) / 1024), wrapChar := true }

/-- Step 5: `resume_index = index or first_line.length`, `None` at the end of the text. -/
def step5Resume (line : Line) (text : Text) : Option Nat :=
  let r : Nat := match line.resume with
    | some i => if i ≠ 0 then i else line.length
    | none => line.length
  if r ≥ text.length then none else some r

/-- `can_break` of step 5. -/
def canBreakWord (st : Style) (isLineStart minimum : Bool) : Bool :=
  st.wb == .breakAll || (isLineStart && (st.ow == .anywhere || (st.ow == .breakWord && !minimum)))

/-- Step 5 (`word-break: break-all` / `overflow-wrap`), then the final `first_line_metrics`. -/
def step5 (st : Style) (text : Text) (maxW : MaxW) (isLineStart minimum : Bool)
    (lay : Layout) (line : Line) (ri : Option Nat) : Res :=
  let collapse := st.ws.spaceCollapse
  match maxW with
  | .fin W =>
    if W - line.width < 0 ∧ canBreakWord st isLineStart minimum = true then
      let lay' := step5Layout lay text W
      let line' := firstLine st.fs lay'
      firstLineMetrics st.fs line' text lay' (step5Resume line' text) collapse
    else firstLineMetrics st.fs line text lay ri collapse
  | _ => firstLineMetrics st.fs line text lay ri collapse

/-- Step 3, after `next_word` is known to be non-empty and white space collapses: the character
`second_line_text[break_point or -1]` decides whether the next word is tried on the first line. -/
def step3Try (st : Style) (d : Draft) (maxW : MaxW) (isLineStart minimum : Bool)
    (flt nextWord : Text) (c : Char) : Res :=
  let collapse := st.ws.spaceCollapse
  let text := d.text
  if c = ' ' then
    let new := flt ++ nextWord
    let lay := d.lay.setText new
    let line := firstLine st.fs lay
    match line.resume with
    | none =>
      if flt ≠ [] then
        -- the next word fits in the first line, keep the layout
        firstLineMetrics st.fs line text lay (some (new.length + 1)) collapse
      else
        let r := line.length + 1
        step5 st text maxW isLineStart minimum lay line (if r ≥ text.length then none else some r)
    | some r => step5 st text maxW isLineStart minimum lay line (some r)
  else step5 st text maxW isLineStart minimum d.lay d.line d.line.resume

/-- `first_line_text`, `second_line_text` of step 3. -/
def step3Texts (d : Draft) (maxW : MaxW) : Text × Text :=
  if maxW.ge d.line.width then (sliceToNat d.text d.line.resume, sliceFromNat d.text d.line.resume)
  else (([] : Text), d.text)

/-- `break_point` of step 3 (relative twice to the first line, as in the source). -/
def step3BreakPoint (d : Draft) (flt : Text) : Except PyErr (Option Int) :=
  if flt = d.short then .ok none
  else (nextBreakPoint d.lay.text (flt.length + 1) d.short.length).map
    (fun b => b.map (fun k => (k : Int) - ((flt.length : Int) + 1)))

/-- Step 3 (try to put the first word of the second line on the first line), then step 5. -/
def step3 (st : Style) (d : Draft) (maxW : MaxW) (isLineStart minimum : Bool) : Except PyErr Res :=
  let collapse := st.ws.spaceCollapse
  let text := d.text
  let flt := (step3Texts d maxW).1
  let slt := (step3Texts d maxW).2
  (step3BreakPoint d flt).bind fun bp =>
    let nextWord := rstripSp (sliceTo slt bp)
    if nextWord ≠ [] then
      if collapse then
        (get slt (orInt bp (-1)) "second_line_text").map
          (step3Try st d maxW isLineStart minimum flt nextWord)
      else .ok (step5 st text maxW isLineStart minimum d.lay d.line d.line.resume)
    else if flt ≠ [] then
      .ok (firstLineMetrics st.fs d.line text d.lay d.line.resume collapse)
    else
      .ok (step5 st text maxW isLineStart minimum d.lay d.line d.line.resume)

/-- Steps 2–5 on the draft of step 1. -/
def finish (st : Style) (d : Draft) (maxW : MaxW) (isLineStart minimum : Bool) : Except PyErr Res :=
  let collapse := st.ws.spaceCollapse
  -- Step 2
  if maxW = .none then
    .ok (firstLineMetrics st.fs d.line d.text d.lay d.line.resume collapse)
  else if d.line.resume = none ∧ maxW.ge d.line.width then
    .ok (firstLineMetrics st.fs d.line d.text d.lay d.line.resume collapse)
  else step3 st d maxW isLineStart minimum

/-- `split_first_line(text, style, context, max_width, justification_spacing, is_line_start, minimum)`
with (`heur = true`) or without its prefix heuristic. -/
def splitFirstLineH (heur : Bool) (st : Style) (text : Text) (maxWidth : MaxW)
    (isLineStart minimum : Bool) : Except PyErr Res :=
  let maxW := if st.ws.textWrap then maxWidth else .none
  let d : Except PyErr Draft :=
    match maxW with
    | .fin W => if st.fs ≠ 0 then step1 heur st text W else .ok (draftFull st text maxWidth)
    | _ => .ok (draftFull st text maxWidth)
  d.bind fun d => finish st d maxW isLineStart minimum

def splitFirstLine := splitFirstLineH true

/-! ### split_text_box -/

/-- what `split_text_box` keeps of the new box: its text and width -/
structure Child where
  text : Text
  width : Rat
  deriving Repr, BEq

structure TextSplit where
  child : Option Child
  resume : Option Nat
  preserved : Bool
  deriving Repr

/-- `between in line_breaks`: exactly one of the preserved line-break characters. -/
def isLineBreakText (between : Text) : Bool :=
  match between with
  | [c] => Gen.LineBreak.lineBreakChars.contains c.toNat
  | _ => false

/-- `split_text_box(context, box, available_width, skip, is_line_start)`. -/
def splitTextBox (st : Style) (text : Text) (avail : MaxW) (skip : Nat) (isLineStart : Bool) :
    Except PyErr TextSplit :=
  let t := text.drop skip
  if st.fs = 0 ∨ t = [] then
    .ok { child := none, resume := none, preserved := false }
  else
    (splitFirstLine st t avail isLineStart false).bind fun r =>
      if r.resume = some 0 then .error (.assertFailed "resume_index != 0") else
      let child := if r.length > 0 then some { text := r.text, width := r.width : Child } else none
      match r.resume with
      | none => .ok { child := child, resume := none, preserved := false }
      | some ri =>
        let between := (t.take ri).drop r.length
        let preserved := decide (r.length ≠ ri) && (between.any (· != ' '))
        if preserved && !isLineBreakText between then
          .error (.assertFailed "between in line_breaks")
        else .ok { child := child, resume := some (ri + skip), preserved := preserved }

/-! ### text_align / justify_line -/

inductive Align | left | right | center | justify | start | «end»
  deriving DecidableEq, Repr, Inhabited

def Align.css : Align → String
  | .left => "left" | .right => "right" | .center => "center" | .justify => "justify"
  | .start => "start" | .«end» => "end"

def Align.all : List Align := [.left, .right, .center, .justify, .start, .«end»]
def Align.ofCss? (s : String) : Option Align := Align.all.find? (fun w => w.css == s)

/-- inline-level boxes as `add_word_spacing` / `count_expandable_spaces` see them -/
inductive IBox where
  /-- `TextBox`: `position_x`, `width`, number of U+0020 / U+00A0 in its text -/
  | text (x w : Rat) (spaces : Nat)
  /-- `InlineBox` / `LineBox`: `position_x`, `width`, `direction == 'rtl'`, children -/
  | inl (x w : Rat) (rtl : Bool) (kids : List IBox)
  /-- any other box (atomic inline-level box — inline-block, inline table / flex / grid, replaced — or
  out-of-flow box): `position_x`, `is_in_normal_flow()`, and its own descendants when it is a
  `ParentBox` (their spaces are not the line's: the box is only translated) -/
  | atom (x : Rat) (inFlow : Bool) (kids : List IBox)
  deriving Repr, Inhabited

mutual
/-- `count_expandable_spaces(box)`: text boxes, and recursively `LineBox` / `InlineBox` only -/
def countSpaces : IBox → Nat
  | .text _ _ s => s
  | .inl _ _ _ kids => countSpacesL kids
  | .atom _ _ _ => 0
def countSpacesL : List IBox → Nat
  | [] => 0
  | b :: bs => countSpaces b + countSpacesL bs
end

def IBox.inFlow : IBox → Bool
  | .atom _ f _ => f
  | _ => true

mutual
/-- `box.translate(dx)`: the box and all its descendants -/
def IBox.translate (dx : Rat) : IBox → IBox
  | .text x w s => .text (x + dx) w s
  | .inl x w rtl kids => .inl (x + dx) w rtl (IBox.translateL dx kids)
  | .atom x f kids => .atom (x + dx) f (IBox.translateL dx kids)
def IBox.translateL (dx : Rat) : List IBox → List IBox
  | [] => []
  | b :: bs => b.translate dx :: IBox.translateL dx bs
end

mutual
/-- `add_word_spacing(context, box, justification_spacing, x_advance)` → (box, x_advance). -/
def addWordSpacing (js : Rat) : IBox → Rat → IBox × Rat
  | .text x w s, adv =>
    if s > 0 then (.text (x + adv) (w + js * s) s, adv + js * s) else (.text (x + adv) w s, adv)
  | .inl x w rtl kids, adv =>
    let (kids', adv') := if rtl then addWordSpacingR js kids adv else addWordSpacingL js kids adv
    (.inl (x + adv) (w + (adv' - adv)) rtl kids', adv')
  -- atomic inline-level box: `box.translate(x_advance, 0)`
  | .atom x f kids, adv => (.atom (x + adv) f (IBox.translateL adv kids), adv)
/-- the `for child in children` loop, first child first (`direction: ltr`) -/
def addWordSpacingL (js : Rat) : List IBox → Rat → List IBox × Rat
  | [], adv => ([], adv)
  | b :: bs, adv =>
    if b.inFlow then
      let (b', a) := addWordSpacing js b adv
      let (bs', a') := addWordSpacingL js bs a
      (b' :: bs', a')
    else
      let (bs', a') := addWordSpacingL js bs adv
      (b :: bs', a')
/-- the same loop over `children[::-1]` (`direction: rtl`): last child first -/
def addWordSpacingR (js : Rat) : List IBox → Rat → List IBox × Rat
  | [], adv => ([], adv)
  | b :: bs, adv =>
    let (bs', a) := addWordSpacingR js bs adv
    if b.inFlow then
      let (b', a') := addWordSpacing js b a
      (b' :: bs', a')
    else (b :: bs', a)
end

/-- `justify_line(context, line, extra_width)` -/
def justifyLine (line : IBox) (extra : Rat) : IBox :=
  let nb := countSpaces line
  if nb ≠ 0 then (addWordSpacing (extra / nb) line 0).1 else line

/-- the part of the line box's style read by `text_align` -/
structure AlignStyle where
  alignAll : Align
  /-- `text_align_last`; `none` = `auto` -/
  alignLast : Option Align
  ws : WS
  rtl : Bool
  deriving Repr

/-- `text_align`: `align` after `text-align-last` and after mapping `left` / `right` through `direction`. -/
def resolveAlign (s : AlignStyle) (last : Bool) : Align :=
  let align := if last then (match s.alignLast with | none => s.alignAll | some a => a) else s.alignAll
  if Gen.LineBreak.physicalAlignValues.contains align.css then
    (if (align == .left) != s.rtl then Align.start else Align.«end»)
  else align

/-- `text_align(context, line, available_width, last)` → (offset, line after justification). -/
def textAlign (s : AlignStyle) (line : IBox) (lineWidth avail : Rat) (last : Bool) :
    Except PyErr (Rat × IBox) :=
  if lineWidth ≥ avail then .ok (0, line) else
  let offset := avail - lineWidth
  match resolveAlign s last with
  | .start => .ok (0, line)
  | .justify => .ok (0, if s.ws.alignCollapse then justifyLine line offset else line)
  | .center => .ok (offset / 2, line)
  | .«end» => .ok (offset, line)
  | _ => .error (.assertFailed "align == 'end'")

/-! ### iter_line_boxes for one text box, no float -/

structure Para where
  st : Style
  text : Text
  /-- used `line-height` (`strut_layout`), in px -/
  lineHeight : Rat
  /-- content-box x and width of the containing block -/
  cbx : Rat
  width : Rat
  /-- resolved `text-indent` -/
  indent : Rat
  align : AlignStyle
  /-- starting `position_y` -/
  y : Rat
  deriving Repr

structure OutLine where
  x : Rat
  y : Rat
  w : Rat
  h : Rat
  /-- the text box: text, `position_x`, `width` -/
  child : Option (Text × Rat × Rat)
  /-- `resume_at` of the line (offset in the text box) -/
  resume : Option Nat
  deriving Repr

/-- `skip_first_whitespace` on the text box: the offset after removable leading spaces; `none` =
`'continue'` (nothing left). -/
def skipFirstWhitespace (ws : WS) (text : Text) (index : Nat) : Option Nat :=
  if index = text.length then none
  else if ws.skipFirst then some (index + ((text.drop index).takeWhile (· == ' ')).length)
  else some index

/-- `remove_last_whitespace` on a line whose last box is the text box: new (text, width) and the
removed width. -/
def removeLastWhitespace (st : Style) (c : Child) : Except PyErr (Child × Rat) :=
  if !st.ws.removeLast then .ok (c, 0) else
  let newText := rstripSp c.text
  if newText ≠ [] then
    if newText.length = c.text.length then .ok (c, 0)
    else
      (splitTextBox st newText .none 0 true).bind fun s =>
        match s.child, s.resume with
        | some nc, none => .ok ({ text := newText, width := nc.width }, c.width - nc.width)
        | none, _ => .error (.assertFailed "new_box is not None")
        | _, some _ => .error (.assertFailed "resume is None")
  else .ok ({ text := [], width := 0 }, c.width)

/-- `get_next_linebox` when the text box gives no new box: a phantom line box (height 0) unless a
preserved line break ends the line (an empty line of one line-height, aligned like a last line). -/
def emptyLine (p : Para) (lineX y : Rat) (s : TextSplit) : Except PyErr OutLine :=
  if !s.preserved then
    .ok { x := lineX, y := y, w := 0, h := 0, child := none, resume := s.resume }
  else
    (textAlign p.align (.inl lineX 0 p.align.rtl []) 0 p.width true).map fun r =>
      let off := if p.align.rtl then -r.1 - 0 else r.1
      { x := lineX + off, y := y, w := 0, h := p.lineHeight, child := none, resume := s.resume }

/-- `get_next_linebox` for a line holding the new text box `c` placed at `posX`:
`remove_last_whitespace`, `text_align`, vertical placement, translation. -/
def textLine (p : Para) (lineX posX y : Rat) (s : TextSplit) (c : Child) : Except PyErr OutLine :=
  let rtl := p.align.rtl
  (removeLastWhitespace p.st c).bind fun cr =>
    let c' := cr.1
    let removed := cr.2
    -- RTL line: the trailing space is at the left of the box
    let childX := if rtl then posX - removed else posX
    let lineW := posX + c.width - lineX - removed
    let last := s.resume.isNone || s.preserved
    let tree := IBox.inl lineX lineW rtl [IBox.text childX c'.width (count c'.text ' ')]
    (textAlign p.align tree lineW p.width last).bind fun r =>
      match r.2 with
      | .inl lx lw _ [.text cx cw _] =>
        -- `offset_x -= line.width` reads the width after justification
        let off := if rtl then -r.1 - lw else r.1
        .ok { x := lx + off, y := y, w := lw, h := p.lineHeight,
              child := some (c'.text, cx + off, cw), resume := s.resume }
      | _ => .error (.assertFailed "line tree")

/-- One `get_next_linebox` (ltr or rtl block, no float): the line and `resume_at`; `none` = no line. -/
def nextLine (p : Para) (skip : Option Nat) (y : Rat) (first : Bool) : Except PyErr (Option OutLine) :=
  match skipFirstWhitespace p.st.ws p.text (skip.getD 0) with
  | none => .ok none
  | some index =>
    let indent := if first then p.indent else 0
    -- avoid_collisions: the cursor is at the left (ltr) or right (rtl) bound
    let lineX := if p.align.rtl then p.cbx + p.width else p.cbx
    let maxX := (lineX + p.width) * Gen.LineBreak.fudge
    let posX := lineX + indent
    (splitTextBox p.st p.text (.fin (maxX - posX)) index true).bind fun s =>
      (match s.child with
       | none => emptyLine p lineX y s
       | some c => textLine p lineX posX y s c).map some

/-- `iter_line_boxes`: all the lines.  `fuel` bounds the loop; `none` = out of fuel, which never
happens from `text.length + 2` on (`Props/C09.iterLines_fuel`: every `resume_at` is strictly larger
than the previous one). -/
def iterLines (p : Para) : Nat → Option Nat → Rat → Bool → Option (Except PyErr (List OutLine))
  | 0, _, _, _ => none
  | fuel + 1, skip, y, first =>
    match nextLine p skip y first with
    | .error e => some (.error e)
    | .ok none => some (.ok [])
    | .ok (some line) =>
      match line.resume with
      | none => some (.ok [line])
      | some r => (iterLines p fuel (some r) (line.y + line.h) false).map (·.map (line :: ·))

def paragraph (p : Para) : Except PyErr (List OutLine) :=
  match iterLines p (p.text.length + 2) none p.y true with
  | some r => r
  | none => .error (.recursion "iter_line_boxes")

end Wp.LB
