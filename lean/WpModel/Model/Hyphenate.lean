/-
C09 — step 4 of `split_first_line` for `hyphens: auto` with a language (dictionary hyphenation), and
the steps around it with the `hyphenated` flag (`first_line_metrics(..., hyphenated,
hyphenate_character)`, step 5 resetting it).

The dictionary (pyphen) is an *assumed component*: its answer for every word of the text — the word's
first parts in `Pyphen(lang, left, right).iterate(word)` order, for the element's own
`hyphenate-limit-chars` — is an input of the model (`Cfg.dict`).  What is modelled is WeasyPrint's use
of it: the next word from Pango's word boundaries, `hyphenate-limit-chars` total, the
`hyphenate-limit-zone` test, the loop over the first parts with a fresh `create_layout`, the forced
hyphenation of an overflowing first word, and — implicitly — that the dictionary consulted is the one
of this element's limits (the cache `context.dictionaries` must not mix elements up).

`splitFirstLineHy st none` is `splitFirstLine st` (`Lemmas`: `splitFirstLineHy_none`).
No Mathlib: linked into the driver.
-/
import WpModel.Model.LineBreak

namespace Wp.Hy
open Wp Wp.Py Wp.Pango Wp.LB

/-- the hyphenation inputs of one call -/
structure Cfg where
  /-- `hyphenate-limit-chars` total (the left / right limits are inside `dict`) -/
  total : Nat
  /-- `hyphenate-limit-zone`: unit is `%` -/
  zonePct : Bool
  zone : Rat
  /-- `hyphenate-character` -/
  hchar : Text
  /-- word ↦ lengths of the first parts, in `dictionary.iterate(word)` order (longest first) -/
  dict : List (Text × List Nat)
  deriving Repr

/-- `get_next_word_boundaries(text, lang)` on letters / spaces / newlines (Pango `is_word_end`,
`is_word_boundary`): the first maximal run of letters. -/
def nextWordBoundaries (t : Text) : Option (Nat × Nat) :=
  if t.length < 2 then none else
  let start := (t.takeWhile (fun c => !isLetter c)).length
  let stop := start + ((t.drop start).takeWhile isLetter).length
  if start < stop then some (start, stop) else none

/-- `first_line_metrics(first_line, text, layout, resume_at, space_collapse, style, hyphenated, char)` -/
def firstLineMetricsHy (fs : Rat) (cfg : Cfg) (line : Line) (text : Text) (lay : Layout)
    (resumeAt : Option Nat) (collapse hyphenated : Bool) : Res :=
  if hyphenated then
    { length := line.length - cfg.hchar.length, resume := resumeAt, width := line.width, text := lay.text }
  else firstLineMetrics fs line text lay resumeAt collapse

/-- what steps 4 and 5 carry: layout, first line, `resume_index`, `hyphenated` -/
structure State where
  lay : Layout
  line : Line
  ri : Option Nat
  hyphenated : Bool
  deriving Repr

/-- `auto_hyphenation`: the next word is long enough and the space left on the line is worth it -/
def autoHyphenation (cfg : Cfg) (maxW : MaxW) (flw : Rat) (wordLen : Nat) : Bool :=
  decide (cfg.total ≤ wordLen) &&
  match maxW with
  | .fin W =>
    let space := W - flw
    let limit := if cfg.zonePct then W * cfg.zone / 100 else cfg.zone
    decide (space > limit) || decide (space < 0)
  | .inf => !cfg.zonePct      -- `inf > limit_zone` (inf * v / 100 is inf or nan)
  | .none => false

/-- `new_space >= 0` -/
def spaceLeft (maxW : MaxW) (width : Rat) : Bool :=
  match maxW with
  | .fin W => decide (W - width ≥ 0)
  | _ => true

/-- the `for first_word_part in dictionary_iterations` loop: the first part whose hyphenated line
fits (or the last one if it does not wrap); `lastTried` = the last `new_first_line_text`. -/
def tryParts (st : Style) (cfg : Cfg) (maxW : MaxW) (pre word : Text) :
    List Nat → Option State × Option Text
  | [] => (none, none)
  | k :: rest =>
    let new := pre ++ word.take k
    let lay := createLayout st (new ++ cfg.hchar) maxW
    let line := firstLine st.fs lay
    if line.resume.isNone && (spaceLeft maxW line.width || rest.isEmpty) then
      (some { lay := lay, line := line, ri := some new.length, hyphenated := true }, some new)
    else
      match tryParts st cfg maxW pre word rest with
      | (some s, t) => (some s, t)
      | (none, none) => (none, some new)
      | (none, some t) => (none, some t)

/-- Step 4 (`hyphens: auto`, a language, no soft hyphen in the text). -/
def step4 (st : Style) (cfg : Cfg) (maxW : MaxW) (flt slt : Text) (s : State) : State :=
  match nextWordBoundaries slt with
  | none => s
  | some (sw, ew) =>
    let word := (slt.take ew).drop sw
    if autoHyphenation cfg maxW s.line.width (ew - sw) then
      let parts := ((cfg.dict.find? (fun e => e.1 == word)).map (·.2)).getD []
      match tryParts st cfg maxW (flt ++ slt.take sw) word parts with
      | (some s', _) => s'
      | (none, some lastNew) =>
        if flt = [] then
          -- recreate the layout with no width: never break before or inside the hyphenate character
          let lay : Layout := { s.lay.setText (lastNew ++ cfg.hchar) with width := none }
          { lay := lay, line := firstLine st.fs lay, ri := some lastNew.length, hyphenated := true }
        else s
      | (none, none) => s
    else s

/-- Step 5 with the `hyphenated` flag, then `first_line_metrics`. -/
def step5Hy (st : Style) (cfg : Cfg) (text : Text) (maxW : MaxW) (isLineStart minimum : Bool) (s : State) : Res :=
  let collapse := st.ws.spaceCollapse
  match maxW with
  | .fin W =>
    if W - s.line.width < 0 ∧ canBreakWord st isLineStart minimum = true then
      let lay' := step5Layout s.lay text W
      let line' := firstLine st.fs lay'
      firstLineMetrics st.fs line' text lay' (step5Resume line' text) collapse
    else firstLineMetricsHy st.fs cfg s.line text s.lay s.ri collapse s.hyphenated
  | _ => firstLineMetricsHy st.fs cfg s.line text s.lay s.ri collapse s.hyphenated

/-- steps 4 and 5 -/
def step45 (st : Style) (cfg : Cfg) (text : Text) (maxW : MaxW) (a b : Bool) (flt slt : Text)
    (lay : Layout) (line : Line) (ri : Option Nat) : Res :=
  step5Hy st cfg text maxW a b (step4 st cfg maxW flt slt { lay := lay, line := line, ri := ri, hyphenated := false })

/-- `step3Try` with step 4 in the path -/
def step3TryHy (st : Style) (cfg : Cfg) (d : Draft) (maxW : MaxW) (a b : Bool) (flt slt nextWord : Text)
    (c : Char) : Res :=
  let collapse := st.ws.spaceCollapse
  let text := d.text
  if c = ' ' then
    let new := flt ++ nextWord
    let lay := d.lay.setText new
    let line := firstLine st.fs lay
    match line.resume with
    | none =>
      if flt ≠ [] then firstLineMetrics st.fs line text lay (some (new.length + 1)) collapse
      else
        let r := line.length + 1
        step45 st cfg text maxW a b flt slt lay line (if r ≥ text.length then none else some r)
    | some r => step45 st cfg text maxW a b flt slt lay line (some r)
  else step45 st cfg text maxW a b flt slt d.lay d.line d.line.resume

def step3Hy (st : Style) (cfg : Cfg) (d : Draft) (maxW : MaxW) (a b : Bool) : Except PyErr Res :=
  let collapse := st.ws.spaceCollapse
  let text := d.text
  let flt := (step3Texts d maxW).1
  let slt := (step3Texts d maxW).2
  (step3BreakPoint d flt).bind fun bp =>
    let nextWord := rstripSp (sliceTo slt bp)
    if nextWord ≠ [] then
      if collapse then
        (Py.get slt (orInt bp (-1)) "second_line_text").map (step3TryHy st cfg d maxW a b flt slt nextWord)
      else .ok (step45 st cfg text maxW a b flt slt d.lay d.line d.line.resume)
    else if flt ≠ [] then
      .ok (firstLineMetrics st.fs d.line text d.lay d.line.resume collapse)
    else .ok (step45 st cfg text maxW a b flt slt d.lay d.line d.line.resume)

def finishHy (st : Style) (cfg : Cfg) (d : Draft) (maxW : MaxW) (a b : Bool) : Except PyErr Res :=
  let collapse := st.ws.spaceCollapse
  if maxW = .none then .ok (firstLineMetrics st.fs d.line d.text d.lay d.line.resume collapse)
  else if d.line.resume = none ∧ maxW.ge d.line.width then
    .ok (firstLineMetrics st.fs d.line d.text d.lay d.line.resume collapse)
  else step3Hy st cfg d maxW a b

/-- `split_first_line` with `hyphens: auto` and a language (`cfg`), or without (`none`). -/
def splitFirstLineHy (st : Style) (cfg : Option Cfg) (text : Text) (maxWidth : MaxW) (a b : Bool) :
    Except PyErr Res :=
  match cfg with
  | none => splitFirstLine st text maxWidth a b
  | some cfg =>
    let maxW := if st.ws.textWrap then maxWidth else .none
    let d : Except PyErr Draft :=
      match maxW with
      | .fin W => if st.fs ≠ 0 then step1 true st text W else .ok (draftFull st text maxWidth)
      | _ => .ok (draftFull st text maxWidth)
    d.bind fun d => finishHy st cfg d maxW a b

end Wp.Hy
