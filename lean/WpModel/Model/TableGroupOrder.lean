/-
Which row groups of a table are its header and its footer, and in which order the groups are laid out
(`weasyprint/formatting_structure/build.py`, `wrap_table`, "Extract the optional header and footer
groups"), mirrored branch for branch:

    for group in row_groups:
        if display == ('table-header-group',) and header is None:   header = group
        elif display == ('table-footer-group',) and footer is None: footer = group
        else:                                                        body_row_groups.append(group)
    row_groups = [header]? + body_row_groups + [footer]?

CSS 2.1 17.2: only the *first* `table-header-group` / `table-footer-group` is the header / footer; the
others are treated as `table-row-group`.  `table_layout` repeats `table.children[0]` when it is the
header and `table.children[-1]` when it is the footer, and lays every other group out once.
No Mathlib: linked into `driver_c10`.
-/
import WpModel.Model.Wire

namespace Wp.TableGroups
open Wp

/-- `display` of a row group. -/
inductive GKind where
  | header | footer | body
  deriving Repr, DecidableEq

structure Split where
  header : Option Nat        -- index (in source order) of the group that is the header
  footer : Option Nat
  bodies : List Nat          -- the other groups, in source order
  deriving Repr, DecidableEq

/-- The loop, from group index `i`; `bodies` is accumulated in reverse. -/
def splitFrom : Nat → List GKind → Option Nat → Option Nat → List Nat → Split
  | _, [], h, f, acc => ⟨h, f, acc.reverse⟩
  | i, k :: ks, h, f, acc =>
    if k = .header ∧ h = none then splitFrom (i + 1) ks (some i) f acc
    else if k = .footer ∧ f = none then splitFrom (i + 1) ks h (some i) acc
    else splitFrom (i + 1) ks h f (i :: acc)

def split (kinds : List GKind) : Split := splitFrom 0 kinds none none []

/-- `row_groups` after the extraction: the order of `table.children`. -/
def layoutOrder (s : Split) : List Nat :=
  (match s.header with | some h => [h] | none => []) ++ s.bodies ++
  (match s.footer with | some f => [f] | none => [])

end Wp.TableGroups
