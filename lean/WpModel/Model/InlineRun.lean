/-
C09, nested inline boxes — `layout/inline.py`: `split_inline_level` (text and inline boxes),
`split_inline_box` (children loop, `is_last_child` / end spacing second pass, `can_break` between
children, waiting children, width and translation of the new box, `remove_decoration`),
`_break_waiting_children` (re-splitting a waiting child one pixel narrower until it breaks),
`can_break_inside`, `skip_first_whitespace` and `remove_last_whitespace` on nested boxes,
`is_phantom_linebox`, and the `get_next_linebox` / `iter_line_boxes` loop for a line box holding text
boxes and inline boxes (ltr, no float, no atomic inline, one font), under every `white-space` value of
the block (inherited by all the boxes): no break opportunity between two children under `pre` /
`nowrap`, `can_break_inside` only under the wrapping values, preserved line breaks inside nested boxes
(`preserved_line_break` travels up to `get_next_linebox`: the line is then aligned like a last line and
is never a phantom line box; it is reset when `_break_waiting_children` shortened the line, fix 889a2ec).

Mirrors the code, quirks included: `max_x *= 1 + 1e-9` at every nesting level; `first_letter` of a
resumed text box is the first letter of the whole box; the end spacing is only reserved for the
*direct* last child and is not part of the overflow test of the box that owns it; the start spacing
is added after the children were fitted; `position_x` is not recomputed after waiting children were
re-broken.  Recursion between the three functions is bounded by `fuel` (nesting depth).
No Mathlib: linked into the driver.
-/
import WpModel.Model.LineBreak

namespace Wp.IR
open Wp Wp.Py Wp.Pango Wp.LB

/-- the box tree under a line box, before layout -/
inductive Node where
  /-- `TextBox` with its text -/
  | text (s : Text)
  /-- `InlineBox`: left / right spacing (margin + border + padding), "has any non-zero margin, border
  or padding in its style" (for `is_phantom_linebox`), children -/
  | box (ls rs : Rat) (deco : Bool) (kids : List Node)
  /-- an `InlineBox` whose `trailing_collapsible_space` is set (by `build.inline_in_block`: its last
  children were text boxes emptied by white-space collapsing): the box itself, flagged -/
  | flagged (n : Node)
  deriving Repr, Inhabited

/-- `child.trailing_collapsible_space` -/
def Node.tcs : Node → Bool
  | .flagged _ => true
  | _ => false

/-- `last_letter` of `split_inline_box`: `None`, a character, or `True` (a collapsed space) -/
inductive Last where
  | none
  | ch (c : Char)
  | collapsed
  deriving Repr, Inhabited, DecidableEq

def Last.ofOpt : Option Char → Last
  | some c => .ch c
  | .none => .none

/-- `skip_stack` / `resume_at`: `{idx: sub}` -/
inductive Skip where
  | mk (idx : Nat) (sub : Option Skip)
  deriving Repr, Inhabited

def Skip.idx : Skip → Nat
  | .mk i _ => i

def Skip.sub : Skip → Option Skip
  | .mk _ s => s

/-- laid-out fragments -/
inductive Frag where
  /-- text, `position_x`, `width` -/
  | text (s : Text) (x w : Rat)
  /-- inline box fragment: `position_x`, `width`, left / right spacing after `remove_decoration`,
  "its style has a non-zero margin / border / padding", children -/
  | box (x w ls rs : Rat) (deco : Bool) (kids : List Frag)
  deriving Repr, Inhabited

def Frag.x : Frag → Rat
  | .text _ x _ => x
  | .box x _ _ _ _ _ => x

/-- `margin_width()` -/
def Frag.marginWidth : Frag → Rat
  | .text _ _ w => w
  | .box _ w ls rs _ _ => w + ls + rs

mutual
/-- `box.translate(dx)` -/
def Frag.translate (dx : Rat) : Frag → Frag
  | .text s x w => .text s (x + dx) w
  | .box x w ls rs d kids => .box (x + dx) w ls rs d (translateL dx kids)
def translateL (dx : Rat) : List Frag → List Frag
  | [] => []
  | f :: fs => f.translate dx :: translateL dx fs
end

/-- `can_break_text(text, lang)` on a fragment's text: a break opportunity strictly inside -/
def canBreakText (t : Text) : Bool :=
  decide (2 ≤ t.length) && (List.range (t.length - 1)).any (fun k => isLineBreakAttr t (k + 1))

mutual
/-- `can_break_inside(box)`: only under a wrapping `white-space` (its own tuple), a text box when
`can_break_text` finds an opportunity strictly inside, an inline box when one of its children can -/
def canBreakInside (ws : WS) : Frag → Bool
  | .text s _ _ => ws.breakInside && canBreakText s
  | .box _ _ _ _ _ kids => ws.breakInside && canBreakInsideL ws kids
def canBreakInsideL (ws : WS) : List Frag → Bool
  | [] => false
  | f :: fs => canBreakInside ws f || canBreakInsideL ws fs
end

/-- `can_break_text(last_letter + first, lang)`: a break opportunity between the two characters -/
def canBreakPair (a b : Char) : Bool := isLineBreakAttr [a, b] 1

/-- result of `split_inline_level` -/
structure LevelOut where
  frag : Option Frag
  resume : Option Skip
  first : Option Char
  last : Last
  /-- `preserved_line_break` -/
  preserved : Bool := false
  deriving Repr, Inhabited

/-- `(index, new_child, child)` of `children` / `waiting_children` -/
structure Entry where
  idx : Nat
  frag : Frag
  orig : Node
  deriving Repr, Inhabited

/-- state of the children loop of `split_inline_box` -/
structure LoopOut where
  children : List Entry
  resume : Option Skip
  posX : Rat
  first : Option Char
  last : Last
  preserved : Bool := false
  deriving Repr, Inhabited

def textLevel (st : Style) (s : Text) (posX maxX : Rat) (skip : Option Skip) : Except PyErr LevelOut :=
  match skip with
  | some (.mk _ (some _)) => .error (.assertFailed "skip_stack is None")
  | _ =>
    let k := match skip with
      | some (.mk k _) => k
      | none => 0
    (splitTextBox st s (.fin (maxX - posX)) k true).map fun r =>
      { frag := r.child.map (fun c => Frag.text c.text posX c.width)
        resume := r.resume.map (fun k => Skip.mk k none)
        first := s.head?
        last := Last.ofOpt (match r.resume with
          | none => s.getLast?
          | some k => (s.take k).getLast?)
        preserved := r.preserved }

/-- does the new text child end with a space (`unicodedata.category(text[-1]) == 'Zs'`) -/
def Frag.trailingWhitespace : Frag → Bool
  | .text s _ _ => s.getLast? == some ' '
  | _ => false

/-- the recursive call `split_inline_level(child, position_x, max_x, skip_stack)` one level down -/
abbrev Split := Node → Rat → Rat → Option Skip → Except PyErr LevelOut

/-- the `while max_x > child.position_x` loop of `_break_waiting_children`: re-split the waiting child
one pixel narrower until it breaks -/
def narrow (split : Split) (e : Entry) (childSkip : Option Skip) : Nat → Rat → Except PyErr (Option (Option Frag × Skip))
  | 0, _ => .ok none
  | n + 1, mx =>
    if mx > e.frag.x then
      (split e.orig e.frag.x mx childSkip).bind fun o =>
        match o.resume with
        | some r => .ok (some (o.frag, r))
        | none => narrow split e childSkip n (mx - 1)
    else .ok none

/-- `_break_waiting_children`, first half: try to cut inside the waiting children, last one first.
`kept` = `children` so far; result: new `children` and `resume_at`. -/
def tryWaiting (ws : WS) (split : Split) (skip : Option Skip) (kept : List Entry) :
    List Entry → Except PyErr (Option (List Entry × Skip))
  | [] => .ok none
  | e :: earlier =>
    if canBreakInside ws e.frag then
      let childSkip : Option Skip :=
        match skip with
        | some (.mk k s) => if k = e.idx then s else none
        | none => none
      (narrow split e childSkip (e.frag.marginWidth.ceil.toNat + 2) (e.frag.x + e.frag.marginWidth - 1)).bind
        fun found =>
          match found with
          | some (nf, r) =>
            let kept := kept ++ earlier.reverse
            let kept := match nf with
              | some g => kept ++ [{ idx := e.idx, frag := g, orig := e.orig }]
              | none => kept
            .ok (some (kept, Skip.mk e.idx (some r)))
          | none => tryWaiting ws split skip kept earlier
    else tryWaiting ws split skip kept earlier

/-- the `for i, child in enumerate(box.children[skip:])` loop of `split_inline_box` -/
def boxLoop (ws : WS) (split : Split) (rs maxX : Rat) (skip : Option Skip) :
    List Node → Nat → Rat → List Entry → List Entry → Option Char → Last → Bool → Option Skip →
      Except PyErr LoopOut
  | [], _, posX', children, waiting, firstL, lastL, pres, _ =>
    .ok { children := children ++ waiting, resume := none, posX := posX', first := firstL, last := lastL,
          preserved := pres }
  | child :: rest', index, posX', children, waiting, firstL, lastL, pres, subSkip =>
    let isLast := rest'.isEmpty
    (split child posX' maxX subSkip).bind fun out0 =>
    (if isLast && rs != 0 && out0.resume.isNone then
        -- the box ends here: lay the last child out again, keeping room for the end spacing
        split child posX' (maxX - rs) subSkip
      else .ok out0).bind fun out =>
    let pres1 := pres || out.preserved
    -- `if last_letter is True: last_letter = ' '` … `if box.style['white_space'] in ('pre', 'nowrap'): can_break =
    -- False` (an `if` of its own since fix fd6f32a: also consulted after a collapsed space) …
    -- `can_break_text(last_letter + first)`
    let canBreak := if ws.noBreakBetween then false else
      match lastL with
      | .collapsed =>
        (match out.first with
         | some b => canBreakPair ' ' b
         | none => false)
      | .ch a =>
        (match out.first with
         | some b => canBreakPair a b
         | none => false)
      | .none => false
    let children1 := if canBreak then children ++ waiting else children
    let waiting1 := if canBreak then [] else waiting
    let firstL1 := match firstL with
      | none => out.first
      | some c => some c
    -- `if child.trailing_collapsible_space: last_letter = True else: last_letter = last`
    let lastL1 := if child.tcs then Last.collapsed else out.last
    let finish (posX2 : Rat) (waiting2 : List Entry) : Except PyErr LoopOut :=
      match out.resume with
      | some r =>
        .ok { children := children1 ++ waiting2, resume := some (.mk index (some r)), posX := posX2,
              first := firstL1, last := lastL1, preserved := pres1 }
      | none => boxLoop ws split rs maxX skip rest' (index + 1) posX2 children1 waiting2 firstL1 lastL1 pres1 none
    match out.frag with
    | none => finish posX' waiting1
    | some f =>
      let newPos := f.x + f.marginWidth
      if newPos > maxX ∧ !f.trailingWhitespace then
        -- _break_waiting_children; `if previous_resume_at: … preserved_line_break = False` (fix 889a2ec): in both
        -- cases the line now ends before the current child
        (tryWaiting ws split skip children1 waiting1.reverse).bind fun prev =>
          match prev with
          | some (kept, r) =>
            .ok { children := kept, resume := some r, posX := posX', first := firstL1, last := lastL1,
                  preserved := false }
          | none =>
            match children1.getLast? with
            | some lastChild =>
              -- put the child entirely on the next line
              .ok { children := children1, resume := some (.mk (lastChild.idx + 1) none), posX := posX',
                    first := firstL1, last := lastL1, preserved := false }
            | none => finish newPos (waiting1 ++ [{ idx := index, frag := f, orig := child }])
      else finish newPos (waiting1 ++ [{ idx := index, frag := f, orig := child }])

/-- `split_inline_box(box, position_x, max_x, skip_stack)` given the recursive call for its children -/
def boxLevel (ws : WS) (split : Split) (ls rs : Rat) (deco : Bool) (kids : List Node) (posX maxX0 : Rat)
    (skip : Option Skip) : Except PyErr LevelOut :=
  let maxX := maxX0 * Gen.LineBreak.fudge
  let skipIdx := match skip with
    | some s => s.idx
    | none => 0
  let sub := skip.bind Skip.sub
  (boxLoop ws split rs maxX skip (kids.drop skipIdx) skipIdx posX [] [] none .none false sub).map fun lo =>
    let isStart := skip.isNone
    let isEnd := lo.resume.isNone
    let frags := lo.children.map (·.frag)
    let frags := if isStart then translateL ls frags else frags
    { frag := some (Frag.box posX (lo.posX - posX) (if isStart then ls else 0) (if isEnd then rs else 0) deco frags)
      resume := lo.resume
      first := lo.first
      last := lo.last
      preserved := lo.preserved }

/-- `split_inline_level`; `fuel` bounds the nesting depth. -/
def splitLevel (st : Style) : Nat → Split
  | 0, _, _, _, _ => .error (.recursion "split_inline_level")
  | _ + 1, .text s, posX, maxX, skip => textLevel st s posX maxX skip
  | fuel + 1, .box ls rs deco kids, posX, maxX0, skip =>
    boxLevel st.ws (splitLevel st fuel) ls rs deco kids posX maxX0 skip
  | fuel + 1, .flagged n, posX, maxX0, skip => splitLevel st fuel n posX maxX0 skip

/-- a line box: `split_inline_box` on the `LineBox` (no spacing; width from the last child) -/
structure LineOut where
  x : Rat
  w : Rat
  kids : List Frag
  resume : Option Skip
  preserved : Bool := false
  deriving Repr, Inhabited

def splitLine (st : Style) (fuel : Nat) (kids : List Node) (posX lineX maxX : Rat) (skip : Option Skip) :
    Except PyErr LineOut :=
  -- the line box is an inline box without spacing whose children start at `posX` (text-indent)
  (splitLevel st (fuel + 1) (.box 0 0 false kids) posX maxX skip).map fun o =>
    match o.frag with
    | some (.box _ _ _ _ _ frags) =>
      let w := match frags.getLast? with
        | some f => f.x + f.marginWidth - lineX
        | none => 0
      { x := lineX, w := w, kids := frags, resume := o.resume, preserved := o.preserved }
    | _ => { x := lineX, w := 0, kids := [], resume := o.resume, preserved := o.preserved }

/-! ### skip_first_whitespace / remove_last_whitespace / is_phantom_linebox on nested boxes -/

inductive SkipRes where
  | cont
  | skip (s : Option Skip)
  deriving Repr, Inhabited

/-- `skip_first_whitespace(box, skip_stack)` -/
def skipFirst (ws : WS) : Nat → Node → Option Skip → Except PyErr SkipRes
  | 0, _, _ => .error (.recursion "skip_first_whitespace")
  | _ + 1, .text s, skip =>
    match skip with
    | some (.mk _ (some _)) => .error (.assertFailed "next_skip_stack is None")
    | _ =>
      let index := match skip with
        | some (.mk k _) => k
        | none => 0
      match skipFirstWhitespace ws s index with
      | none => .ok .cont
      | some i => .ok (.skip (if i = 0 then none else some (.mk i none)))
  | fuel + 1, .flagged n, skip => skipFirst ws fuel n skip
  | fuel + 1, .box _ _ _ kids, skip =>
    let index := match skip with
      | some s => s.idx
      | none => 0
    let sub := skip.bind Skip.sub
    if index = 0 ∧ kids.isEmpty then .ok (.skip none) else
    match kids[index]? with
    | none => .error (.indexError "box.children[index]")
    | some child =>
      (skipFirst ws fuel child sub).bind fun r =>
        match r with
        | .skip s => .ok (.skip (if index ≠ 0 ∨ s.isSome then some (.mk index s) else none))
        | .cont =>
          let index := index + 1
          match kids[index]? with
          | none => .ok .cont
          | some next =>
            (skipFirst ws fuel next none).map fun r2 =>
              match r2 with
              | .cont => .skip (some (.mk index none))   -- `{index: 'continue'}`: unreachable without empty text boxes
              | .skip s => .skip (if index ≠ 0 ∨ s.isSome then some (.mk index s) else none)

mutual
/-- `is_phantom_linebox` on the children of a line / inline box: only inline boxes, themselves
phantom, without any margin / border / padding in their style -/
def phantomL : List Frag → Bool
  | [] => true
  | f :: fs => phantomF f && phantomL fs
def phantomF : Frag → Bool
  | .text _ _ _ => false
  | .box _ _ _ _ deco kids => phantomL kids && !deco
end

/-- `remove_last_whitespace(context, line)` on the chain of last children: new kids and removed width -/
def removeLast (st : Style) : Nat → List Frag → Except PyErr (List Frag × Rat)
  | 0, _ => .error (.recursion "remove_last_whitespace")
  | fuel + 1, kids =>
    match kids.getLast? with
    | none => .ok (kids, 0)
    | some (.text s x w) =>
      (removeLastWhitespace st { text := s, width := w }).map fun r =>
        (kids.dropLast ++ [Frag.text r.1.text x r.1.width], r.2)
    | some (.box x w ls rs d sub) =>
      if sub.isEmpty then .ok (kids, 0) else
      (removeLast st fuel sub).map fun r =>
        (kids.dropLast ++ [Frag.box x (w - r.2) ls rs d r.1], r.2)

/-! ### the paragraph -/

structure Para where
  st : Style
  kids : List Node
  lineHeight : Rat
  cbx : Rat
  width : Rat
  indent : Rat
  align : AlignStyle
  y : Rat
  deriving Repr

structure OutLine where
  x : Rat
  y : Rat
  w : Rat
  h : Rat
  kids : List Frag
  resume : Option Skip
  deriving Repr

def depthBound : Nat := 12

/-- one `get_next_linebox` (ltr, no float) -/
def nextLine (p : Para) (skip : Option Skip) (y : Rat) (first : Bool) : Except PyErr (Option OutLine) :=
  (skipFirst p.st.ws depthBound (.box 0 0 false p.kids) skip).bind fun sr =>
    match sr with
    | .cont => .ok none
    | .skip skip' =>
      let indent := if first then p.indent else 0
      let lineX := p.cbx
      let maxX := lineX + p.width
      let posX := lineX + indent
      (splitLine p.st depthBound p.kids posX lineX maxX skip').bind fun lo =>
        -- `is_phantom_linebox(line) and not preserved_line_break`
        if phantomL lo.kids && !lo.preserved then
          .ok (some { x := lineX, y := y, w := lo.w, h := 0, kids := lo.kids, resume := lo.resume })
        else
          (removeLast p.st depthBound lo.kids).bind fun rl =>
            let lineW := lo.w - rl.2
            let last := lo.resume.isNone || lo.preserved
            (textAlign p.align (.inl lineX lineW false []) lineW p.width last).map fun r =>
              let off := r.1
              some { x := lineX + off, y := y, w := lineW, h := p.lineHeight, kids := translateL off rl.1,
                     resume := lo.resume }

def iterLines (p : Para) : Nat → Option Skip → Rat → Bool → Option (Except PyErr (List OutLine))
  | 0, _, _, _ => none
  | fuel + 1, skip, y, first =>
    match nextLine p skip y first with
    | .error e => some (.error e)
    | .ok none => some (.ok [])
    | .ok (some line) =>
      match line.resume with
      | none => some (.ok [line])
      | some r => (iterLines p fuel (some r) (line.y + line.h) false).map (·.map (line :: ·))

mutual
def textLen : Node → Nat
  | .text s => s.length + 1
  | .box _ _ _ kids => textLenL kids + 1
  | .flagged n => textLen n + 1
def textLenL : List Node → Nat
  | [] => 0
  | n :: ns => textLen n + textLenL ns
end

def paragraph (p : Para) : Except PyErr (List OutLine) :=
  match iterLines p (2 * textLenL p.kids + 4) none p.y true with
  | some r => r
  | none => .error (.recursion "iter_line_boxes")

end Wp.IR
