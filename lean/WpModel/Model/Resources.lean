/-
C20 — Resources go through the caller's URL fetcher; fetch failures degrade gracefully.

Executable model (no Mathlib) of the *control flow* of

  weasyprint/urls.py            `fetch` (context manager), `url_is_absolute`
  weasyprint/images.py          `get_image_from_uri`, `RasterImage.__init__` (data-source part),
                                `RasterImage.cache_image_data`, `LazyImage.data`, `LazyLocalImage.data`,
                                `rotate_pillow_image` (identity-or-copy part)
  weasyprint/html.py            `handle_img`, `handle_embed`, `handle_object`
  weasyprint/__init__.py        `_select_source` (url branch), `CSS.__init__` (source reading part)
  weasyprint/css/__init__.py    `find_stylesheets`, the `@import` / `@media` / `@font-face` branches of
                                `preprocess_stylesheet` (with `ignore_imports`)
  weasyprint/text/fonts.py      `FontConfiguration.add_font_face` (the `src` loop)
  weasyprint/pdf/anchors.py     `write_pdf_attachment`, the attachment cache of `add_annotations`

State after the repairs of round 3: the cache key of `get_image_from_uri` holds the image options (bca20a5), an image
Pillow opens but cannot re-encode is an `ImageLoadingError` (d7dc388: `rasterInit` returns `Except`), the `media`
attribute of `<style>` / `<link>` is lower-cased (b7ca8f6).  `layout_box_backgrounds` and `DiskCache` are in
`Model/ResourcesBg.lean`.

The code that exists is modelled, quirks included.  What third-party code says about a byte string
(does `ElementTree.fromstring` accept it, does Pillow open it, with which format / mode, does
fontconfig accept the font file) is a *parameter* (`Content`): the harness obtains it by calling
those libraries directly.  Python exceptions are explicit (`Exc`), never defaulted.
-/
import WpModel.Model.Wire

namespace Wp.Res
open Wp

/-! ## Exceptions, byte strings, fetcher outcomes -/

/-- A Python exception: class name and `str(exception)`. -/
structure Exc where
  cls : String
  msg : String
  deriving Repr, BEq, DecidableEq, Inhabited

/-- `URLFetchingError(f'{type(exception).__name__}: {exception}')`. -/
def Exc.wrapFetch (e : Exc) : Exc := ⟨"URLFetchingError", e.cls ++ ": " ++ e.msg⟩

def Exc.isUrlFetching (e : Exc) : Bool := e.cls == "URLFetchingError"
def Exc.isImageLoading (e : Exc) : Bool := e.cls == "ImageLoadingError"

/-- What Pillow says about a byte string it can open. -/
structure Pil where
  format : String          -- `Image.format`: "JPEG", "MPO", "PNG", "GIF", …
  mode : String            -- `Image.mode`
  hasExif : Bool           -- `'exif' in image.info`
  hasTransparency : Bool   -- `'transparency' in image.info`
  pngWritable : Bool       -- `image.save(file, format='PNG')` succeeds on the (converted, rotated) image; Pillow
                           -- refuses some modes it can open (CMYK / float TIFF: `OSError: cannot write mode …`)
  deriving Repr, BEq, DecidableEq, Inhabited

/-- What the css pipeline makes of a byte string read as a stylesheet is given separately (`Sheet`).
For images and fonts: the verdicts of the third-party parsers on a byte string. -/
structure Content where
  id : Nat                 -- identity of the byte string (two contents with the same id are equal)
  xmlOk : Bool             -- `ElementTree.fromstring` accepts it and `SVGImage(tree, …)` is built
  pillow : Option Pil      -- `Image.open(BytesIO(string))` succeeds
  woff : Bool              -- `font[:3] == b'wOF'`
  woffOk : Bool            -- the woff / woff2 decoding succeeds (only read when `woff`)
  fontOk : Bool            -- `FcConfigAppFontAddFile` accepts the (decoded) file
  deriving Repr, BEq, DecidableEq, Inhabited

/-- `result['file_obj']`: what `read()` and `close()` do. -/
structure FileObj where
  readErr : Option Exc
  closeErr : Bool
  deriving Repr, BEq, DecidableEq, Inhabited

/-- The dict returned by the fetcher. -/
structure Resp where
  hasString : Bool               -- `'string' in result`
  fileObj : Option FileObj       -- `'file_obj' in result`
  mime : Option String           -- `result.get('mime_type')`
  redirected : Option String     -- `result.get('redirected_url')`
  content : Content              -- the bytes (`result['string']` or what `read()` returns)
  deriving Repr, BEq, DecidableEq, Inhabited

/-- What calling `url_fetcher(url)` does. -/
inductive Fetched where
  | raises (e : Exc)             -- any `Exception`
  | notDict                      -- returns `None`
  | resp (r : Resp)
  deriving Repr, BEq, DecidableEq, Inhabited

/-- The caller's fetcher: the only source of bytes of every model function below. -/
abbrev Fetcher := String → Fetched

/-- Observable events of one `with fetch(url_fetcher, url) as result:` block. -/
inductive Ev where
  | call (url : String)          -- `url_fetcher(url)` called
  | body                         -- the `with` body entered
  | close                        -- `file_obj.close()` returned
  | closeWarn                    -- `file_obj.close()` raised: logged, not fatal
  deriving Repr, BEq, DecidableEq, Inhabited

/-! ## urls.py `fetch` -/

/-- `result.setdefault('redirected_url', url)` (`mime_type` defaults to `None`, already `none`). -/
def Resp.withDefaults (r : Resp) (url : String) : Resp :=
  { r with redirected := some (r.redirected.getD url) }

/-- `fetch(url_fetcher, url)` around a `with` body.  Returns the event trace and what the whole
`with` statement does (value of the body, or the exception that leaves it). -/
def fetch {α} (f : Fetched) (url : String) (body : Resp → Except Exc α) : List Ev × Except Exc α :=
  match f with
  | .raises e => ([.call url], .error e.wrapFetch)
  | .notDict => ([.call url], .error ⟨"AttributeError", "'NoneType' object has no attribute 'setdefault'"⟩)
  | .resp r =>
    let r' := r.withDefaults url
    match r.fileObj with
    | some fo => ([.call url, .body, if fo.closeErr then .closeWarn else .close], body r')
    | none => ([.call url, .body], body r')

/-- `result['string'] if 'string' in result else result['file_obj'].read()`. -/
def readAll (r : Resp) : Except Exc Content :=
  if r.hasString then .ok r.content
  else match r.fileObj with
    | none => .error ⟨"KeyError", "'file_obj'"⟩
    | some fo => match fo.readErr with
      | some e => .error e
      | none => .ok r.content

/-! ## URL pieces (`urllib.parse.urlsplit` on ASCII strings, `UNICODE_SCHEME_RE`) -/

def isAlpha (c : Char) : Bool := ('a' ≤ c && c ≤ 'z') || ('A' ≤ c && c ≤ 'Z')
def isDigit (c : Char) : Bool := '0' ≤ c && c ≤ '9'
def isSchemeChar (c : Char) : Bool := isAlpha c || isDigit c || c == '+' || c == '-' || c == '.'
def lowerChar (c : Char) : Char := if 'A' ≤ c && c ≤ 'Z' then Char.ofNat (c.toNat + 32) else c

/-- Split at the first `sep`: `(before, some after)` or `(all, none)`. -/
def splitFirst (sep : Char) : List Char → List Char × Option (List Char)
  | [] => ([], none)
  | c :: cs =>
    if c == sep then ([], some cs)
    else let (a, b) := splitFirst sep cs; (c :: a, b)

/-- `urlsplit(url)`: `(scheme, rest)`; the scheme is recognised only when `url[:i]` (i > 0, first
character a letter) consists of scheme characters. -/
def splitScheme (url : List Char) : List Char × List Char :=
  match splitFirst ':' url with
  | (pre, some rest) =>
    match pre with
    | c :: _ => if isAlpha c && pre.all isSchemeChar then (pre.map lowerChar, rest) else ([], url)
    | [] => ([], url)
  | (_, none) => ([], url)

def urlScheme (url : String) : String := String.ofList (splitScheme url.toList).1

/-- `urlparse(url).path`: after the scheme, drop `//netloc`, cut at `#` then `?`. -/
def urlPath (url : String) : String :=
  let rest := (splitScheme url.toList).2
  let rest := match rest with
    | '/' :: '/' :: r => r.dropWhile (fun c => c != '/' && c != '?' && c != '#')
    | r => r
  let rest := (splitFirst '#' rest).1
  String.ofList (splitFirst '?' rest).1

def hexValue (c : Char) : Option Nat :=
  if '0' ≤ c && c ≤ '9' then some (c.toNat - '0'.toNat)
  else if 'a' ≤ c && c ≤ 'f' then some (c.toNat - 'a'.toNat + 10)
  else if 'A' ≤ c && c ≤ 'F' then some (c.toNat - 'A'.toNat + 10)
  else none

/-- Leading `%hh` escapes of a string as bytes, and the rest. -/
def takeEscapes : List Char → List Nat × List Char
  | '%' :: a :: b :: rest =>
    match hexValue a, hexValue b with
    | some x, some y => let (bs, r) := takeEscapes rest; ((x * 16 + y) :: bs, r)
    | _, _ => ([], '%' :: a :: b :: rest)
  | cs => ([], cs)

/-- UTF-8 decoding with U+FFFD for bytes that do not start a well-formed sequence (`errors='replace'`; Python
merges some ill-formed runs into one replacement character: only well-formed escapes are generated). -/
def decodeUtf8Fuel : Nat → List Nat → List Char
  | 0, _ => []
  | _, [] => []
  | fuel + 1, b :: rest =>
    let bad := Char.ofNat 0xFFFD :: decodeUtf8Fuel fuel rest
    let cont (x : Nat) : Bool := 0x80 ≤ x && x < 0xC0
    if b < 0x80 then Char.ofNat b :: decodeUtf8Fuel fuel rest
    else if 0xC2 ≤ b && b < 0xE0 then
      match rest with
      | c :: rest' => if cont c then Char.ofNat ((b - 0xC0) * 64 + (c - 0x80)) :: decodeUtf8Fuel fuel rest' else bad
      | _ => bad
    else if 0xE0 ≤ b && b < 0xF0 then
      match rest with
      | c :: d :: rest' =>
        if cont c && cont d then Char.ofNat ((b - 0xE0) * 4096 + (c - 0x80) * 64 + (d - 0x80)) :: decodeUtf8Fuel fuel rest'
        else bad
      | _ => bad
    else if 0xF0 ≤ b && b < 0xF5 then
      match rest with
      | c :: d :: e :: rest' =>
        if cont c && cont d && cont e then
          Char.ofNat ((b - 0xF0) * 262144 + (c - 0x80) * 4096 + (d - 0x80) * 64 + (e - 0x80)) :: decodeUtf8Fuel fuel rest'
        else bad
      | _ => bad
    else bad

def decodeUtf8 (bytes : List Nat) : List Char := decodeUtf8Fuel bytes.length bytes

/-- `urllib.parse.unquote`: runs of `%hh` escapes are decoded as UTF-8 (`fuel`: the length of the string). -/
def unquoteFuel : Nat → List Char → List Char
  | 0, cs => cs
  | _, [] => []
  | fuel + 1, '%' :: tl =>
    match takeEscapes ('%' :: tl) with
    | ([], _) => '%' :: unquoteFuel fuel tl
    | (bytes, rest) => decodeUtf8 bytes ++ unquoteFuel fuel rest
  | fuel + 1, c :: rest => c :: unquoteFuel fuel rest

def unquote (cs : List Char) : List Char := unquoteFuel cs.length cs

/-- `url2pathname(urlparse(url).path)` on POSIX. -/
def urlFilename (url : String) : String := String.ofList (unquote (urlPath url).toList)

/-- `UNICODE_SCHEME_RE = '^([a-zA-Z][a-zA-Z0-9.+-]+):'` (at least two characters). -/
def urlIsAbsolute (url : String) : Bool :=
  match splitFirst ':' url.toList with
  | (c :: d :: rest, some _) => isAlpha c && (d :: rest).all isSchemeChar
  | _ => false

/-! ## images.py: `RasterImage.__init__` data source, `get_image_from_uri` -/

/-- The `orientation` argument: `'from-image'`, `'none'` or `(angle, flip)`. -/
inductive Orient where
  | fromImage
  | keep
  | explicit (angle : Nat) (flip : Bool)
  deriving Repr, BEq, DecidableEq, Inhabited

/-- `f'{orientation}'`. -/
def Orient.render : Orient → String
  | .fromImage => "from-image"
  | .keep => "none"
  | .explicit a f => "(" ++ toString a ++ ", " ++ (if f then "True" else "False") ++ ")"

/-- `rotate_pillow_image(img, orientation) is not img`. -/
def rotated (o : Orient) (p : Pil) : Bool :=
  match o with
  | .fromImage => p.hasExif       -- `ImageOps.exif_transpose` returns a new image
  | .keep => false
  | .explicit a f => decide (a > 0) || f

/-- Where `RasterImage.image_data` takes its bytes from. -/
inductive Src where
  | lazyLocal (path : String)   -- `LazyLocalImage(filename)`: `Path(filename).read_bytes()` on every `.data`
  | memOriginal                 -- `LazyImage` holding the bytes given by the fetcher
  | memReencoded                -- `LazyImage` holding bytes re-encoded by Pillow from the fetcher's bytes
  deriving Repr, BEq, DecidableEq, Inhabited

structure Opts where
  optimize : Bool              -- `options['optimize_images']`
  jpegQuality : Option Nat     -- `options['jpeg_quality']`
  dpi : Option Nat             -- `options['dpi']`
  deriving Repr, BEq, DecidableEq, Inhabited

/-- `f'{value}'` of an optional integer option. -/
def pyOptNat : Option Nat → String
  | some n => toString n
  | Option.none => "None"

def pyBool (b : Bool) : String := if b then "True" else "False"

/-- `cache_image_data(data, filename)`: `if filename:`. -/
def cacheImageData (filename : Option String) : Src :=
  match filename with
  | some f => if f != "" then .lazyLocal f else .memOriginal
  | none => .memOriginal

/-- `RasterImage.__init__`: `(self.format, self.image_data)`, or the exception of `pillow_image.save`. -/
def rasterInit (p : Pil) (o : Orient) (filename : Option String) (opts : Opts) : Except Exc (String × Src) :=
  -- transposed: "Discard original data, as the image has been transformed"
  let haveData := !rotated o p
  let filename := if rotated o p then Option.none else filename
  -- `convert()` returns an image whose `format` is None
  let converted := p.hasTransparency || p.mode == "1" || p.mode == "P" || p.mode == "I"
  let isJpeg := !converted && (p.format == "JPEG" || p.format == "MPO")
  let isPng := !converted && p.format == "PNG"
  if isJpeg then
    if !haveData || opts.optimize || opts.jpegQuality.isSome then .ok ("JPEG", .memReencoded)
    else .ok ("JPEG", cacheImageData filename)
  else
    if !haveData || opts.optimize || !isPng then
      -- `pillow_image.save(image_file, format='PNG', optimize=optimize)`
      if p.pngWritable then .ok ("PNG", .memReencoded)
      else .error ⟨"OSError", "cannot write mode " ++ p.mode ++ " as PNG"⟩
    else .ok ("PNG", cacheImageData filename)

/-- An `Image` instance as far as the property is concerned. -/
inductive Img where
  | svg (content : Nat)
  | raster (format : String) (src : Src) (content : Nat)
  deriving Repr, BEq, DecidableEq, Inhabited

structure Req where
  url : String
  orient : Orient
  forcedMime : Option String      -- `forced_mime_type` (`None` and `''` are both falsy)
  deriving Repr, BEq, DecidableEq, Inhabited

/-- `key = f'{url} {orientation} {options["optimize_images"]} {options["jpeg_quality"]} {options["dpi"]}'`. -/
def Req.key (r : Req) (opts : Opts) : String :=
  r.url ++ " " ++ r.orient.render ++ " " ++ pyBool opts.optimize ++ " " ++ pyOptNat opts.jpegQuality ++ " " ++
    pyOptNat opts.dpi

abbrev Cache := List (String × Option Img)

def Cache.find? (c : Cache) (key : String) : Option (Option Img) :=
  match c with
  | [] => Option.none
  | (k, v) :: rest => if k == key then some v else Cache.find? rest key

/-- `forced_mime_type or result['mime_type']`. -/
def effectiveMime (forced : Option String) (r : Resp) : Option String :=
  match forced with
  | some m => if m != "" then some m else r.mime
  | none => r.mime

/-- The body of the `with fetch(...)` block of `get_image_from_uri`. -/
def imageBody (req : Req) (r : Resp) : Except Exc (Option String × Content × Option String) :=
  let redirected := r.redirected.getD ""
  let filename := if urlScheme redirected == "file" then some (urlFilename redirected) else Option.none
  match readAll r with
  | .error e => .error e
  | .ok content => .ok (filename, content, effectiveMime req.forcedMime r)

/-- The decision tree after the `with` block. -/
def decideImage (req : Req) (opts : Opts) (filename : Option String) (content : Content)
    (mime : Option String) : Except Exc Img :=
  let isSvgMime := mime == some "image/svg+xml"
  -- "Try to rely on given mimetype for SVG"
  if isSvgMime && content.xmlOk then .ok (.svg content.id)
  else
    -- "Try pillow for raster images, or for failing SVG"
    match content.pillow with
    | some p =>
      -- `try: RasterImage(…) except Exception as exception: raise ImageLoadingError.from_exception(exception)`
      match rasterInit p req.orient filename opts with
      | .ok (fmt, src) => .ok (.raster fmt src content.id)
      | .error e => .error ⟨"ImageLoadingError", if e.msg == "" then e.cls else e.cls ++ ": " ++ e.msg⟩
    | Option.none =>
      if isSvgMime then
        -- "Tried SVGImage then Pillow for a SVG, abort"
        .error ⟨"ImageLoadingError", "svg"⟩
      else if content.xmlOk then
        -- "Last chance, try SVG"
        .ok (.svg content.id)
      else
        -- "Tried Pillow then SVGImage for a raster, abort"
        .error ⟨"ImageLoadingError", "raster"⟩

/-- `get_image_from_uri`: new cache, events, and the returned image or the exception that escapes. -/
def getImage (cache : Cache) (fetcher : Fetcher) (opts : Opts) (req : Req) :
    Cache × List Ev × Except Exc (Option Img) :=
  match cache.find? (req.key opts) with
  | some v => (cache, [], .ok v)
  | Option.none =>
    let (evs, fetched) := fetch (fetcher req.url) req.url (imageBody req)
    let outcome : Except Exc Img := match fetched with
      | .error e => .error e
      | .ok (filename, content, mime) => decideImage req opts filename content mime
    match outcome with
    | .ok img => ((req.key opts, some img) :: cache, evs, .ok (some img))
    | .error e =>
      -- `except (URLFetchingError, ImageLoadingError)`: log, `image = None`
      if e.isUrlFetching || e.isImageLoading then ((req.key opts, Option.none) :: cache, evs, .ok Option.none)
      else (cache, evs, .error e)

/-- A sequence of `get_image_from_uri` calls sharing one cache, each with its own options (one cache shared by
several renders; each call wrapped separately: an escaping exception does not stop the sequence). -/
def runImages (fetcher : Fetcher) :
    Cache → List (Opts × Req) → List (List Ev × Except Exc (Option Img)) × Cache
  | cache, [] => ([], cache)
  | cache, (opts, req) :: rest =>
    let (cache', evs, out) := getImage cache fetcher opts req
    let (outs, final) := runImages fetcher cache' rest
    ((evs, out) :: outs, final)

/-! ### What is embedded at write time -/

/-- Bytes that end up in the PDF for an image. -/
inductive Embedded where
  | fetched (content : Nat)            -- the fetcher's bytes as they are
  | reencodedFrom (content : Nat)      -- Pillow output computed from the fetcher's bytes
  | fileBytes (content : Nat)          -- bytes read from the local file system at write time
  deriving Repr, BEq, DecidableEq, Inhabited

/-- The local file system at write time: path ↦ identity of the bytes, if the file exists. -/
abbrev Fs := String → Option Nat

/-- `image_data.data` when the PDF is written (`LazyImage.data` / `LazyLocalImage.data`). -/
def dataAtWrite (fs : Fs) : Img → Except Exc Embedded
  | .svg c => .ok (.fetched c)
  | .raster _ .memOriginal c => .ok (.fetched c)
  | .raster _ .memReencoded c => .ok (.reencodedFrom c)
  | .raster _ (.lazyLocal path) _ =>
    match fs path with
    | some c => .ok (.fileBytes c)
    | Option.none => .error ⟨"FileNotFoundError", path⟩

/-- Paths opened behind the fetcher's back when the image is written. -/
def opensAtWrite : Img → List String
  | .raster _ (.lazyLocal path) _ => [path]
  | _ => []

/-! ## html.py `handle_img`, `handle_embed`, `handle_object` -/

inductive BoxOut where
  | replaced          -- `make_replaced_box(element, box, image)`
  | altText (s : String)   -- the box with one anonymous TextBox holding the alt text
  | fallback          -- `[box]`: the element's children are the fallback
  deriving Repr, BEq, DecidableEq, Inhabited

/-- `handle_img` given the resolved `src` (None when missing / unresolvable), `alt`, and what
`get_image_from_uri` returned. -/
def handleImg (src : Option String) (alt : Option String) (image : Option Img) : List BoxOut :=
  let altBoxes := match alt with
    | some a => if a != "" then [BoxOut.altText a] else []
    | Option.none => []
  match src with
  | some s =>
    if s != "" then
      match image with
      | some _ => [.replaced]
      | Option.none => altBoxes
    else altBoxes
  | Option.none => altBoxes

def handleEmbed (src : Option String) (image : Option Img) : List BoxOut :=
  match src, image with
  | some s, some _ => if s != "" then [.replaced] else []
  | _, _ => []

def handleObject (data : Option String) (image : Option Img) : List BoxOut :=
  match data, image with
  | some s, some _ => if s != "" then [.replaced] else [.fallback]
  | _, _ => [.fallback]

/-! ## Stylesheets: `find_stylesheets`, `CSS(url=…)`, `@import`, `@media`, `@font-face` -/

/-- One `('external'|'local'|'internal', url)` entry of a `src` descriptor. -/
inductive FontSrc where
  | external (url : Option String)
  | internal
  | «local» (name : String) (found : Bool) (nameMatches : Bool) (uri : String)
  -- `found`: FcFontMatch returned a pattern; `nameMatches`: its fullname / postscriptname equals
  -- the requested one; `uri`: `Path(path).as_uri()` of the matched file
  deriving Repr, BEq, DecidableEq, Inhabited

structure FontFace where
  key : Nat                 -- identity of `str(rule_descriptors)` (same key ⇒ same temp file)
  srcs : List FontSrc
  deriving Repr, BEq, DecidableEq, Inhabited

mutual
  /-- A parsed stylesheet, in source order. -/
  inductive CssItem where
    | rule (id : Nat)                         -- a valid qualified rule (adds selector `id`)
    | other                                   -- `@page`, `@counter-style`, …: only sets `ignore_imports`
    | importRule (url : Option String) (media : Option (List String)) (target : Sheet)
      -- `url = none`: no usable URL token; `media = none`: invalid media query
    | mediaRule (media : Option (List String)) (items : List CssItem)
    | fontFace (complete : Bool) (face : FontFace)   -- `complete`: has `src` and `font-family`
  /-- What the fetcher does for a stylesheet URL and what the returned bytes parse to. -/
  inductive Sheet where
    | mk (fetched : Fetched) (items : List CssItem)
end

instance : Inhabited CssItem := ⟨.other⟩
instance : Inhabited Sheet := ⟨.mk .notDict []⟩

/-- One observable action of stylesheet processing, in execution order. -/
inductive Act where
  | rule (id : Nat)            -- a selector added to the matcher
  | font (face : FontFace)     -- `font_config.add_font_face(rule_descriptors, url_fetcher)` called
  | ev (e : Ev)                -- fetch event
  deriving Repr, BEq, DecidableEq, Inhabited

/-- Effect of stylesheet processing: the actions in order, and the exception that escaped (processing
stops there). -/
structure Out where
  acts : List Act := []
  err : Option Exc := Option.none
  deriving Repr, BEq, DecidableEq, Inhabited

def Out.ofEvs (evs : List Ev) (err : Option Exc := Option.none) : Out := ⟨evs.map .ev, err⟩

/-- Selectors added to the matcher(s), in order. -/
def Out.rules (o : Out) : List Nat := o.acts.filterMap (fun a => match a with | .rule i => some i | _ => Option.none)
/-- `add_font_face` calls, in order. -/
def Out.fonts (o : Out) : List FontFace := o.acts.filterMap (fun a => match a with | .font f => some f | _ => Option.none)
/-- Fetch events, in order. -/
def Out.log (o : Out) : List Ev := o.acts.filterMap (fun a => match a with | .ev e => some e | _ => Option.none)

/-- Sequential composition: the second part runs only if the first did not raise. -/
def Out.seq (a b : Out) : Out :=
  match a.err with
  | some _ => a
  | Option.none => { acts := a.acts ++ b.acts, err := b.err }

/-- `try: CSS(url=…) except URLFetchingError: LOGGER.error(…)`: the fetch failure is logged and
processing goes on; any other exception escapes. -/
def Out.absorbFetchError (o : Out) : Out :=
  match o.err with
  | some e => if e.isUrlFetching then { o with err := Option.none } else o
  | Option.none => o

/-- `evaluate_media_query(query_list, device_media_type)`. -/
def evaluateMedia (query : List String) (device : String) : Bool :=
  query.contains "all" || query.contains device

/-- How `_select_source(url=…, check_css_mime_type=…)` + `CSS.__init__` read the source.
`some none`: the `Unsupported stylesheet type` branch (an empty stylesheet is parsed instead). -/
def cssSourceBody (checkMime : Bool) (r : Resp) : Except Exc Bool :=
  if checkMime && r.mime != some "text/css" then .ok false
  else if r.hasString then .ok true
  else match r.fileObj with
    | Option.none => .error ⟨"KeyError", "'file_obj'"⟩
    | some fo => match fo.readErr with      -- `source = source.read()`
      | some e => .error e
      | Option.none => .ok true

mutual
  /-- `preprocess_stylesheet(…, ignore_imports)` on parsed rules. -/
  def runItems (device : String) : Bool → List CssItem → Out
    | _, [] => {}
    | _, .rule id :: rest => Out.seq ⟨[.rule id], Option.none⟩ (runItems device true rest)
    | _, .other :: rest => runItems device true rest
    | ign, .importRule url media target :: rest =>
      if ign then runItems device ign rest
      else match url, media with
        | Option.none, _ => runItems device ign rest
        | some _, Option.none => runItems device ign rest
        | some u, some m =>
          if !evaluateMedia m device then runItems device ign rest
          else
            -- `try: CSS(url=url, …) except URLFetchingError: log`
            Out.seq (runSheet device false u target).absorbFetchError (runItems device ign rest)
    | ign, .mediaRule media items :: rest =>
      match media with
      | Option.none => runItems device ign rest
      | some m =>
        if !evaluateMedia m device then runItems device true rest
        else Out.seq (runItems device true items) (runItems device true rest)
    | _, .fontFace complete face :: rest =>
      Out.seq (if complete then ⟨[.font face], Option.none⟩ else {}) (runItems device true rest)
  /-- `CSS(url=url, _check_mime_type=checkMime, …)`. -/
  def runSheet (device : String) (checkMime : Bool) (url : String) : Sheet → Out
    | .mk fetched items =>
      let (evs, src) := fetch fetched url (cssSourceBody checkMime)
      match src with
      | .error e => Out.ofEvs evs (some e)
      | .ok false => Out.ofEvs evs
      | .ok true => Out.seq (Out.ofEvs evs) (runItems device false items)
end

/-- A `<style>` or `<link>` element as `find_stylesheets` reads it. -/
structure StyleEl where
  isLink : Bool                       -- `<link>` (else `<style>`)
  typeAttr : Option String            -- raw `type` attribute
  mediaAttr : Option String           -- raw `media` attribute
  rel : Option String                 -- raw `rel` attribute
  href : Option String                -- raw `href` attribute
  joined : Option String              -- `urljoin(base_url, href.strip())` when a base URL exists (urllib, oracle)
  items : List CssItem                -- `<style>`: the parsed text content
  target : Sheet                      -- `<link>`: what the fetcher serves for the resolved URL

def isHtmlSpace (c : Char) : Bool := c == ' ' || c == '\t' || c == '\n' || c == '\x0c' || c == '\r'
/-- Python `str.strip()` on ASCII strings: white space is 0x09–0x0d and 0x1c–0x20. -/
def isPySpace (c : Char) : Bool := (0x09 ≤ c.toNat && c.toNat ≤ 0x0d) || (0x1c ≤ c.toNat && c.toNat ≤ 0x20)

def stripChars (cs : List Char) : List Char :=
  ((cs.dropWhile isPySpace).reverse.dropWhile isPySpace).reverse

def strip (s : String) : String := String.ofList (stripChars s.toList)

/-- Split on a separator character (Python `str.split(sep)`). -/
def splitOnChar (sep : Char) : List Char → List (List Char)
  | [] => [[]]
  | c :: cs =>
    match splitOnChar sep cs with
    | [] => [[]]
    | first :: rest => if c == sep then [] :: first :: rest else (c :: first) :: rest

/-- Non-empty runs of non-space characters (`HTML_SPACE_SEPARATED_TOKENS_RE.findall`). -/
def spaceTokens (cs : List Char) : List (List Char) :=
  ((splitOnChar ' ' (cs.map (fun c => if isHtmlSpace c then ' ' else c))).filter (fun t => !t.isEmpty))

/-- `element_has_link_type(element, link_type)`. -/
def hasLinkType (rel : Option String) (linkType : String) : Bool :=
  (spaceTokens (rel.getD "").toList).any (fun t => String.ofList (t.map lowerChar) == linkType)

/-- `element.get('type', 'text/css').split(';', 1)[0].strip()`. -/
def styleMime (typeAttr : Option String) : String :=
  String.ofList (stripChars (splitFirst ';' (typeAttr.getD "text/css").toList).1)

/-- `[m.strip().lower() for m in (element.get('media', '').strip() or 'all').split(',')]` (ASCII). -/
def styleMedia (mediaAttr : Option String) : List String :=
  let raw := stripChars (mediaAttr.getD "").toList
  let raw := if raw.isEmpty then "all".toList else raw
  (splitOnChar ',' raw).map (fun m => String.ofList ((stripChars m).map lowerChar))

/-! ### urls.py `iri_to_uri` -/

/-- UTF-8 encoding of one character. -/
def utf8 (c : Char) : List Nat :=
  let n := c.toNat
  if n < 0x80 then [n]
  else if n < 0x800 then [0xC0 + n / 64, 0x80 + n % 64]
  else if n < 0x10000 then [0xE0 + n / 4096, 0x80 + n / 64 % 64, 0x80 + n % 64]
  else [0xF0 + n / 262144, 0x80 + n / 4096 % 64, 0x80 + n / 64 % 64, 0x80 + n % 64]

/-- Bytes `quote(url, safe=b"/:?#[]@!$&'()*+,;=~%")` leaves alone: unreserved and the given `safe`. -/
def isUriByte (b : Nat) : Bool :=
  b < 0x80 && (let c := Char.ofNat b
    isAlpha c || isDigit c || "_.-~/:?#[]@!$&'()*+,;=%".toList.contains c)

def hexUpper (n : Nat) : Char := if n < 10 then Char.ofNat ('0'.toNat + n) else Char.ofNat ('A'.toNat + n - 10)

def quoteByte (b : Nat) : List Char :=
  if isUriByte b then [Char.ofNat b] else ['%', hexUpper (b / 16 % 16), hexUpper (b % 16)]

/-- `iri_to_uri(url)` (UTF-8 also for `file:`: the file system encoding of the test environment). -/
def iriToUri (url : List Char) : List Char :=
  if url.take 5 == "data:".toList then url
  else (url.flatMap utf8).flatMap quoteByte

/-- `get_url_attribute(element, 'href', base_url)`: stripped value; absolute → itself, else joined
with the base URL when there is one (`joined` = `iri_to_uri(urljoin(base_url, value))`, computed by the
harness or by `Url.urljoin`), else `None` (error logged). -/
def resolveHref (href : Option String) (joined : Option String) : Option String :=
  let value := strip (href.getD "")
  if value == "" then Option.none
  else if urlIsAbsolute value then some (String.ofList (iriToUri value.toList))
  else joined

/-- One iteration of the loop of `find_stylesheets`. -/
def runStyleEl (device : String) (el : StyleEl) : Out :=
  if styleMime el.typeAttr != "text/css" then {}
  else if !evaluateMedia (styleMedia el.mediaAttr) device then {}
  else if !el.isLink then runItems device false el.items
  else if (el.href.getD "") == "" then {}
  else if !hasLinkType el.rel "stylesheet" || hasLinkType el.rel "alternate" then {}
  else match resolveHref el.href el.joined with
    | Option.none => {}
    | some url => (runSheet device true url el.target).absorbFetchError

/-- `find_stylesheets` consumed to the end (as `get_all_computed_styles` does). -/
def findStylesheets (device : String) : List StyleEl → Out
  | [] => {}
  | el :: rest => Out.seq (runStyleEl device el) (findStylesheets device rest)

/-! ## text/fonts.py `add_font_face` -/

structure FontState where
  loaded : List Nat := []         -- keys whose temp file exists (`font_path.exists()`)
  deriving Repr, BEq, DecidableEq, Inhabited

/-- Result of one `add_font_face` call. -/
structure FontOut where
  log : List Ev := []
  installed : Option Nat := Option.none   -- content id of the font registered in fontconfig
  written : List Nat := []        -- content ids written to `font_path` (last one stays on disk)
  warned : Bool := false          -- 'Font-face … cannot be loaded'
  err : Option Exc := Option.none
  deriving Repr, BEq, DecidableEq, Inhabited

/-- The URL a `src` entry asks the fetcher for, if any: `url(...)` as resolved; `local(...)` the file
URI of the matched system font (no matching pattern / names don't match: `continue`). -/
def FontSrc.target : FontSrc → Option String
  | .external u => u
  | .internal => Option.none
  | .«local» _ found nameMatches uri => if found && nameMatches then some uri else Option.none

/-- The `for font_type, url in rule_descriptors['src']` loop. -/
def fontLoop (fetcher : Fetcher) : List FontSrc → FontOut → FontOut
  | [], acc => { acc with warned := true }
  | src :: rest, acc =>
    match src.target with
    | Option.none => fontLoop fetcher rest acc
    | some url =>
      let (evs, got) := fetch (fetcher url) url readAll
      let acc := { acc with log := acc.log ++ evs }
      match got with
      | .error _ => fontLoop fetcher rest acc      -- `except Exception: continue`
      | .ok content =>
        if content.woff && !content.woffOk then fontLoop fetcher rest acc
        else
          let acc := { acc with written := acc.written ++ [content.id] }
          if content.fontOk then { acc with installed := some content.id }
          else fontLoop fetcher rest acc

/-- `add_font_face(rule_descriptors, url_fetcher)`. -/
def addFontFace (fetcher : Fetcher) (st : FontState) (face : FontFace) : FontState × FontOut :=
  if st.loaded.contains face.key then (st, {})
  else
    let out := fontLoop fetcher face.srcs {}
    (if out.written.isEmpty then st else { loaded := face.key :: st.loaded }, out)

def runFonts (fetcher : Fetcher) : FontState → List FontFace → List FontOut
  | _, [] => []
  | st, face :: rest =>
    let (st', out) := addFontFace fetcher st face
    out :: runFonts fetcher st' rest

/-! ## pdf/anchors.py `write_pdf_attachment`, attachment cache of `add_annotations` -/

/-- `Attachment.source` entered and read to the end: `_select_source(url=…)` without MIME check. -/
def attachmentBody (r : Resp) : Except Exc Content :=
  if r.hasString then .ok r.content
  else match r.fileObj with
    | Option.none => .error ⟨"KeyError", "'file_obj'"⟩
    | some fo => match fo.readErr with      -- `source.read(4096)`
      | some e => .error e
      | Option.none => .ok r.content

/-- `write_pdf_attachment(pdf, Attachment(url=url, url_fetcher=…), compress)`:
the embedded content (a `/Filespec`), `none` (logged, nothing written), or an escaping exception. -/
def writeAttachment (fetcher : Fetcher) (url : String) : List Ev × Except Exc (Option Nat) :=
  let (evs, got) := fetch (fetcher url) url attachmentBody
  match got with
  | .ok c => (evs, .ok (some c.id))
  | .error e => if e.isUrlFetching then (evs, .ok Option.none) else (evs, .error e)

/-- `add_annotations`: one `write_pdf_attachment` per distinct target; `None` results are cached
too.  Returns per link the embedded content, and the events. -/
def annotAttachments (fetcher : Fetcher) :
    List (String × Option Nat) → List String → List Ev × Except Exc (List (Option Nat))
  | _, [] => ([], .ok [])
  | files, url :: rest =>
    match files.lookup url with
    | some v =>
      let (evs, out) := annotAttachments fetcher files rest
      (evs, out.map (v :: ·))
    | Option.none =>
      match writeAttachment fetcher url with
      | (evs, .error e) => (evs, .error e)
      | (evs, .ok v) =>
        let (evs', out) := annotAttachments fetcher ((url, v) :: files) rest
        (evs ++ evs', out.map (v :: ·))

/-- The metadata attachments of `generate_pdf`: one `write_pdf_attachment` each, `None` dropped. -/
def metadataAttachments (fetcher : Fetcher) : List String → List Ev × Except Exc (List Nat)
  | [] => ([], .ok [])
  | url :: rest =>
    match writeAttachment fetcher url with
    | (evs, .error e) => (evs, .error e)
    | (evs, .ok v) =>
      let (evs', out) := metadataAttachments fetcher rest
      (evs ++ evs', out.map (fun l => match v with | some c => c :: l | Option.none => l))

end Wp.Res
