/-
Mirror of `weasyprint/html.py::get_html_metadata` on the `<title>` / `<meta>` elements of a document
(`<link rel=attachment>` is I/O and not modelled) and of the "PDF information" block of
`weasyprint/pdf/__init__.py::generate_pdf` (which fields are written, under which truthiness test,
joined how), and of the `watch_elements` pass of `layout/__init__.py::layout_document`.
Strings are `List Char`.  No Mathlib: linked into the driver.
-/
import WpModel.Model.Wire
import WpModel.Model.Dates

namespace Wp.Metadata
open Wp Wp.Dates

/-- The elements `query_all('title', 'meta', …)` yields, in document order. -/
inductive HeadEl where
  | titleEl (text : Str)                  -- `get_child_text(element)`
  | metaEl (name content : Str)           -- `element.get('name', '')`, `element.get('content', '')`
  deriving Repr, BEq, DecidableEq

/-- The dictionary returned by `get_html_metadata` (without attachments and custom entries). -/
structure Meta where
  title : Option Str := none
  description : Option Str := none
  generator : Option Str := none
  keywords : List Str := []
  authors : List Str := []
  created : Option Str := none
  modified : Option Str := none
  lang : Option Str := none
  deriving Repr, BEq, DecidableEq

/-- `ascii_lower`: `string.encode().lower().decode()` maps A-Z only. -/
def asciiLower (s : Str) : Str :=
  s.map fun c => if 'A' ≤ c && c ≤ 'Z' then Char.ofNat (c.toNat + 32) else c

/-- `str.split(',')`: one more piece than there are commas. -/
def splitComma : Str → List Str
  | [] => [[]]
  | c :: rest =>
    match splitComma rest with
    | [] => [[c]]        -- unreachable: the result is never empty
    | p :: ps => if c == ',' then [] :: p :: ps else (c :: p) :: ps

def dropWs : Str → Str
  | [] => []
  | c :: rest => if isWs c then dropWs rest else c :: rest

/-- `strip_whitespace`: `string.strip(' \t\n\f\r')`. -/
def stripWs (s : Str) : Str := (dropWs (dropWs s).reverse).reverse

/-- `for keyword in map(strip_whitespace, content.split(',')): if keyword not in keywords: append`. -/
def addKeywords : List Str → List Str → List Str
  | [], acc => acc
  | k :: rest, acc => if acc.contains k then addKeywords rest acc else addKeywords rest (acc ++ [k])

/-- `parse_w3c_date(name, content)`. -/
def parseW3cDate (s : Str) : Option Str := if (matchW3C s).isSome then some s else none

def stepEl (m : Meta) : HeadEl → Meta
  | .titleEl text => if m.title.isNone then { m with title := some text } else m
  | .metaEl name content =>
    let name := asciiLower name
    if name == "keywords".toList then
      { m with keywords := addKeywords ((splitComma content).map stripWs) m.keywords }
    else if name == "author".toList then { m with authors := m.authors ++ [content] }
    else if name == "description".toList then
      if m.description.isNone then { m with description := some content } else m
    else if name == "generator".toList then
      if m.generator.isNone then { m with generator := some content } else m
    else if name == "dcterms.created".toList then
      if m.created.isNone then { m with created := parseW3cDate content } else m
    else if name == "dcterms.modified".toList then
      if m.modified.isNone then { m with modified := parseW3cDate content } else m
    else m

/-- `get_html_metadata(html)`; `lang` is the root element's `lang` attribute. -/
def getHtmlMetadata (lang : Option Str) (els : List HeadEl) : Meta :=
  els.foldl stepEl { lang := lang }

/-- `', '.join(items)`. -/
def joinComma : List Str → Str
  | [] => []
  | [x] => x
  | x :: rest => x ++ (',' :: ' ' :: joinComma rest)

def nonEmpty : Option Str → Option Str
  | some (c :: cs) => some (c :: cs)
  | _ => none

/-- `pydyf.String(_w3c_date_to_pdf(value, …))`: `None` would be written as the text `None`. -/
def dateField (s : Str) : Except PyErr Str :=
  match w3cDateToPdf s with
  | .error e => .error e
  | .ok none => .ok "None".toList
  | .ok (some r) => .ok r

def optField (key : String) (v : Option Str) : List (String × Str) :=
  match nonEmpty v with
  | some t => [(key, t)]
  | none => []

def listField (key : String) (v : List Str) : List (String × Str) :=
  if v.isEmpty then [] else [(key, joinComma v)]

def dateEntry (key : String) (v : Option Str) : Except PyErr (List (String × Str)) :=
  match nonEmpty v with
  | none => .ok []
  | some c =>
    match dateField c with
    | .error e => .error e
    | .ok r => .ok [(key, r)]

/-- The `/Info` entries written from the metadata (Producer excluded) and the catalog `/Lang`, in the
order of the `if metadata.…:` statements of `generate_pdf`. -/
def infoFields (m : Meta) : Except PyErr (List (String × Str)) :=
  match dateEntry "CreationDate" m.created, dateEntry "ModDate" m.modified with
  | .ok c, .ok d =>
    .ok (optField "Title" m.title ++ listField "Author" m.authors ++ optField "Subject" m.description ++
      listField "Keywords" m.keywords ++ optField "Creator" m.generator ++ c ++ d ++ optField "Lang" m.lang)
  | .error e, _ => .error e
  | _, .error e => .error e

/-! ## XMP packet (PDF/A, PDF/UA) -/

/-- `generate_rdf_metadata(metadata, variant, version, conformance)`: the `rdf:Description` blocks in
order, each as (qualified name, values) — an attribute (`@` prefix) has one value, `dc:creator` one
`rdf:li` per author, the others a single `rdf:li` or their text.  The W3C dates are written as they
are (XMP uses the W3C format). -/
def rdfFields (variant : String) (version : String) (conformance : Option String) (producer : Str) (m : Meta) :
    List (String × List Str) :=
  [("@pdf" ++ variant ++ "id:part", [version.toList])] ++
  (match conformance with
   | some c => if c != "" then [("@pdf" ++ variant ++ "id:conformance", [c.toList])] else []
   | none => []) ++
  [("@pdf:Producer", [producer])] ++
  (match nonEmpty m.title with | some t => [("dc:title", [t])] | none => []) ++
  (if m.authors.isEmpty then [] else [("dc:creator", m.authors)]) ++
  (match nonEmpty m.description with | some d => [("dc:subject", [d])] | none => []) ++
  (if m.keywords.isEmpty then [] else [("pdf:Keywords", [joinComma m.keywords])]) ++
  (match nonEmpty m.generator with | some g => [("xmp:CreatorTool", [g])] | none => []) ++
  (match nonEmpty m.created with | some c => [("xmp:CreateDate", [c])] | none => []) ++
  (match nonEmpty m.modified with | some c => [("xmp:ModifyDate", [c])] | none => [])

/-! ## one bookmark per element -/

/-- Which checklist a box belongs to (`element_tag.endswith('::before')` / `'::after'`). -/
inductive Pseudo where
  | none | before | after
  deriving Repr, DecidableEq

/-- A box of `page.descendants()` with a truthy `bookmark_label`: `(element id, pseudo)`.
Returns, for each box in order, whether it keeps its label. -/
def watch : List (Nat × Pseudo) → List (Nat × Pseudo) → List Bool
  | [], _ => []
  | b :: rest, seen =>
    if seen.contains b then false :: watch rest seen else true :: watch rest (seen ++ [b])

/-! ## links and anchors of the DOM -/

/-- The type `gather_anchors` records for an `<a href>`: a fragment-only href, or a URL that is the
document's own URL plus a fragment, is `internal` (`get_link_attribute`); any other URL is `external`,
turned into `attachment` by `rel=attachment`. -/
def linkType (isFragment isAttachment : Bool) : String :=
  if isFragment then "internal" else if isAttachment then "attachment" else "external"

/-- Anchor names in document order → the names that become destinations (first occurrence). -/
def firstOccurrences : List String → List String → List String
  | [], _ => []
  | n :: rest, seen =>
    if seen.contains n then firstOccurrences rest seen else n :: firstOccurrences rest (seen ++ [n])

end Wp.Metadata
