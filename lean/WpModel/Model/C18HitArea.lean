/-
Mirror of the geometry accessors of `weasyprint/formatting_structure/boxes.py::Box` that
`gather_anchors` reads — `padding_width`, `border_width`, `margin_width`, `padding_height`,
`border_height`, `margin_height`, `border_box_x`, `border_box_y` — and of the two `hit_area()` methods:

  * `Box.hit_area`        (border_box_x, border_box_y, border_width, border_height)
  * `InlineBox.hit_area`  (border_box_x, position_y, border_width, margin_height): the border box
                          horizontally, the whole line height vertically.

`RBox` is a laid-out box as the harness reads it from the real object: the **used values**
(`position_x`, `margin_left`, … attributes), not the results of the methods; `toGBox` computes from
them what `gather_anchors` reads through the methods, so that `gather` (Model/Anchors.lean) runs on
the raw geometry.  No Mathlib: linked into the driver.
-/
import WpModel.Model.Anchors

namespace Wp.Anchors
open Wp

/-- The used values of a laid-out box. -/
structure BoxGeom where
  positionX : Rat
  positionY : Rat
  width : Rat
  height : Rat
  marginTop : Rat := 0
  marginRight : Rat := 0
  marginBottom : Rat := 0
  marginLeft : Rat := 0
  paddingTop : Rat := 0
  paddingRight : Rat := 0
  paddingBottom : Rat := 0
  paddingLeft : Rat := 0
  borderTop : Rat := 0
  borderRight : Rat := 0
  borderBottom : Rat := 0
  borderLeft : Rat := 0
  deriving Repr, BEq, DecidableEq

namespace BoxGeom

/-- `padding_width()`. -/
def paddingWidth (g : BoxGeom) : Rat := g.width + g.paddingLeft + g.paddingRight
/-- `padding_height()`. -/
def paddingHeight (g : BoxGeom) : Rat := g.height + g.paddingTop + g.paddingBottom
/-- `border_width()`. -/
def borderWidth (g : BoxGeom) : Rat := g.paddingWidth + g.borderLeft + g.borderRight
/-- `border_height()`. -/
def borderHeight (g : BoxGeom) : Rat := g.paddingHeight + g.borderTop + g.borderBottom
/-- `margin_width()`. -/
def marginWidth (g : BoxGeom) : Rat := g.borderWidth + g.marginLeft + g.marginRight
/-- `margin_height()`. -/
def marginHeight (g : BoxGeom) : Rat := g.borderHeight + g.marginTop + g.marginBottom
/-- `border_box_x()`. -/
def borderBoxX (g : BoxGeom) : Rat := g.positionX + g.marginLeft
/-- `border_box_y()`. -/
def borderBoxY (g : BoxGeom) : Rat := g.positionY + g.marginTop

end BoxGeom

/-- `box.hit_area()` → `(x, y, w, h)`: `InlineBox` overrides `Box`. -/
def hitArea (kind : Kind) (g : BoxGeom) : Rat × Rat × Rat × Rat :=
  match kind with
  | .inline => (g.borderBoxX, g.positionY, g.borderWidth, g.marginHeight)
  | _ => (g.borderBoxX, g.borderBoxY, g.borderWidth, g.borderHeight)

/-- A laid-out box with its used values (what the harness reads from the real object). -/
inductive RBox where
  | mk (kind : Kind)
       (transform : List TOp) (originX originY : Dim)
       (geom : BoxGeom)
       (label : String) (level : Option Int) (state : String)
       (link : Option (String × String)) (isAttachment : Bool) (anchor : Option String)
       (children : List RBox)
  deriving Repr

mutual
/-- What `gather_anchors` reads from the box through `border_box_x()`, …, `hit_area()`. -/
def RBox.toGBox : RBox → GBox
  | .mk kind transform ox oy g label level state link att anchor kids =>
    let h := hitArea kind g
    .mk kind transform ox oy g.borderBoxX g.borderBoxY g.borderWidth g.borderHeight
      h.1 h.2.1 h.2.2.1 h.2.2.2 label level state link att anchor (RBox.toGBoxList kids)
def RBox.toGBoxList : List RBox → List GBox
  | [] => []
  | b :: rest => b.toGBox :: RBox.toGBoxList rest
end

/-- `Page.__init__` on the real box tree. -/
def gatherPageRaw (root : RBox) : Acc := gatherPage root.toGBox

end Wp.Anchors
