/-
Flex layout: mirror of `flex_layout` (weasyprint/layout/flex.py) as it is *now* (after the gap repairs
9225152 / 1e8fadb and the repairs 9739d52 [clamp only in 9.7.5.d], b901ca9 [paddings in
`main_outer_extra`], b27af5f [auto margins absorb positive free space only], 4ac1c09 [cross position set
before the auto cross margins], 10a14ee [align-content moves every item by its own offset]),
restricted to the document family of the C12 correspondence:

  a block-level flex container with a definite width, definite or `auto` height, no padding / border
  / margin of its own, `direction: ltr`, whose items are *empty* block `div`s carrying
  order, flex-grow, flex-shrink, flex-basis, width, height, min-*, max-*, margins (px or
  auto) , paddings, borders, align-self in px.

Model ↔ Python mapping (flex.py, `flex_layout`):
  `sortByOrder` = `sorted(children, key=order)`; `initSt`/`step3` = step 3 (3.A `main_outer_extra` = paddings +
  borders + non-auto margins; 3.E content base size); `mainSizeOf`/`columnAutoHeight` = step 4; `collectLines`/
  `flexLines` = step 5; `resolveLine` = step 6 / 9.7 (`sizeInflexible` 9.7.3, `freeSpace` 9.7.4, `remainingFree`
  9.7.5.b, `distribute` 9.7.5.c — *no clamp any more* —, `fixMinMax` 9.7.5.d — clamp to the main-axis
  min / max, signed adjustment —, `freezeOne` 9.7.5.e); `step7`; `lineCrosses` = step 8; `stretchLines` = step 9;
  `step11`; `step12` (auto margins take `max(0, free) / n`, justify-content keeps `min(0, free)`); `step13`
  (13 and 14: cross position first, then auto cross margins or align-self); `alignLines`/`step16` = 15, 16.
Every step keeps the code's remaining quirks (they are what the correspondence compares against):
  * 9.7.5 `initial_free_space *= unfrozen_factor_sum` is cumulative over the passes, the
    `int(log10 ·)` magnitude test;
  * 3.E the content base size is already clamped by the style min/max;
  * step 7 zeroes `auto` top/bottom margins whatever the main axis.
All coordinates are relative to the content box of the container.  Lengths are `Rat`; `auto` is
`none`; a maximum of `none` is `inf`.  No Mathlib.
-/
import WpModel.Model.Wire

namespace Wp.Flex
open Wp

inductive Wrap where | nowrap | wrap | wrapReverse
  deriving Repr, DecidableEq, Inhabited

/-- `justify-content` keywords accepted by the validator (single keyword). -/
inductive Justify where
  | center | spaceBetween | spaceAround | spaceEvenly | stretch | normal
  | flexStart | flexEnd | start | «end» | left | right
  deriving Repr, DecidableEq, Inhabited

/-- `align-items` / `align-self` keywords (baseline excluded: it needs text). -/
inductive Align where
  | auto | normal | stretch | center | start | «end» | selfStart | selfEnd | flexStart | flexEnd
  deriving Repr, DecidableEq, Inhabited

inductive AlignContent where
  | center | spaceBetween | spaceAround | spaceEvenly | stretch | normal | flexStart | flexEnd
  | start | «end»
  deriving Repr, DecidableEq, Inhabited

inductive Basis where | auto | content | px (q : Rat)
  deriving Repr, Inhabited

/-- Computed style of one item (px values). -/
structure Item where
  id : Nat
  order : Int
  grow : Rat
  shrink : Rat
  basis : Basis
  sWidth : Len
  sHeight : Len
  sMinW : Len            -- `none` = auto
  sMaxW : Len            -- `none` = none (inf)
  sMinH : Len
  sMaxH : Len
  ml : Len
  mr : Len
  mt : Len
  mb : Len
  pl : Rat
  pr : Rat
  pt : Rat
  pb : Rat
  bl : Rat
  br : Rat
  bt : Rat
  bb : Rat
  alignSelf : Align
  deriving Repr, Inhabited

structure Container where
  row : Bool
  reverse : Bool
  wrap : Wrap
  width : Rat
  height : Len
  mainGap : Rat
  crossGap : Rat
  justify : Justify
  alignItems : Align
  alignContent : AlignContent
  deriving Repr, Inhabited

/-- Mutable per-item state of `flex_layout` (attributes set on the child box). -/
structure St where
  it : Item
  width : Len
  height : Len
  ml : Len
  mr : Len
  mt : Len
  mb : Len
  posX : Rat
  posY : Rat
  base : Rat
  extra : Rat
  hyp : Rat
  target : Rat
  frozen : Bool
  factor : Rat
  adj : Rat
  deriving Repr, Inhabited

/-! ### small helpers -/

/-- `min(x, m)` where `m = none` is `inf`. -/
def capMax (x : Rat) : Option Rat → Rat
  | none => x
  | some m => min x m

/-- `max(mn, min(x, mx))`. -/
def clamp (mn x : Rat) (mx : Option Rat) : Rat := max mn (capMax x mx)

/-- `0 if m == 'auto' else m`. -/
def lenOr0 : Len → Rat
  | none => 0
  | some q => q

def sumBy {α} (f : α → Rat) : List α → Rat
  | [] => 0
  | x :: xs => f x + sumBy f xs

/-- used `min_width` after step 3: `min-width: auto` gives the content size, 0 for an empty item. -/
def Item.minW (i : Item) : Rat := lenOr0 i.sMinW
def Item.minH (i : Item) : Rat := lenOr0 i.sMinH

/-- `preferred.min_max(box, w)`: the *style* min-width and max-width. -/
def styleClampW (i : Item) (w : Rat) : Rat := clamp (lenOr0 i.sMinW) w i.sMaxW

def St.minMain (row : Bool) (s : St) : Rat := if row then s.it.minW else s.it.minH
def St.maxMain (row : Bool) (s : St) : Option Rat := if row then s.it.sMaxW else s.it.sMaxH

def St.borderWidth (s : St) : Rat := lenOr0 s.width + s.it.pl + s.it.pr + s.it.bl + s.it.br
def St.borderHeight (s : St) : Rat := lenOr0 s.height + s.it.pt + s.it.pb + s.it.bt + s.it.bb
def St.marginWidth (s : St) : Rat := s.borderWidth + lenOr0 s.ml + lenOr0 s.mr
def St.marginHeight (s : St) : Rat := s.borderHeight + lenOr0 s.mt + lenOr0 s.mb

/-- hypothetical outer main size, the quantity added up in steps 4, 5 and 9.7.1. -/
def St.outerHyp (s : St) : Rat := s.hyp + s.extra

/-- Validator `flex_grow_shrink` (css/validation/properties.py, since repair c151619): a negative `flex-grow` /
`flex-shrink` is invalid, the declaration is ignored and the property keeps its initial value (0 / 1). -/
def computedFactor (written initial : Rat) : Rat := if written < 0 then initial else written

/-! ### order -/

/-- Stable insertion of an element that came *before* `ys` in document order: before the first
element whose key is not smaller. -/
def insertByOrder (x : Item) : List Item → List Item
  | [] => [x]
  | y :: ys => if x.order ≤ y.order then x :: y :: ys else y :: insertByOrder x ys

/-- `sorted(box.children, key=lambda item: item.style['order'])` (stable). -/
def sortByOrder : List Item → List Item
  | [] => []
  | x :: xs => insertByOrder x (sortByOrder xs)

/-! ### step 3: flex base size and hypothetical main size -/

/-- used flex basis: `none` = `content`. -/
def usedBasis (row : Bool) (i : Item) : Option Rat :=
  match i.basis with
  | .content => none
  | .px q => some q
  | .auto => if row then i.sWidth else i.sHeight

def initSt (row : Bool) (i : Item) (px py : Rat) : St :=
  let (base, extra) :=
    match usedBasis row i with
    | some q =>
      -- 3.A: borders, paddings and non-auto margins
      (q, if row then i.bl + i.br + i.pl + i.pr + lenOr0 i.ml + lenOr0 i.mr
             else i.bt + i.bb + i.pt + i.pb + lenOr0 i.mt + lenOr0 i.mb)
    | none =>
      -- 3.E
      if row then
        (styleClampW i (lenOr0 i.sWidth), lenOr0 i.ml + lenOr0 i.mr + i.pl + i.pr + i.bl + i.br)
      else
        (clamp i.minH (lenOr0 i.sHeight) i.sMaxH, lenOr0 i.mt + lenOr0 i.mb + i.pt + i.pb + i.bt + i.bb)
  let mn := if row then i.minW else i.minH
  let mx := if row then i.sMaxW else i.sMaxH
  { it := i, width := i.sWidth, height := i.sHeight, ml := i.ml, mr := i.mr, mt := i.mt, mb := i.mb,
    posX := px, posY := py, base := base, extra := extra, hyp := clamp mn base mx,
    target := 0, frozen := false, factor := 0, adj := 0 }

def step3 (row : Bool) : List Item → Rat → Rat → List St
  | [], _, _ => []
  | i :: rest, px, py =>
    let s := initSt row i px py
    let adv := s.base + s.extra
    s :: (if row then step3 row rest (px + adv) py else step3 row rest px (py + adv))

/-! ### step 4 (column, `height: auto`) -/

/-- `Σ hypothetical + outer extra`, plus one gap per item but the first. -/
def autoMainSize (gap : Rat) (items : List St) : Rat :=
  sumBy St.outerHyp items + gap * ((items.length : Int) - 1 : Int)

/-- `box.height = 0; for i, child: box.height += …; if i: += gap` (no gap term for no item). -/
def columnAutoHeight (gap : Rat) : List St → Rat
  | [] => 0
  | items => autoMainSize gap items

/-! ### step 5: line collection -/

/-- `line` is the current line in reverse order, `size` its `line_size`. -/
def collectLines (wrap : Bool) (mainSize gap : Rat) : List St → List St → Rat → List (List St)
  | [], line, _ => if line.isEmpty then [] else [line.reverse]
  | c :: rest, line, size =>
    let s := size + c.outerHyp + (if line.isEmpty then 0 else gap)
    if wrap && s > mainSize then
      if line.isEmpty then [c] :: collectLines wrap mainSize gap rest [] 0
      else line.reverse :: collectLines wrap mainSize gap rest [c] c.outerHyp
    else collectLines wrap mainSize gap rest (c :: line) s

/-! ### step 6: 9.7 resolve the flexible lengths -/

/-- Largest `k` with `p * 10^(k+1)`-style search: number of times `10` fits, i.e. the largest `k`
with `d * 10^k ≤ n` (for `n ≥ d > 0`). -/
def ilog10Aux (n d : Nat) : Nat → Nat → Nat
  | 0, k => k
  | fuel + 1, k => if d * 10 ≤ n then ilog10Aux n (d * 10) fuel (k + 1) else k

/-- `int(log10(x))` for `x > 0` (truncation toward zero), `none` (= `-inf`) otherwise. -/
def magnitude (x : Rat) : Option Int :=
  if x > 0 then
    let n := x.num.toNat
    let d := x.den
    if n ≥ d then some (ilog10Aux n d (n + 1) 0)
    else some (-(ilog10Aux d n (d + 1) 0 : Int))
  else none

/-- `a < b` on `int | -inf`. -/
def magLt : Option Int → Option Int → Bool
  | none, some _ => true
  | some a, some b => a < b
  | _, none => false

/-- 9.7.1 -/
def lineHypSum (gap : Rat) (line : List St) : Rat :=
  sumBy St.outerHyp line + gap * ((line.length : Int) - 1 : Int)

/-- 9.7.3 -/
def sizeInflexible (grow : Bool) (s : St) : St :=
  let factor := if grow then s.it.grow else s.it.shrink
  let cond := if grow then s.base > s.hyp else s.base < s.hyp
  if factor == 0 || cond then { s with factor := factor, target := s.hyp, frozen := true }
  else { s with factor := factor, frozen := false }

/-- The size an item contributes to the free-space computations. -/
def St.usedMain (s : St) : Rat := (if s.frozen then s.target else s.base) + s.extra

/-- 9.7.4 / 9.7.5.b: `available − Σ (target|base + extra) − gaps`. -/
def freeSpace (avail gap : Rat) (line : List St) : Rat :=
  avail - sumBy St.usedMain line - gap * ((line.length : Int) - 1 : Int)

def unfrozenFactorSum (line : List St) : Rat :=
  sumBy (fun s => if s.frozen then 0 else s.factor) line

def scaledShrinkSum (line : List St) : Rat :=
  sumBy (fun s => if s.frozen then 0 else s.base * s.it.shrink) line

def growSum (line : List St) : Rat :=
  sumBy (fun s => if s.frozen then 0 else s.it.grow) line

/-- 9.7.5.c for one unfrozen item (the size is not clamped here: that is 9.7.5.d). -/
def distributeOne (grow : Bool) (remaining gsum ssum : Rat) (s : St) : Except PyErr St :=
  if s.frozen then .ok s
  else if grow then
    if gsum == 0 then .error (.zeroDivision "flex.grow_ratio")
    else .ok { s with target := s.base + remaining * (s.it.grow / gsum) }
  else if ssum == 0 then .ok { s with target := s.base }
  else .ok { s with target := s.base + remaining * (s.base * s.it.shrink / ssum) }

def mapExcept {α β ε} (f : α → Except ε β) : List α → Except ε (List β)
  | [] => .ok []
  | x :: xs => match f x with
    | .error e => .error e
    | .ok y => match mapExcept f xs with
      | .error e => .error e
      | .ok ys => .ok (y :: ys)

/-- 9.7.5.d for one item: `clamped = max(min, min(target, max))`, `adjustment = clamped - target`
(positive for a min violation, negative for a max violation). -/
def fixMinMax (row : Bool) (s : St) : St :=
  if s.frozen then { s with adj := 0 }
  else
    let clamped := clamp (s.minMain row) s.target (s.maxMain row)
    { s with adj := clamped - s.target, target := clamped }

/-- 9.7.5.e for one item. -/
def freezeOne (adjustments : Rat) (s : St) : St :=
  if adjustments == 0 then { s with frozen := true }
  else if adjustments > 0 && s.adj > 0 then { s with frozen := true }
  else if adjustments < 0 && s.adj < 0 then { s with frozen := true }
  else s

/-- 9.7.5.b: the updated `initial_free_space` (`*= unfrozen_factor_sum` when that sum is `< 1`,
cumulatively over the passes) and the remaining free space after the `int(log10 ·)` magnitude test. -/
def remainingFree (avail gap : Rat) (line : List St) (initialFree : Rat) : Rat × Rat :=
  let ufs := unfrozenFactorSum line
  let remaining0 := freeSpace avail gap line
  let initialFree := if ufs < 1 then initialFree * ufs else initialFree
  (initialFree, if magLt (magnitude initialFree) (magnitude remaining0) then initialFree else remaining0)

/-- "Do nothing" branch of 9.7.5.c: the target of an unfrozen item is its flex base size. -/
def setBase (s : St) : St := if s.frozen then s else { s with target := s.base }

/-- 9.7.5.c -/
def distribute (grow : Bool) (remaining : Rat) (line : List St) : Except PyErr (List St) :=
  if remaining == 0 then .ok (line.map setBase)
  else mapExcept (distributeOne grow remaining (growSum line) (scaledShrinkSum line)) line

/-- 9.7.5.d and 9.7.5.e -/
def finishPass (row : Bool) (line : List St) : List St :=
  let line := line.map (fixMinMax row)
  line.map (freezeOne (sumBy St.adj line))

/-- One pass of the `while` loop of 9.7.5; returns the new line and `initial_free_space`. -/
def pass (row grow : Bool) (avail gap : Rat) (line : List St) (initialFree : Rat) :
    Except PyErr (List St × Rat) :=
  match distribute grow (remainingFree avail gap line initialFree).2 line with
  | .error e => .error e
  | .ok l => .ok (finishPass row l, (remainingFree avail gap line initialFree).1)

def allFrozen (line : List St) : Bool := line.all (·.frozen)

/-- `while not all(child.frozen …)`, with fuel; running out of fuel is reported as non-termination
(`flex_terminates` shows that `line.length` passes always suffice). -/
def loop (row grow : Bool) (avail gap : Rat) : Nat → List St → Rat → Except PyErr (List St)
  | fuel, line, initialFree =>
    if allFrozen line then .ok line
    else match fuel with
      | 0 => .error (.recursion "flex.loop")
      | fuel + 1 =>
        match pass row grow avail gap line initialFree with
        | .error e => .error e
        | .ok (line, initialFree) => loop row grow avail gap fuel line initialFree

/-- 9.7 for one line, then 9.7.6 (`child.width|height = target`). -/
def resolveLine (row : Bool) (avail gap : Rat) (line : List St) : Except PyErr (List St) :=
  let grow := lineHypSum gap line < avail
  let line := line.map (sizeInflexible grow)
  let initialFree := freeSpace avail gap line
  match loop row grow avail gap line.length line initialFree with
  | .error e => .error e
  | .ok line =>
    .ok (line.map fun s => if row then { s with width := some s.target } else { s with height := some s.target })

/-! ### steps 7–11: cross sizes -/

/-- Step 7 for an empty block item: auto top/bottom margins become 0 (whatever the axis); the
hypothetical cross size is the height (resp. width) the block layout gives. -/
def step7 (row : Bool) (s : St) : St :=
  let s := { s with mt := some (lenOr0 s.mt), mb := some (lenOr0 s.mb) }
  if row then
    { s with height := some (clamp s.it.minH (lenOr0 s.height) s.it.sMaxH) }
  else
    match s.width with
    | none => { s with width := some (styleClampW s.it 0) }
    | some w =>
      -- `handle_min_max_width`
      let w := match s.it.sMaxW with | some m => if w > m then m else w | none => w
      let w := if w < s.it.minW then s.it.minW else w
      { s with width := some w }

structure Line where
  items : List St
  cross : Rat
  deriving Repr, Inhabited

/-- outer cross size of a (not collected) item: border box + non-auto cross margins -/
def St.outerCross (row : Bool) (s : St) : Rat :=
  if row then s.borderHeight + lenOr0 s.mt + lenOr0 s.mb
  else s.borderWidth + lenOr0 s.ml + lenOr0 s.mr

/-- `max` over a list starting from `-inf`, then `max(collected = 0, ·)`; an empty line gives 0. -/
def lineCross8 (row : Bool) (items : List St) : Rat :=
  items.foldl (fun m s => max m (s.outerCross row)) 0

def resolveAlign (alignItems : Align) (a : Align) : Align :=
  match a with
  | .normal => .stretch
  | .auto => match alignItems with | .normal => .stretch | x => x
  | x => x

def St.styleCrossAuto (row : Bool) (s : St) : Bool := if row then s.it.sHeight.isNone else s.it.sWidth.isNone

/-- Step 11 for one item. -/
def step11 (row : Bool) (alignItems : Align) (cross : Rat) (s : St) : St :=
  if resolveAlign alignItems s.it.alignSelf == .stretch && s.styleCrossAuto row then
    if row then
      match s.mt, s.mb with
      | some mt, some mb =>
        { s with height := some (cross - (mt + mb + s.it.pt + s.it.pb + s.it.bt + s.it.bb)) }
      | _, _ => s
    else
      match s.ml, s.mr with
      | some ml, some mr =>
        { s with width := some (cross - (ml + mr + s.it.pl + s.it.pr + s.it.bl + s.it.br)) }
      | _, _ => s
  else s

/-! ### step 12: main-axis alignment -/

def effectiveJustify (reverse : Bool) (j : Justify) : Justify :=
  let j := if j == .normal then .flexStart else j
  if reverse then
    match j with
    | .flexStart => .flexEnd
    | .flexEnd => .flexStart
    | .start => .«end»
    | .«end» => .start
    | x => x
  else j

def countAutoMain (row : Bool) (line : List St) : Nat :=
  line.foldl (fun n s =>
    if row then n + (if s.ml.isNone then 1 else 0) + (if s.mr.isNone then 1 else 0)
    else n + (if s.mt.isNone then 1 else 0) + (if s.mb.isNone then 1 else 0)) 0

def St.outerMainNonAuto (row : Bool) (s : St) : Rat :=
  if row then s.borderWidth + lenOr0 s.ml + lenOr0 s.mr
  else s.borderHeight + lenOr0 s.mt + lenOr0 s.mb

/-- free space of step 12 (before the auto margins take it). -/
def lineFree (row : Bool) (mainSize gap : Rat) (line : List St) : Rat :=
  mainSize - sumBy (St.outerMainNonAuto row) line - gap * ((line.length : Int) - 1 : Int)

def setAutoMain (row : Bool) (v : Rat) (s : St) : St :=
  if row then { s with ml := some (s.ml.getD v), mr := some (s.mr.getD v) }
  else { s with mt := some (s.mt.getD v), mb := some (s.mb.getD v) }

/-- offset of the first item (12.2) -/
def justifyStart (j : Justify) (free : Rat) (n : Nat) : Rat :=
  match j with
  | .«end» | .flexEnd | .right => free
  | .center => free / 2
  | .spaceAround => free / n / 2
  | .spaceEvenly => free / (n + 1 : Nat)
  | _ => 0

/-- extra distance after each item -/
def justifyBetween (j : Justify) (free : Rat) (n : Nat) : Rat :=
  match j with
  | .spaceAround => free / n
  | .spaceBetween => if n > 1 then free / (n - 1 : Nat) else 0
  | .spaceEvenly => free / (n + 1 : Nat)
  | _ => 0

/-- The loop of 12.2 over the items of one line (`first` = `i == 0`). -/
def placeMain (row : Bool) (j : Justify) (free gap growths : Rat) (n : Nat) :
    List St → Rat → Bool → List St
  | [], _, _ => []
  | s :: rest, pos, first =>
    let pos := if first then pos else pos + gap
    let s :=
      if row then
        let s := { s with posX := pos }
        if j == .stretch && growths != 0 then
          { s with width := some (lenOr0 s.width + free * s.it.grow / growths) }
        else s
      else { s with posY := pos }
    let pos := pos + (if row then s.marginWidth else s.marginHeight) + justifyBetween j free n
    s :: placeMain row j free gap growths n rest pos false

def step12 (c : Container) (mainSize growths : Rat) (line : List St) : List St :=
  let free := lineFree c.row mainSize c.mainGap line
  let margins := countAutoMain c.row line
  -- 12.1: auto margins only absorb positive free space; the overflow is left to justify-content
  let (line, free) :=
    if margins != 0 then (line.map (setAutoMain c.row (max 0 free / margins)), min 0 free) else (line, free)
  let j := effectiveJustify c.reverse c.justify
  placeMain c.row j free c.mainGap growths line.length line (justifyStart j free line.length) true

/-! ### steps 13–14: cross-axis alignment -/

def isEndAlign : Align → Bool
  | .«end» | .selfEnd | .flexEnd => true
  | _ => false

def setCross (row : Bool) (v : Rat) (s : St) : St :=
  if row then { s with posY := v } else { s with posX := v }

/-- Steps 13 (auto cross margins) and 14 (align-self) for an item already put at the cross start of its line. -/
def step13Aux (row : Bool) (alignItems : Align) (cross posCross : Rat) (s : St) : St :=
  let autos : Nat :=
    if row then (if s.mt.isNone then 1 else 0) + (if s.mb.isNone then 1 else 0)
    else (if s.ml.isNone then 1 else 0) + (if s.mr.isNone then 1 else 0)
  if autos != 0 then
    let extra := cross - s.outerCross row
    if extra > 0 then
      let e := extra / autos
      if row then { s with mt := some (s.mt.getD e), mb := some (s.mb.getD e) }
      else { s with ml := some (s.ml.getD e), mr := some (s.mr.getD e) }
    else
      if row then { s with mt := some (s.mt.getD 0), mb := some extra }
      else { s with ml := some (s.ml.getD 0), mr := some extra }
  else
    let a := resolveAlign alignItems s.it.alignSelf
    let outer := if row then s.marginHeight else s.marginWidth
    let off : Rat :=
      if isEndAlign a then cross - outer
      else if a == .center then (cross - outer) / 2
      else 0
    if row then { s with posY := posCross + off } else { s with posX := posCross + off }

/-- Steps 13 and 14 for one item: `setattr(child, position, position_cross)` comes first, whatever the
margins, then the auto cross margins or the alignment. -/
def step13 (row : Bool) (alignItems : Align) (cross posCross : Rat) (s : St) : St :=
  step13Aux row alignItems cross posCross (setCross row posCross s)

def step13Lines (row : Bool) (alignItems : Align) : List Line → Rat → List Line
  | [], _ => []
  | l :: rest, pos =>
    { l with items := l.items.map (step13 row alignItems l.cross pos) } ::
      step13Lines row alignItems rest (pos + l.cross)

/-! ### steps 15–16: align-content -/

def addCross (row : Bool) (v : Rat) (s : St) : St :=
  if row then { s with posY := s.posY + v } else { s with posX := s.posX + v }

def alignContentShift (ac : AlignContent) (extra : Rat) (n : Nat) : Option Rat :=
  match ac with
  | .flexEnd | .«end» => some extra
  | .center => some (extra / 2)
  | .spaceAround => some (extra / n / 2)
  | .spaceEvenly => some (extra / (n + 1 : Nat))
  | _ => none

def alignContentStep (ac : AlignContent) (extra : Rat) (n : Nat) : Rat :=
  match ac with
  | .spaceBetween => extra / (n - 1 : Nat)
  | .spaceAround => extra / n
  | .spaceEvenly => extra / (n + 1 : Nat)
  | _ => 0

/-- `line_translate` of step 16: the running `cross_translate` plus the offset of the
`align-content` value when there is extra cross space. -/
def lineTranslate (ac : AlignContent) (extra : Rat) (n : Nat) (tr : Rat) : Rat :=
  if extra == 0 then tr
  else match alignContentShift ac extra n with
    | some sh => tr + sh
    | none => tr

/-- Step 16 (only run when there is more than one line): every item of a line is moved by the
line's own translation. -/
def step16 (row : Bool) (ac : AlignContent) (extra gap : Rat) (n : Nat) :
    List Line → Rat → Bool → List Line
  | [], _, _ => []
  | l :: rest, tr, first =>
    let tr := if first then tr else tr + gap
    let items := l.items.map (addCross row (lineTranslate ac extra n tr))
    if extra == 0 then
      { l with items := items } :: step16 row ac extra gap n rest tr false
    else
      { l with items := items } :: step16 row ac extra gap n rest (tr + alignContentStep ac extra n) false

/-! ### the whole layout -/

structure Rect where
  id : Nat
  x : Rat
  y : Rat
  w : Rat
  h : Rat
  deriving Repr, Inhabited

/-- Final `block_level_layout_switch` of an (empty) item: min/max re-applied to both sizes. -/
def finalRect (s : St) : Rect :=
  let w := lenOr0 s.width
  let w := match s.it.sMaxW with | some m => if w > m then m else w | none => w
  let w := if w < s.it.minW then s.it.minW else w
  let h := clamp s.it.minH (lenOr0 s.height) s.it.sMaxH
  { id := s.it.id, x := s.posX + lenOr0 s.ml, y := s.posY + lenOr0 s.mt,
    w := w + s.it.pl + s.it.pr + s.it.bl + s.it.br, h := h + s.it.pt + s.it.pb + s.it.bt + s.it.bb }

structure Result where
  height : Rat
  rects : List Rect
  deriving Repr, Inhabited

def crossSum (gap : Rat) (lines : List Line) : Rat :=
  sumBy Line.cross lines + gap * ((lines.length : Int) - 1 : Int)

/-- step 4: the main size of the container -/
def mainSizeOf (c : Container) (children : List St) : Rat :=
  if c.row then c.width
  else match c.height with
    | some h => max 0 h
    | none => max 0 (columnAutoHeight c.mainGap children)

/-- step 5 with the two "reverse" rules: lines in reverse order for `wrap-reverse`, items of each
line in reverse order for `row-reverse` / `column-reverse`. -/
def flexLines (c : Container) (children : List St) (mainSize : Rat) : List (List St) :=
  let lines := collectLines (c.wrap != .nowrap) mainSize c.mainGap children [] 0
  let lines := if c.wrap == .wrapReverse then lines.reverse else lines
  if c.reverse then lines.map List.reverse else lines

/-- the definite cross size of the container, if any -/
def crossDefinite (c : Container) : Option Rat := if c.row then c.height else some c.width

/-- step 8: the cross size of each line -/
def initialCrosses (c : Container) (lines : List (List St)) : List Line :=
  match lines, crossDefinite c with
  | [l], some cs => [{ items := l, cross := cs }]
  | _, _ => lines.map fun l => { items := l, cross := lineCross8 c.row l }

/-- step 8.3: a single line is clamped by the container's min / max cross size (0 / inf here) -/
def clampSingleLine : List Line → List Line
  | [l] => [{ l with cross := max 0 l.cross }]
  | ls => ls

def lineCrosses (c : Container) (lines : List (List St)) : List Line :=
  clampSingleLine (initialCrosses c lines)

/-- step 9: `align-content: stretch` -/
def stretchLines (c : Container) (lines : List Line) : List Line :=
  if c.alignContent == .normal || c.alignContent == .stretch then
    match crossDefinite c with
    | some d =>
      let extra := d - crossSum c.crossGap lines
      if extra != 0 then lines.map fun l => { l with cross := l.cross + extra / lines.length } else lines
    | none => lines
  else lines

/-- steps 15 and 16 -/
def alignLines (c : Container) (lines : List Line) : List Line × Rat :=
  let boxCross : Rat := match crossDefinite c with
    | some d => d
    | none => crossSum c.crossGap lines
  let lines :=
    if lines.length > 1 then
      step16 c.row c.alignContent (boxCross - crossSum c.crossGap lines) c.crossGap lines.length lines 0 true
    else lines
  (lines, boxCross)

def layout (c : Container) (items : List Item) : Except PyErr Result := do
  -- 3
  let children := step3 c.row (sortByOrder items) 0 0
  -- 4
  let mainSize := mainSizeOf c children
  -- 5, 6
  let lines ← mapExcept (resolveLine c.row mainSize c.mainGap) (flexLines c children mainSize)
  -- 7, 8, 9
  let lines := stretchLines c (lineCrosses c (lines.map (List.map (step7 c.row))))
  -- 11
  let lines := lines.map fun l => { l with items := l.items.map (step11 c.row c.alignItems l.cross) }
  -- 12
  let growths := sumBy (fun s => s.it.grow) children
  let lines := lines.map fun l => { l with items := step12 c mainSize growths l.items }
  -- 13, 14, then 15, 16
  let r := alignLines c (step13Lines c.row c.alignItems lines 0)
  pure { height := if c.row then r.2 else mainSize,
         rects := (r.1.map fun l => l.items.map finalRect).flatten }

end Wp.Flex
