/-
C07 — `var()` resolution.  Mirrors, branch for branch:

  weasyprint/css/utils.py      parse_function, check_var_function
  weasyprint/css/__init__.py   resolve_var   (recursion made explicit with fuel: Python's stack; the `seen`
                               tuple of custom properties being substituted — cycle guard — is explicit)

and states the reference semantics `subst` (replace every detectable `var(--x, fallback)` by the value of
`--x`, or by its fallback when the value is empty, recursively; everything else unchanged).
Tokens are trees: only what the three functions read is kept.
No Mathlib, no Std: linked into the driver.
-/
import WpModel.Model.Wire
import WpModel.Model.Declarations

namespace Wp.Var
open Wp Wp.Decl

/-- A tinycss2 component value, as far as `parse_function` / `check_var_function` / `resolve_var` look at it. -/
inductive Tk where
  | ws                                  -- whitespace or comment (dropped by `remove_whitespace`)
  | comma                               -- `LiteralToken ','`
  | ident (value : String)              -- `IdentToken`
  | leaf (text : String)                -- any other token that is not a function (blocks `[…]`, `(…)` included)
  | fn (name lname : String) (args : List Tk)   -- `FunctionBlock` (`name` as written, `lower_name`)
  deriving Repr, BEq, Inhabited

/-- `computed[variable_name]`: the token list of a custom property (`[]` when not set: the initial value). -/
abbrev Env := String → List Tk

mutual
/-- A token does not stop `parse_function` of the enclosing function: anything that is not a function, or a
function that itself parses (`if parse_function(token) is None: return`). -/
def parses : Tk → Bool
  | .fn _ _ a => (parseArgs a false).isSome
  | _ => true
/-- The loop of `parse_function` over the raw arguments (whitespace skipped on the fly):
`none` on `,,`, on a trailing `,`, or when a nested function does not parse. -/
def parseArgs : List Tk → Bool → Option (List Tk)
  | [], lastComma => if lastComma then none else some []
  | .ws :: rest, lastComma => parseArgs rest lastComma
  | .comma :: rest, lastComma => if lastComma then none else parseArgs rest true
  | t :: rest, _ => if parses t then (parseArgs rest false).map (t :: ·) else none
end

/-- `parse_function(token)`: `(lower_name, arguments)`; arguments without whitespace and without commas. -/
def parseFunction : Tk → Option (String × List Tk)
  | .fn _ l a => (parseArgs a false).map (l, ·)
  | _ => none

/-- `name == 'var' and args` then `ident.type == 'ident' and ident.value.startswith('--')`, on the parsed
arguments of a function whose lower-case name is `l`: `some b` when that `return` is taken. -/
def varHead (l : String) (args : List Tk) : Option Bool :=
  if l == "var" && !args.isEmpty then
    match args with
    | .ident v :: _ => some (startsWith v "--")
    | _ => some false
  else none

mutual
/-- `check_var_function(token)` (truthiness of the result). -/
def checkVar : Tk → Bool
  | .fn _ l a =>
    match parseArgs a false with
    | none => false
    | some args =>
      match varHead l args with
      | some b => b
      | none => checkVarArgs a
  | _ => false
/-- `for arg in args: if check_var_function(arg): return True` — over the raw arguments: whitespace and
commas are not functions, so skipping them or not gives the same answer. -/
def checkVarArgs : List Tk → Bool
  | [] => false
  | t :: rest => checkVar t || checkVarArgs rest
end

/-- One turn of `for argument in token.arguments:` — for a function argument
`arguments.extend((argument,) if resolved is None else resolved)`, `arguments.append(argument)` otherwise. -/
def argStep (rv : Tk → R (Option (List Tk))) (a : Tk) : R (List Tk) :=
  match a with
  | .fn _ _ _ => do
    match ← rv a with
    | some r => pure r
    | none => pure [a]
  | _ => pure [a]

/-- One turn of `for value in (computed[variable_name] or default):` —
`computed_value.extend((value,) if resolved is None else resolved)`. -/
def valueStep (rv : Tk → R (Option (List Tk))) (value : Tk) : R (List Tk) := do
  match ← rv value with
  | some r => pure r
  | none => pure [value]

/-- `values` of one `var(--v, default…)`: `default` when the custom property is being substituted already
(`variable_name in seen`, the cycle guard of `fix:` 2bffab3), else `computed[variable_name] or default`. -/
def varValues (env : Env) (seen : List String) (key : String) (dflt : List Tk) : List Tk :=
  if seen.contains key then dflt
  else if (env key).isEmpty then dflt else env key

/-- `resolve_var(computed, token, parent_style, seen)`.  `none` = Python `None` (no `var()` in the token).
`seen`: the custom properties (underscore names) whose substitution is in progress, innermost last.
`fuel` bounds the Python call depth: running out of it is `RecursionError`. -/
def resolveVar (env : Env) : List String → Nat → Tk → R (Option (List Tk))
  | _, 0, _ => throw .recursion
  | seen, fuel + 1, tok =>
    if !checkVar tok then pure none
    else match tok with
      | .fn name lname args =>
        if lname != "var" then do
          let parts ← args.mapM (argStep (resolveVar env seen fuel))
          let tok' := Tk.fn name lname parts.flatten
          -- return resolve_var(token', seen) or (token',)
          match ← resolveVar env seen fuel tok' with
          | some r => if r.isEmpty then pure (some [tok']) else pure (some r)
          | none => pure (some [tok'])
        else
          match parseArgs args false with
          | some (.ident v :: dflt) => do
            let key := dashToUnderscore v
            let values := varValues env seen key dflt
            -- seen = (*seen, variable_name)
            let parts ← values.mapM (valueStep (resolveVar env (seen ++ [key]) fuel))
            pure (some parts.flatten)
          | _ => pure none      -- unreachable: `checkVar tok` holds
      | _ => pure none

/-- The loop of `ComputedStyle.__missing__` over `value.tokens` (`seen` starts empty). -/
def resolveTokens (env : Env) (fuel : Nat) (toks : List Tk) : R (List Tk) := do
  let parts ← toks.mapM (valueStep (resolveVar env [] fuel))
  pure parts.flatten

/-! ### Reference semantics: substitution -/

/-- The fallback of `var(--x, fallback…)` as *text*: the raw arguments after the first top-level comma that
follows the name, top-level whitespace removed, commas kept. -/
def textFallback : List Tk → List Tk
  | [] => []
  | .ident _ :: rest => afterName rest
  | _ :: rest => textFallback rest
where
  afterName : List Tk → List Tk
    | [] => []
    | .comma :: rest => rest.filter fun t => match t with | .ws => false | _ => true
    | _ :: rest => afterName rest

/-- The fallback as the code takes it: the parsed arguments after the name (`args` after `args.pop(0)`), i.e.
without whitespace **and without commas**. -/
def codeFallback (args : List Tk) : List Tk :=
  match parseArgs args false with
  | some (_ :: dflt) => dflt
  | _ => []

/-- Substitution with fuel (`none` = out of fuel; it has **no** cycle guard: on cyclic custom properties textual
substitution has no meaning and this runs out of any fuel), parameterised by how a fallback is read off the arguments:
a token in which no `var()` is detectable stays as it is; `var(--x, fb)` becomes the substituted value of `--x`
(or of `fb` when that value is empty); any other function keeps its name and gets its arguments substituted one
by one. -/
def substWith (fb : List Tk → List Tk) (env : Env) (fuel : Nat) (tok : Tk) : Option (List Tk) :=
  if !checkVar tok then some [tok]
  else match fuel with
    | 0 => none
    | fuel + 1 =>
      match tok with
      | .fn name lname args =>
        if lname != "var" then do
          let parts ← args.mapM (substWith fb env fuel)
          some [Tk.fn name lname parts.flatten]
        else
          match parseArgs args false with
          | some (.ident v :: _) => do
            let values := env (dashToUnderscore v)
            let values := if values.isEmpty then fb args else values
            let parts ← values.mapM (substWith fb env fuel)
            some parts.flatten
          | _ => some [tok]
      | _ => some [tok]

/-- **Textual substitution**: the reference semantics of `var()`. -/
def subst (env : Env) (fuel : Nat) (tok : Tk) : Option (List Tk) := substWith textFallback env fuel tok

/-! ### Rendering (canonical text shared with the harness) -/

mutual
def Tk.render : Tk → String
  | .ws => " "
  | .comma => ","
  | .ident v => v
  | .leaf t => t
  | .fn name _ args => name ++ "(" ++ renderList args ++ ")"
def renderList : List Tk → String
  | [] => ""
  | t :: rest => t.render ++ renderList rest
end

end Wp.Var
