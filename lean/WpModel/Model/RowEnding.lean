/-
`ending_cells_by_row` of `group_layout` (weasyprint/layout/table.py): which cells end in which row of a row group.

    ending_cells_by_row = [[] for row in group.children]          # one list per row of the whole group
    for index_row, row in enumerate(group.children[skip:], start=skip):
        ...
        for cell in row.children:
            ending_cells_by_row[cell.rowspan - 1].append(cell)      # IndexError when the span leaves the group
        ending_cells = ending_cells_by_row.pop(0)                   # the cells whose last row is this one

`cell.rowspan` is what `wrap_table` left on the cell (`Model/TableGrid.placeCell`: clipped to the rows left in the
group).  A cell is `(row, position in the row)`.  Python's `lst[-1]` (rowspan 0, which `wrap_table` never leaves) is the
last list.  No Mathlib: linked into `driver_c02`.
-/
import WpModel.Model.Wire

namespace Wp.RowEnding
open Wp

abbrev Cell := Nat × Nat

/-- `lst[span - 1]` as an index from the front; IndexError out of range. -/
def pyIdx (len span : Nat) : Except PyErr Nat :=
  if span = 0 then (if len = 0 then .error (.indexError "table.py:group_layout") else .ok (len - 1))
  else if span - 1 < len then .ok (span - 1) else .error (.indexError "table.py:group_layout")

/-- `lists[i].append(cell)`. -/
def appendAt : List (List Cell) → Nat → Cell → Except PyErr (List (List Cell))
  | [], _, _ => .error (.indexError "table.py:group_layout")
  | l :: ls, 0, a => .ok ((l ++ [a]) :: ls)
  | l :: ls, k + 1, a =>
    match appendAt ls k a with
    | .ok ls' => .ok (l :: ls')
    | .error e => .error e

/-- `for cell in row.children: ending_cells_by_row[cell.rowspan - 1].append(cell)`; `c` = position of the next cell. -/
def appendCells (ending : List (List Cell)) (r c : Nat) : List Nat → Except PyErr (List (List Cell))
  | [] => .ok ending
  | span :: rest =>
    match pyIdx ending.length span with
    | .error e => .error e
    | .ok i =>
      match appendAt ending i (r, c) with
      | .error e => .error e
      | .ok ending' => appendCells ending' r (c + 1) rest

/-- The loop over the rows: returns the `ending_cells` of every row laid out. -/
def endRows (ending : List (List Cell)) (r : Nat) : List (List Nat) → Except PyErr (List (List Cell))
  | [] => .ok []
  | spans :: rest =>
    match appendCells ending r 0 spans with
    | .error e => .error e
    | .ok [] => .error (.indexError "table.py:group_layout")       -- `.pop(0)` of an empty list
    | .ok (cells :: later) =>
      match endRows later (r + 1) rest with
      | .error e => .error e
      | .ok out => .ok (cells :: out)

/-- A whole group resumed at row `skip` (`spans` = the rowspans of the cells of every row of the group). -/
def groupEnding (spans : List (List Nat)) (skip : Nat) : Except PyErr (List (List Cell)) :=
  endRows (spans.map (fun _ => [])) skip (spans.drop skip)

end Wp.RowEnding
