/-
C19 — control-flow model of `Document.write_pdf(target, zoom, finisher, **options)` (weasyprint/document.py):
what is computed before the three-way branch on `target`, and the one `pdf.write` call of each branch.

```
if variant := options['pdf_variant']:
    _, properties = VARIANTS[variant]                                   # KeyError: unknown variant
    if 'version' in properties and not options['pdf_version']: options['pdf_version'] = properties['version']
    if 'identifier' in properties and not options['pdf_identifier']: options['pdf_identifier'] = properties['identifier']
pdf = generate_pdf(self, target, zoom, **options)
if finisher: finisher(self, pdf)
identifier = options['pdf_identifier']; compress = not options['uncompressed_pdf']; version = options['pdf_version']
if target is None:         output = io.BytesIO(); pdf.write(output, version, identifier, compress); return output.getvalue()
if hasattr(target, 'write'): pdf.write(target, version, identifier, compress)
else:                      with open(target, 'wb') as fd: pdf.write(fd, version, identifier, compress)
```
The variant table is `Gen.pdfVariants`, regenerated from the source on every run.  No Mathlib.
-/
import WpModel.Model.Wire
import WpModel.Gen.PdfVariants

namespace Wp.WriteSinks
open Wp

/-- Value of `options['pdf_identifier']`: `None`, a bool, or a byte string. -/
inductive Ident where
  | none
  | bool (b : Bool)
  | bytes (s : String)
  deriving Repr, DecidableEq, BEq, Inhabited

/-- Python truthiness. -/
def Ident.truthy : Ident → Bool
  | .none => false
  | .bool b => b
  | .bytes s => s ≠ ""

structure Opts where
  /-- `options['pdf_variant']` (`None` or a string; the empty string is falsy) -/
  variant : Option String
  /-- `options['pdf_version']` -/
  version : Option String
  identifier : Ident
  uncompressed : Bool
  deriving Repr, DecidableEq, BEq, Inhabited

inductive Target where
  | none
  | fileObj
  | path
  deriving Repr, DecidableEq, BEq, Inhabited

inductive Sink where
  | bytesIO
  | target
  | openedFile
  deriving Repr, DecidableEq, BEq, Inhabited

/-- Arguments of `pdf.write` after the sink. -/
structure WriteArgs where
  version : Option String
  identifier : Ident
  compress : Bool
  deriving Repr, DecidableEq, BEq, Inhabited

inductive Event where
  | generatePdf (variant : Option String)
  | finisher
  | openPath
  | write (sink : Sink) (args : WriteArgs)
  | closePath
  | returnBytes
  | returnNone
  deriving Repr, DecidableEq, BEq, Inhabited

def lookupVariant (name : String) : List (String × VariantProps) → Option VariantProps
  | [] => none
  | (n, p) :: rest => if n = name then some p else lookupVariant name rest

def strTruthy : Option String → Bool
  | none => false
  | some s => s ≠ ""

/-- "Set default PDF version for PDF variants." -/
def applyVariant (table : List (String × VariantProps)) (o : Opts) : Except PyErr Opts :=
  if strTruthy o.variant then
    match o.variant with
    | none => .ok o
    | some name =>
      match lookupVariant name table with
      | none => .error (.indexError "KeyError:VARIANTS[variant]")
      | some props =>
        let version := match props.version with
          | some v => if !strTruthy o.version then some v else o.version
          | none => o.version
        let identifier := match props.identifier with
          | some b => if !o.identifier.truthy then Ident.bool b else o.identifier
          | none => o.identifier
        .ok { o with version := version, identifier := identifier }
  else .ok o

def writeArgs (o : Opts) : WriteArgs := ⟨o.version, o.identifier, !o.uncompressed⟩

/-- The event trace of `write_pdf` for one target kind. -/
def writePdfWith (table : List (String × VariantProps)) (o : Opts) (hasFinisher : Bool) (t : Target) :
    Except PyErr (List Event) :=
  match applyVariant table o with
  | .error e => .error e
  | .ok o' =>
    let pre := Event.generatePdf o'.variant :: (if hasFinisher then [Event.finisher] else [])
    let args := writeArgs o'
    .ok (pre ++ match t with
      | .none => [.write .bytesIO args, .returnBytes]
      | .fileObj => [.write .target args, .returnNone]
      | .path => [.openPath, .write .openedFile args, .closePath, .returnNone])

def writePdf (o : Opts) (hasFinisher : Bool) (t : Target) : Except PyErr (List Event) :=
  writePdfWith Gen.pdfVariants o hasFinisher t

/-- The arguments of the `pdf.write` calls of a trace. -/
def writesOf : List Event → List WriteArgs
  | [] => []
  | .write _ a :: rest => a :: writesOf rest
  | _ :: rest => writesOf rest

end Wp.WriteSinks
