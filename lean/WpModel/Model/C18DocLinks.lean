/-
The links-and-anchors part of `weasyprint/pdf/__init__.py::generate_pdf` at document level, composed from
the function-level models:

  page_links_and_anchors = list(resolve_links(document.pages))              -- Outline.resolveLinks
  for each page: add_links(links_and_anchors, matrix, pdf, page, names, mark) -- one /Link annotation per
                   internal / external link (Rect through the page matrix), one entry of `pdf_names` per
                   anchor the page keeps (`/XYZ` point through the page matrix)
                 add_annotations(links, matrix, …)                            -- one /FileAttachment per attachment link
  sorted(pdf_names, key=key_bytes)                                           -- Outline.sortNames

This is the function the sections `doc-pdf-links` and `doc-page-subset` compare with the `/Annots` and
`/Names /Dests` of written PDFs (the driver only parses and prints).  Link ids are
`page index * 100000 + index in the page`, so that a link that went through `resolve_links` finds its
rectangle again.  No Mathlib: linked into the driver.
-/
import WpModel.Model.Outline

namespace Wp.DocLinks
open Wp Wp.Anchors Wp.Outline

/-- `(link_type, target, rectangle, box)` of `Page.links`. -/
structure DLink where
  type : String
  target : String
  rect : Rect
  deriving Repr

/-- What `generate_pdf` reads from a `Page`: height, `anchors` (each name with its code points, for the
sort) and `links`. -/
structure DPage where
  height : Rat
  anchors : List (Anchor × List Nat)
  links : List DLink
  deriving Repr

/-- An annotation written to `/Annots`: `internal` (`/Dest`), `external` (`/A /URI`) or `attachment`
(`/FileAttachment`); `rect = none` cannot happen (the link lost its rectangle). -/
structure Annot where
  kind : String
  target : String
  rect : Option Rect
  deriving Repr, DecidableEq

/-- One entry of `pdf_names`: `[name, [page.reference, '/XYZ', x, y, 0]]`. -/
structure Dest where
  name : String
  page : Nat
  x : Rat
  y : Rat
  deriving Repr, DecidableEq

def number {α} : Nat → List α → List (Nat × α)
  | _, [] => []
  | n, x :: xs => (n, x) :: number (n + 1) xs

/-- The pages as `resolve_links` sees them. -/
def lpagesOf (pages : List DPage) : List LPage :=
  (number 0 pages).map fun (x : Nat × DPage) =>
    ⟨x.2.anchors.map (·.1),
     (number 0 x.2.links).map fun (y : Nat × DLink) => ⟨y.2.type, y.2.target, x.1 * 100000 + y.1⟩⟩

def rectOfLink (pages : List DPage) (l : Outline.Link) : Option Rect :=
  (pages[l.id / 100000]?).bind fun p => (p.links[l.id % 100000]?).map (·.rect)

/-- `add_links`: one `/Link` annotation per internal / external link. -/
def linkAnnotOf (pages : List DPage) (m : Matrix) (l : Outline.Link) : Option Annot :=
  if l.type == "internal" || l.type == "external" then
    some ⟨l.type, l.target, (rectOfLink pages l).map (annotRect m)⟩
  else none

/-- `add_annotations` (called after `add_links`): one `/FileAttachment` annotation per attachment link. -/
def fileAnnotOf (pages : List DPage) (m : Matrix) (l : Outline.Link) : Option Annot :=
  if l.type == "attachment" then some ⟨"attachment", l.target, (rectOfLink pages l).map (annotRect m)⟩
  else none

/-- The `/Annots` of one page from what `resolve_links` left of its links. -/
def pageAnnots (scale : Rat) (pages : List DPage) (p : DPage) (links : List Outline.Link) : List Annot :=
  let m := pageMatrix scale p.height
  links.filterMap (linkAnnotOf pages m) ++ links.filterMap (fileAnnotOf pages m)

/-- The entries `add_links` appends to `pdf_names` for one page. -/
def pageDests (scale : Rat) (pi : Nat) (p : DPage) (anchors : List Anchor) : List Dest :=
  anchors.map fun (a : Anchor) =>
    let pt := (pageMatrix scale p.height).transformPoint a.x a.y
    ⟨a.name, pi, pt.1, pt.2⟩

/-- `/Annots` of every page. -/
def docAnnots (scale : Rat) (pages : List DPage) : List (List Annot) :=
  (pages.zip (resolveLinks (lpagesOf pages))).map fun x => pageAnnots scale pages x.1 x.2.1

/-- `pdf_names` before sorting. -/
def allDests (scale : Rat) (pages : List DPage) : List Dest :=
  (number 0 (pages.zip (resolveLinks (lpagesOf pages)))).flatMap fun x => pageDests scale x.1 x.2.1 x.2.2.2

/-- The code points of an anchor name (as supplied with the pages). -/
def cpsOf (pages : List DPage) (name : String) : List Nat :=
  match (pages.flatMap (·.anchors)).find? (fun a => a.1.name == name) with
  | some a => a.2
  | none => []

/-- The sort keys of `pdf_names`, each with the index of its entry. -/
def keyed (pages : List DPage) (dests : List Dest) : List (List Nat × Nat) :=
  (number 0 dests).map fun (x : Nat × Dest) => (cpsOf pages x.2.name, x.1)

/-- The `/Names /Dests` array: `sorted(pdf_names, key=key_bytes)`, each entry with the code points of
its name. -/
def docDests (scale : Rat) (pages : List DPage) : List (List Nat × Dest) :=
  let dests := allDests scale pages
  (sortNames (keyed pages dests)).filterMap fun (x : List Nat × Nat) => (dests[x.2]?).map fun d => (x.1, d)

end Wp.DocLinks
