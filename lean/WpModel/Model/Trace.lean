/-
Trace checkers for C01 / C03 on the wide grammar: executable checks run by the driver on traces
recorded from real renders (page texts, geometry). Their soundness theorems are in
`Props/C01Trace.lean` / `Props/C03Trace.lean`. No Mathlib.
-/
import WpModel.Model.Wire

namespace Wp.Trace
open Wp

/-- A leaf text container of the document: its words in DOM order and what CSS asks for.
kind 0 = rendered exactly once in order (in flow), 1 = same, out of flow (float / absolute / footnote),
2 = may repeat (table header/footer, fixed, running), 3 = dropped (display: none). -/
structure Group where
  kind : Nat
  words : List Nat
  deriving Repr, Inhabited

/-- Words of `out` that belong to `ws`, in output order. -/
def project (ws : List Nat) (out : List Nat) : List Nat := out.filter (fun w => ws.contains w)

def groupOk (g : Group) (out : List Nat) : Bool :=
  if g.kind = 0 ∨ g.kind = 1 then project g.words out == g.words
  else if g.kind = 3 then project g.words out == []
  else true

/-- Indices of the groups whose rendering violates conservation. -/
def badGroups (gs : List Group) (pages : List (List Nat)) : List Nat :=
  let out := pages.flatten
  (gs.zipIdx.filter (fun (g, _) => !groupOk g out)).map Prod.snd

/-- Pages (indices) on which some word of `ws` appears. -/
def pagesOf (ws : List Nat) (pages : List (List Nat)) : List Nat :=
  (pages.zipIdx.filter (fun (p, _) => p.any (fun w => ws.contains w))).map Prod.snd

/-- Is `l` a run of consecutive numbers? -/
def consecutive : List Nat → Bool
  | [] => true
  | [_] => true
  | a :: b :: rest => b == a + 1 && consecutive (b :: rest)

/-- Groups (kind 0) whose fragments are not on consecutive pages. -/
def scatteredGroups (gs : List Group) (pages : List (List Nat)) : List Nat :=
  (gs.zipIdx.filter (fun (g, _) => g.kind = 0 && !consecutive (pagesOf g.words pages))).map Prod.snd

/-- One in-flow item of a page for the geometric check: bottom edge and whether it is the first
content placed on its page (or column). -/
structure Item where
  bottom : Rat
  first : Bool
  deriving Repr, Inhabited

/-- `position_y > bottom * (1 + 1e-9)` (the layout's own overflow test). -/
def overflows (bottom y : Rat) : Bool := decide (y > bottom * (1 + 1 / 1000000000))

/-- Indices of the items that end below the content-box bottom without being first on their page. -/
def overflowing (pageBottom : Rat) (items : List Item) : List Nat :=
  (items.zipIdx.filter (fun (it, _) => overflows pageBottom it.bottom && !it.first)).map Prod.snd

end Wp.Trace
