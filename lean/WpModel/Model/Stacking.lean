/-
C17 — executable model of `weasyprint/stacking.py` (literal, branch for branch).

  StackingContext.__init__      ↔ `mkCtx`   (three-way split of the child contexts, two stable sorts, z-index)
  StackingContext.from_page     ↔ `fromPage`
  StackingContext.from_box      ↔ `fromBoxWith` / `fromBox`
  _dispatch                     ↔ `dispatchCore` (branches) + `dispatch` (recursion)
  _dispatch_children            ↔ `dispatchChildren` / `dispatchList` (the loop)

The Python code threads four mutable lists (`child_contexts`, `blocks`, `floats`, `blocks_and_cells`)
through the recursion, remembers `len(list)` before descending and `insert`s at that index afterwards.
That is modelled literally: a state `St` passed through, `insertAt` = `list.insert`.  The `assert` of
`_dispatch` is a flag of the state (`failed`), so the functions stay total and the theorem
"the assert cannot fail" is explicit (`Props/C17`).

Class tests come from `Gen/StackKinds` (regenerated from the source each run).
No Mathlib, no Std: linked into `driver_c17`.
-/
import WpModel.Model.Wire
import WpModel.Gen.StackKinds

namespace Wp.Stacking
open Wp Wp.Gen

/-- `box.transformation_matrix`: `None`, a matrix with non-zero determinant (tagged, so that the paint
model can say which transforms apply to an item), or a singular one. -/
inductive Mat where
  | none
  | regular (code : Nat)
  | singular
  deriving Repr, DecidableEq, BEq, Inhabited

/-- `table.column_groups` entry: only the backgrounds are ever read (by `draw_table`). -/
structure ColGroup where
  id : Nat
  bg : Option (Option Nat)
  cols : List (Nat × Option (Option Nat))
  deriving Repr, DecidableEq, BEq, Inhabited

/-- What `stacking.py` and `draw_stacking_context` read of a laid-out box. -/
structure Attrs where
  id : Nat
  kind : Kind
  positioned : Bool        -- style['position'] != 'static'
  absPos : Bool            -- box.is_absolutely_positioned()
  z : Option Int           -- style['z_index'], `none` = 'auto'
  gridItem : Bool          -- box.is_grid_item
  opacity : Rat            -- style['opacity']
  styleTransform : Bool    -- bool(style['transform'])
  overflowVisible : Bool   -- style['overflow'] == 'visible'
  floated : Bool           -- box.is_floated()
  visible : Bool           -- style['visibility'] == 'visible'
  matrix : Mat             -- box.transformation_matrix
  clipProp : Bool          -- bool(style['clip'])
  isRoot : Bool            -- box.is_for_root_element
  bg : Option (Option Nat) -- box.background: None | Background whose colour has alpha 0 | colour code
  border : Option Nat      -- colour code when some border width is non-zero (solid, one colour)
  borderSides : Nat        -- how many of the four border widths are non-zero
  outline : Option Nat     -- colour code when outline_width and the outline colour's alpha are non-zero
  color : Nat              -- style['color'] (text colour code)
  collapse : Bool          -- style['border_collapse'] == 'collapse'
  emptyCellsShow : Bool    -- style['empty_cells'] == 'show'
  cellEmpty : Bool         -- cell.empty
  colGroups : List ColGroup -- table.column_groups
  deriving Repr, DecidableEq, BEq, Inhabited

/-- A laid-out box tree.  `leaf` = not a `ParentBox`; `ph` = `AbsolutePlaceholder` wrapping a box. -/
inductive Box where
  | leaf (a : Attrs)
  | node (a : Attrs) (kids : List Box)
  | ph (b : Box)
  deriving Repr, Inhabited

/-- What the dispatcher builds.  `leaf`/`node` are (copies of) boxes whose children lists were
rewritten; `ctx` is a `StackingContext` object: it occurs in the lists of its parent context and,
for inline-blocks, *inside* a children list. -/
inductive Node where
  | leaf (a : Attrs)
  | node (a : Attrs) (kids : List Node)
  | ph (b : Box)                       -- an undispatched placeholder (only reachable from `from_page`)
  | ctx (box : Node) (neg zero pos : List Node) (blocks floats bc : List Node) (z : Int)
  deriving Repr, Inhabited

/-- `context.z_index` (0 for things that are not contexts: never read by the code). -/
def Node.zIndex : Node → Int
  | .ctx _ _ _ _ _ _ _ z => z
  | _ => 0

/-- Python `list.insert(i, x)` for `0 ≤ i`: before position `i`, at the end when `i ≥ len`. -/
def insertAt {α} : Nat → α → List α → List α
  | 0, x, l => x :: l
  | _ + 1, x, [] => [x]
  | i + 1, x, y :: ys => y :: insertAt i x ys

/-- Stable insertion used to model `list.sort(key=z_index)` (Python's sort is stable):
`x` comes from *before* every element of `l` in the original list, so it goes before the first
element whose key is not smaller. -/
def insertZ (x : Node) : List Node → List Node
  | [] => [x]
  | y :: ys => if x.zIndex ≤ y.zIndex then x :: y :: ys else y :: insertZ x ys

def sortZ (l : List Node) : List Node := l.foldr insertZ []

/-- The loop of `StackingContext.__init__`: append each child context to one of three lists. -/
def splitZ (children : List Node) : List Node × List Node × List Node :=
  children.foldl
    (fun (acc : List Node × List Node × List Node) c =>
      if c.zIndex < 0 then (acc.1 ++ [c], acc.2.1, acc.2.2)
      else if c.zIndex = 0 then (acc.1, acc.2.1 ++ [c], acc.2.2)
      else (acc.1, acc.2.1, acc.2.2 ++ [c]))
    ([], [], [])

/-- `box.style['z_index']` of the context's box, `'auto'` → 0.  (A `ctx` has no style: the code never
builds a context around one.) -/
def Box.attrs : Box → Attrs
  | .leaf a => a
  | .node a _ => a
  | .ph b => b.attrs

def Node.styleZ : Node → Option Int
  | .leaf a => a.z
  | .node a _ => a.z
  | .ph b => b.attrs.z          -- a placeholder forwards attribute access to its box
  | .ctx .. => none

/-- `if self.z_index == 'auto': self.z_index = 0`. -/
def zOfStyle : Option Int → Int
  | none => 0
  | some z => z

/-- `StackingContext.__init__`. -/
def mkCtx (box : Node) (children blocks floats bc : List Node) : Node :=
  let s := splitZ children
  .ctx box (sortZ s.1) s.2.1 (sortZ s.2.2) blocks floats bc (zOfStyle box.styleZ)

/-- The four lists threaded through `_dispatch`, and whether its `assert` failed. -/
structure St where
  cc : List Node := []
  blocks : List Node := []
  floats : List Node := []
  bc : List Node := []
  failed : Bool := false
  deriving Repr, Inhabited

/-- `StackingContext.from_box(box, page, child_contexts)` where `children` stands for
`_dispatch_children(box, …)` applied to the fresh lists.  `shared = none` ↔ `child_contexts is None`.
Returns the context, the updated shared list and the assert flag of the inner run. -/
def fromBoxWith (children : St → Node × St) (shared : Option (List Node)) :
    Node × Option (List Node) × Bool :=
  let cc0 := match shared with | none => [] | some l => l     -- `child_contexts = children` when None
  let r := children { cc := cc0, blocks := [], floats := [], bc := [] }
  let own := match shared with | none => r.2.cc | some _ => []   -- the `children` list of the code
  (mkCtx r.1 own r.2.blocks r.2.floats r.2.bc, shared.map (fun _ => r.2.cc), r.2.failed)

/-- The test `defines_stacking_context` of `_dispatch`. -/
def definesContext (a : Attrs) : Bool :=
  (a.positioned && a.z != none) ||
  (a.gridItem && a.z != none) ||
  decide (a.opacity < 1) ||
  a.styleTransform ||
  !a.overflowVisible

/-- `_dispatch` after the placeholder was unwrapped; `children` = `_dispatch_children(box, …)` and
`self` = the box itself as a node with dispatched children, used only through `children`. -/
def dispatchCore (a : Attrs) (children : St → Node × St) (st : St) : Option Node × St :=
  if definesContext a then
    -- child_contexts.append(StackingContext.from_box(box, page)); return
    let r := fromBoxWith children none
    (none, { st with cc := st.cc ++ [r.1], failed := st.failed || r.2.2 })
  else if a.positioned then
    -- assert style['z_index'] == 'auto'
    if a.z != none then (none, { st with failed := true })
    else
      let index := st.cc.length
      let r := fromBoxWith children (some st.cc)
      let cc := match r.2.1 with | some l => l | none => st.cc
      (none, { st with cc := insertAt index r.1 cc, failed := st.failed || r.2.2 })
  else if a.floated then
    let r := fromBoxWith children (some st.cc)
    let cc := match r.2.1 with | some l => l | none => st.cc
    (none, { st with cc := cc, floats := st.floats ++ [r.1], failed := st.failed || r.2.2 })
  else if a.kind.dispStackingClass then
    let r := fromBoxWith children (some st.cc)
    let cc := match r.2.1 with | some l => l | none => st.cc
    (some r.1, { st with cc := cc, failed := st.failed || r.2.2 })
  else
    let blocksIndex : Option Nat :=
      if a.kind.dispBlockLevel then some st.blocks.length else none
    let bcIndex : Option Nat :=
      if a.kind.dispBlockLevel then some st.bc.length
      else if a.kind.dispCell then some st.bc.length else none
    let r := children st
    let st1 := r.2
    let st2 := match blocksIndex with
      | some i => { st1 with blocks := insertAt i r.1 st1.blocks }
      | none => st1
    let st3 := match bcIndex with
      | some i => { st2 with bc := insertAt i r.1 st2.bc }
      | none => st2
    (some r.1, st3)

mutual
/-- `_dispatch(box, page, child_contexts, blocks, floats, blocks_and_cells)`. -/
def dispatch : Box → St → Option Node × St
  | .ph b, st => dispatch b st                       -- `box = box._box`
  | .leaf a, st => dispatchCore a (fun s => (.leaf a, s)) st          -- not a ParentBox: returned as is
  | .node a kids, st =>
    dispatchCore a (fun s => let r := dispatchList kids s; (.node a r.1, r.2)) st
/-- The loop of `_dispatch_children`: `new_children` in order, `None` results dropped. -/
def dispatchList : List Box → St → List Node × St
  | [], st => ([], st)
  | k :: ks, st =>
    let r := dispatch k st
    let rs := dispatchList ks r.2
    (match r.1 with | some n => n :: rs.1 | none => rs.1, rs.2)
end

/-- `_dispatch_children(box, …)`.  A placeholder is not a `ParentBox` and comes back unchanged. -/
def dispatchChildren : Box → St → Node × St
  | .leaf a, st => (.leaf a, st)
  | .node a kids, st => let r := dispatchList kids st; (.node a r.1, r.2)
  | .ph b, st => (.ph b, st)

/-- `StackingContext.from_box(box, page, child_contexts)`. -/
def fromBox (b : Box) (shared : Option (List Node)) : Node × Option (List Node) × Bool :=
  fromBoxWith (dispatchChildren b) shared

/-- `StackingContext.from_page(page)`: every child of the page is a context of its own, the page box
keeps no children.  Returns the context and the assert flag. -/
def fromPage (page : Attrs) (children : List Box) : Node × Bool :=
  let rs := children.map (fun c => fromBox c none)
  (mkCtx (.node page []) (rs.map (·.1)) [] [] [], rs.any (·.2.2))

end Wp.Stacking
