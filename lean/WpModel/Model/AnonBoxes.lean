/-
Kind-trees and the anonymous-box rewriters of weasyprint/formatting_structure/build.py:
`process_whitespace` (tree part), `process_text_transform`,
`anonymous_table_boxes` / `table_boxes_children` / `wrap_improper` / `wrap_table`,
`flex_boxes` / `flex_children`, `grid_boxes` / `grid_children`, `inline_in_block`,
`block_in_inline` / `_inner_block_in_inline`, `create_anonymous_boxes`.

A `KBox` keeps of a real box exactly what these functions read or write: the class, the style
entries they test, the element attributes the constructors parse, the instance attributes they set,
the text, the children and (tables, after `wrap_table`) `column_groups`.
Class tests are `Gen.isSub kind class` (regenerated from boxes.py with `issubclass` on every run).
Python failure points are explicit (`BErr`).  Functions whose Python recursion is not structural
(`table_boxes_children` re-applied to fresh wrappers, the `while True` of `block_in_inline`)
take a fuel argument; `BErr.fuel` is not a Python outcome and never matches one.
No Mathlib.
-/
import WpModel.Model.Whitespace
import WpModel.Model.TableGrid

namespace Wp.Bx

/-- `style['display']` as far as `wrap_table` looks at it. -/
inductive GDisp where
  | header | footer | other
  deriving Repr, DecidableEq, BEq, Inhabited

/-- The style entries read by `build.py` after box creation. -/
structure Style where
  flt : Bool := false        -- style['float'] in ('left', 'right')
  foot : Bool := false       -- style['float'] == 'footnote'
  abs : Bool := false        -- style['position'] in ('absolute', 'fixed')
  run : Bool := false        -- style['position'][0] == 'running()'
  ws : WS := .normal         -- style['white_space']            (inherited)
  tt : TT := .none           -- style['text_transform']          (inherited)
  hyph : Bool := false       -- style['hyphens'] == 'none'        (inherited)
  disp : GDisp := .other     -- ('table-header-group',) / ('table-footer-group',) / anything else
  capBottom : Bool := false  -- style['caption_side'] == 'bottom' (inherited)
  anon : Bool := false       -- the style object is an `AnonymousStyle`
  deriving Repr, DecidableEq, BEq, Inhabited

/-- Element attributes parsed by constructors / properties: `int(element.get(name, '').strip())`
when it succeeds. -/
structure El where
  colspan : Option Int := none
  rowspan : Option Int := none
  span : Option Int := none
  deriving Repr, DecidableEq, BEq, Inhabited

/-- Instance attributes. -/
structure Inst where
  lcs : Bool := false        -- leading_collapsible_space
  tcs : Bool := false        -- trailing_collapsible_space
  colspan : Nat := 1         -- TableCellBox only
  rowspan : Nat := 1
  gridX : Option Nat := none -- cells, columns, column groups after wrap_table
  wrapper : Bool := false    -- is_table_wrapper
  isHeader : Bool := false
  isFooter : Bool := false
  flexItem : Bool := false
  gridItem : Bool := false
  noFloat : Bool := false    -- `child.is_floated = lambda: False` (flex_children)
  deriving Repr, DecidableEq, BEq, Inhabited

inductive KBox where
  | mk (kind : BoxKind) (st : Style) (el : El) (inst : Inst) (text : Text) (kids : List KBox)
       (cols : List KBox)
  deriving Repr, Inhabited

inductive BErr where
  | assertion | keyError | attributeError | indexError | fuel
  deriving Repr, DecidableEq, BEq

def BErr.render : BErr → String
  | .assertion => "err:AssertionError" | .keyError => "err:KeyError"
  | .attributeError => "err:AttributeError" | .indexError => "err:IndexError"
  | .fuel => "err:model-fuel"

namespace KBox

def kind : KBox → BoxKind | .mk k _ _ _ _ _ _ => k
def st : KBox → Style | .mk _ s _ _ _ _ _ => s
def el : KBox → El | .mk _ _ e _ _ _ _ => e
def inst : KBox → Inst | .mk _ _ _ i _ _ _ => i
def text : KBox → Text | .mk _ _ _ _ t _ _ => t
def kids : KBox → List KBox | .mk _ _ _ _ _ ks _ => ks
def cols : KBox → List KBox | .mk _ _ _ _ _ _ cs => cs

def withKids : KBox → List KBox → KBox | .mk k s e i t _ c, ks => .mk k s e i t ks c
def withInst : KBox → Inst → KBox | .mk k s e _ t ks c, i => .mk k s e i t ks c
def withStyle : KBox → Style → KBox | .mk k _ e i t ks c, s => .mk k s e i t ks c
def withCols : KBox → List KBox → KBox | .mk k s e i t ks _, c => .mk k s e i t ks c

/-- `isinstance(box, boxes.<c>)` -/
def isA (b : KBox) (c : BoxClass) : Bool := Gen.isSub b.kind c

def isFloated (b : KBox) : Bool := b.st.flt && !b.inst.noFloat
def isAbs (b : KBox) : Bool := b.st.abs
def isRunning (b : KBox) : Bool := b.st.run
/-- `is_in_normal_flow()` -/
def inFlow (b : KBox) : Bool := !(b.isFloated || b.st.abs || b.st.run || b.st.foot)

end KBox

/-- `TableCellBox.__init__`: `max(int(colspan), 1)` / `max(int(rowspan), 0)`, 1 when unparsable. -/
def cellColspan (e : El) : Nat := match e.colspan with | some v => (max v 1).toNat | none => 1
def cellRowspan (e : El) : Nat := match e.rowspan with | some v => (max v 0).toNat | none => 1

/-- `TableColumnBox.span` / the element part of `TableColumnGroupBox.span`. -/
def elSpan (e : El) : Nat := match e.span with | some v => (max v 1).toNat | none => 1

def initInst (cls : BoxKind) (e : El) : Inst :=
  if cls == .TableCellBox then { colspan := cellColspan e, rowspan := cellRowspan e } else {}

/-- `AnonymousStyle(parent_style)`: inherited entries from the parent, the others initial. -/
def anonStyle (p : Style) : Style := { ws := p.ws, tt := p.tt, hyph := p.hyph, capBottom := p.capBottom, anon := true }

/-- `cls.anonymous_from(parent, children)`: the element (hence its attributes) is the parent's. -/
def anonFrom (cls : BoxKind) (parent : KBox) (kids : List KBox) : KBox :=
  .mk cls (anonStyle parent.st) parent.el (initInst cls parent.el) [] kids []

/-! ## process_whitespace, process_text_transform -/

mutual
/-- `process_whitespace(box, following_collapsible_space)` → (box after mutation, return value). -/
def pw : KBox → Bool → KBox × Bool
  | .mk k st el inst text kids cols, fcs =>
    if Gen.isSub k .TextBox then
      if text.isEmpty then (.mk k st el inst text kids cols, fcs)
      else
        let r := processText st.ws text fcs
        (.mk k st el { inst with lcs := inst.lcs || r.setLeading } r.text kids cols,
         r.following && !st.run)
    else
      let (kids', f) := pwKids kids fcs
      (.mk k st el inst text kids' cols, f && !st.run)
/-- `for child in box.children: …`: the state goes from child to child whatever the box itself is
(a float, an absolutely positioned box …); only a child out of normal flow leaves it alone. -/
def pwKids : List KBox → Bool → List KBox × Bool
  | [], f => ([], f)
  | c :: cs, f =>
    if Gen.isSub c.kind .TextBox || Gen.isSub c.kind .InlineBox then
      let (c', cf) := pw c f
      let f' := if c.inFlow then cf else f
      let (cs', f'') := pwKids cs f'
      (c' :: cs', f'')
    else
      let f' := if c.inFlow then false else f
      let (cs', f'') := pwKids cs f'
      (c :: cs', f'')
end

mutual
/-- `process_text_transform(box)`. -/
def ptt : KBox → KBox
  | .mk k st el inst text kids cols =>
    if Gen.isSub k .TextBox then
      let t1 := applyTT st.tt text
      .mk k st el inst (if st.hyph then dropSoftHyphens t1 else t1) kids cols
    else if !st.run then .mk k st el inst text (pttKids kids) cols
    else .mk k st el inst text kids cols
def pttKids : List KBox → List KBox
  | [] => []
  | c :: cs =>
    (if Gen.isSub c.kind .TextBox || Gen.isSub c.kind .InlineBox then ptt c else c) :: pttKids cs
end

/-! ## inline_in_block -/

/-- The second loop of `inline_in_block` (`for child_box in children`): `line` and `acc` are
`new_line_children` and `new_children`, reversed. -/
def groupLines (parent : KBox) : List KBox → List KBox → List KBox → Except BErr (List KBox)
  | [], line, acc =>
    if !line.isEmpty then
      let lineBox := anonFrom .LineBox parent line.reverse
      if !acc.isEmpty then .ok ((anonFrom .BlockBox parent [lineBox] :: acc).reverse)
      else .ok [lineBox]
    else .ok acc.reverse
  | c :: cs, line, acc =>
    if c.isA .LineBox then .error .assertion
    else if !line.isEmpty && c.isAbs then groupLines parent cs (c :: line) acc
    else if c.isA .InlineLevelBox || (!line.isEmpty && !c.inFlow) then
      if !line.isEmpty || !(c.isA .TextBox && c.text == [Ch.sp] &&
          Gen.lineStartSpaceWs.contains c.st.ws) then
        groupLines parent cs (c :: line) acc
      else groupLines parent cs line acc
    else if !line.isEmpty then
      let lineBox := anonFrom .LineBox parent line.reverse
      groupLines parent cs [] (c :: anonFrom .BlockBox parent [lineBox] :: acc)
    else groupLines parent cs [] (c :: acc)

mutual
/-- `inline_in_block(box)`; `force`: the caller has just set `box.leading_collapsible_space = True`. -/
def iib (force : Bool) : KBox → Except BErr KBox
  | .mk k st el inst text kids cols =>
    let lcs0 := inst.lcs || force
    if kids.isEmpty || st.run then .ok (.mk k st el { inst with lcs := lcs0 } text kids cols)
    else
      let lcs1 := if lcs0 == false then (match kids with | c :: _ => c.inst.lcs | [] => false) else lcs0
      match iibKids false kids with
      | .error e => .error e
      | .ok (children, trailing) =>
        let tcs1 := if inst.tcs == false then trailing else inst.tcs
        let box := KBox.mk k st el { inst with lcs := lcs1, tcs := tcs1 } text children cols
        if !Gen.isSub k .BlockContainerBox then .ok box
        else
          match groupLines box children [] [] with
          | .error e => .error e
          | .ok newChildren => .ok (box.withKids newChildren)
/-- The first loop (`for child in box_children`) → (`children`, final `trailing_collapsible_space`). -/
def iibKids (trailing : Bool) : List KBox → Except BErr (List KBox × Bool)
  | [] => .ok ([], trailing)
  | c :: cs =>
    if Gen.isSub c.kind .TextBox && c.text.isEmpty then
      -- removed; `trailing_collapsible_space = child.leading_collapsible_space` (after the forcing)
      iibKids (c.inst.lcs || trailing) cs
    else
      match iib trailing c with
      | .error e => .error e
      | .ok c' =>
        match iibKids false cs with
        | .error e => .error e
        | .ok (rest, t) => .ok (c' :: rest, t)
end

/-! ## block_in_inline -/

/-- Outcome of the loop of `_inner_block_in_inline`. -/
inductive InnerLoop where
  | found (newKids : List KBox) (block : KBox) (resume : List Nat)
  | done (newKids : List KBox)

mutual
/-- `block_in_inline(box)` -/
def bii : Nat → KBox → Except BErr KBox
  | 0, _ => .error .fuel
  | n + 1, b =>
    if b.kids.isEmpty || b.st.run then .ok b
    else
      match biiKids n b b.kids with
      | .error e => .error e
      | .ok ks => .ok (b.withKids ks)
/-- `for child in box.children` of `block_in_inline` → `new_children`. -/
def biiKids : Nat → KBox → List KBox → Except BErr (List KBox)
  | 0, _, _ => .error .fuel
  | _ + 1, _, [] => .ok []
  | n + 1, parent, c :: cs =>
    if c.isA .LineBox then
      if parent.kids.length != 1 then .error .assertion
      else
        match biiLine n parent c [] false with
        | .error e => .error e
        | .ok pieces =>
          match biiKids n parent cs with
          | .error e => .error e
          | .ok rest => .ok (pieces ++ rest)
    else
      match bii n c with
      | .error e => .error e
      | .ok c' =>
        match biiKids n parent cs with
        | .error e => .error e
        | .ok rest => .ok (c' :: rest)
/-- The `while True` loop on one line box; `emitted`: `new_children` is already non-empty. -/
def biiLine : Nat → KBox → KBox → List Nat → Bool → Except BErr (List KBox)
  | 0, _, _, _, _ => .error .fuel
  | n + 1, parent, line, stack, emitted =>
    match inner n line stack with
    | .error e => .error e
    | .ok (newLine, none, _) =>
      if emitted then .ok [anonFrom .BlockBox parent [newLine]] else .ok [newLine]
    | .ok (newLine, some block, stack') =>
      match bii n block with
      | .error e => .error e
      | .ok block' =>
        match biiLine n parent line stack' true with
        | .error e => .error e
        | .ok rest => .ok (anonFrom .BlockBox parent [newLine] :: block' :: rest)
/-- `_inner_block_in_inline(box, skip_stack)`; a skip stack `{i: {j: None}}` is `[i, j]`, `None` is `[]`. -/
def inner : Nat → KBox → List Nat → Except BErr (KBox × Option KBox × List Nat)
  | 0, _, _ => .error .fuel
  | n + 1, box, stack =>
    let (skip, stack') := match stack with | [] => (0, []) | i :: tl => (i, tl)
    match innerKids n (box.kids.drop skip) skip stack' [] with
    | .error e => .error e
    | .ok (.found ks blk resume) => .ok (box.withKids ks, some blk, resume)
    | .ok (.done ks) => .ok (box.withKids ks, none, [])
/-- `for i, child in enumerate(box.children[skip:])`; `acc` is `new_children` reversed. -/
def innerKids : Nat → List KBox → Nat → List Nat → List KBox → Except BErr InnerLoop
  | 0, _, _, _, _ => .error .fuel
  | _ + 1, [], _, _, acc => .ok (.done acc.reverse)
  | n + 1, c :: cs, index, stack, acc =>
    if c.isA .BlockLevelBox && c.inFlow then
      if !stack.isEmpty then .error .assertion
      else .ok (.found acc.reverse c [index + 1])
    else if c.isA .InlineBox then
      match inner n c stack with
      | .error e => .error e
      | .ok (c', some blk, resume) => .ok (.found (c' :: acc).reverse blk (index :: resume))
      | .ok (c', none, _) => innerKids n cs (index + 1) [] (c' :: acc)
    else
      if !stack.isEmpty then .error .assertion
      else
        match bii n c with
        | .error e => .error e
        | .ok c' => innerKids n cs (index + 1) [] (c' :: acc)
end

/-! ## anonymous table boxes -/

/-- `is_whitespace(box)`: a text box without any character outside the class of the regular
expression (`Gen.reSpaceCp`, the graph of the real function: space, tab, LF, CR, FF). -/
def isWhitespace (b : KBox) : Bool := b.isA .TextBox && allReSpace b.text

/-- `TableColumnGroupBox.span` -/
def groupSpan (b : KBox) : Nat := if !b.kids.isEmpty then b.kids.length else elSpan b.el

/-- Rule 1.3, last child: `internal, text = children[-2:]; if … : children.pop()`. -/
def rule13Last (children : List KBox) : List KBox :=
  match children.reverse with
  | text :: internal :: _ =>
    if Gen.internalTableOrCaption internal.kind && isWhitespace text then children.dropLast else children
  | _ => children

/-- Rule 1.3, first child: `text, internal = children[:2]; if … : children.pop(0)`. -/
def rule13First (children : List KBox) : List KBox :=
  match children with
  | text :: internal :: rest =>
    if Gen.internalTableOrCaption internal.kind && isWhitespace text then internal :: rest else children
  | _ => children

/-- Rule 1.3 of `table_boxes_children`. -/
def rule13 (children : List KBox) : List KBox :=
  if children.length >= 2 then rule13First (rule13Last children) else children

/-- The test of rule 1.4 for one child between `prev` and the head of `next`. -/
def rule14Drop (prev : Option KBox) (c : KBox) (next : List KBox) : Bool :=
  (match prev with | some p => Gen.internalTableOrCaption p.kind | none => false) &&
  (match next with | nx :: _ => Gen.internalTableOrCaption nx.kind | [] => false) &&
  isWhitespace c

/-- Rule 1.4: drop white-space text between two internal table boxes. -/
def rule14 : Option KBox → List KBox → List KBox
  | _, [] => []
  | prev, c :: cs =>
    if rule14Drop prev c cs then rule14 (some c) cs else c :: rule14 (some c) cs

/-- Sort the children of a table as `wrap_table` does (`by_type[type(child)]`). -/
def sortTableKids : List KBox → Except BErr (List KBox × List KBox × List KBox)
  | [] => .ok ([], [], [])
  | c :: cs =>
    match sortTableKids cs with
    | .error e => .error e
    | .ok (columns, rows, captions) =>
      if c.kind == .TableColumnBox || c.kind == .TableColumnGroupBox then .ok (c :: columns, rows, captions)
      else if c.kind == .TableRowBox || c.kind == .TableRowGroupBox then .ok (columns, c :: rows, captions)
      else if c.kind == .TableCaptionBox then .ok (columns, rows, c :: captions)
      else .error .keyError

/-- Header / footer extraction: returns (header, footer, bodies reversed). -/
def splitGroups : List KBox → Option KBox → Option KBox → List KBox → Option KBox × Option KBox × List KBox
  | [], h, f, acc => (h, f, acc)
  | g :: gs, h, f, acc =>
    if g.st.disp == .header && h.isNone then
      splitGroups gs (some (g.withInst { g.inst with isHeader := true })) f acc
    else if g.st.disp == .footer && f.isNone then
      splitGroups gs h (some (g.withInst { g.inst with isFooter := true })) acc
    else splitGroups gs h f (g :: acc)

/-- `cell.colspan`, `cell.rowspan` of every child of a row (AttributeError on anything but a cell). -/
def rowCells : List KBox → Except BErr (List TableGrid.CellIn)
  | [] => .ok []
  | c :: cs =>
    if c.kind != .TableCellBox then .error .attributeError
    else match rowCells cs with
      | .error e => .error e
      | .ok rest => .ok (⟨c.inst.colspan, c.inst.rowspan⟩ :: rest)

def groupCells : List KBox → Except BErr (List (List TableGrid.CellIn))
  | [] => .ok []
  | r :: rs =>
    match rowCells r.kids, groupCells rs with
    | .ok a, .ok b => .ok (a :: b)
    | .error e, _ => .error e
    | _, .error e => .error e

def tableCells : List KBox → Except BErr (List (List (List TableGrid.CellIn)))
  | [] => .ok []
  | g :: gs =>
    match groupCells g.kids, tableCells gs with
    | .ok a, .ok b => .ok (a :: b)
    | .error e, _ => .error e
    | _, .error e => .error e

/-- Write `grid_x` / clipped `rowspan` back on the cells of a row. -/
def setRow : List KBox → List TableGrid.CellOut → List KBox
  | c :: cs, o :: os =>
    c.withInst { c.inst with gridX := some o.gridX, rowspan := o.rowspan } :: setRow cs os
  | cs, _ => cs

def setGroup : List KBox → List (List TableGrid.CellOut) → List KBox
  | r :: rs, o :: os => r.withKids (setRow r.kids o) :: setGroup rs os
  | rs, _ => rs

def setGroups : List KBox → List (List (List TableGrid.CellOut)) → List KBox
  | g :: gs, o :: os => g.withKids (setGroup g.kids o) :: setGroups gs os
  | gs, _ => gs

def setCols : List KBox → List Nat → List KBox
  | c :: cs, x :: xs => c.withInst { c.inst with gridX := some x } :: setCols cs xs
  | cs, _ => cs

def setColGroups : List KBox → List TableGrid.ColGroupOut → List KBox
  | g :: gs, o :: os =>
    (g.withInst { g.inst with gridX := some o.gridX }).withKids (setCols g.kids o.cols) :: setColGroups gs os
  | gs, _ => gs

def isTopCaption (c : KBox) : Bool := !c.st.capBottom

mutual
/-- `table_boxes_children(box, children)`; `box.kids` are the children the box had before. -/
def tbc : Nat → KBox → List KBox → Except BErr KBox
  | 0, _, _ => .error .fuel
  | n + 1, box, children =>
    let k := box.kind
    let children :=
      if Gen.isSub k .TableColumnBox then []                          -- rule 1.1
      else if Gen.isSub k .TableColumnGroupBox then                   -- rule 1.2
        let cols := children.filter (fun c => c.isA .TableColumnBox)
        if cols.isEmpty then List.replicate (groupSpan box) (anonFrom .TableColumnBox box [])
        else cols
      else children
    let children := if Gen.tabularContainer k then rule13 children else children
    let children := rule14 none children
    -- rules 2.1 / 2.2
    let step1 : Except BErr (List KBox) :=
      if Gen.isSub k .TableBox then
        wrapImproper n box children .TableRowBox (fun c => Gen.properTableChild c.kind) []
      else if Gen.isSub k .TableRowGroupBox then
        wrapImproper n box children .TableRowBox (fun c => c.isA .TableRowBox) []
      else .ok children
    match step1 with
    | .error e => .error e
    | .ok children =>
      -- rules 2.3 / 3.1
      let step2 :=
        if Gen.isSub k .TableRowBox then
          wrapImproper n box children .TableCellBox (fun c => c.isA .TableCellBox) []
        else
          wrapImproper n box children .TableRowBox (fun c => !c.isA .TableCellBox) []
      match step2 with
      | .error e => .error e
      | .ok children =>
        -- rule 3.2
        let step3 :=
          if Gen.isSub k .InlineBox then
            wrapImproper n box children .InlineTableBox (fun c => !Gen.properTableChild c.kind) []
          else
            wrapImproper n box children .TableBox
              (fun c => !Gen.properTableChild c.kind || (Gen.properParents c.kind).contains k) []
        match step3 with
        | .error e => .error e
        | .ok children =>
          if Gen.isSub k .TableBox then wrapTable n box children
          else .ok (box.withKids children)
/-- `wrap_improper(box, children, wrapper_type, test)`; `improper` reversed. -/
def wrapImproper : Nat → KBox → List KBox → BoxKind → (KBox → Bool) → List KBox →
    Except BErr (List KBox)
  | 0, _, _, _, _, _ => .error .fuel
  | n + 1, box, [], wt, _, improper =>
    if !improper.isEmpty then
      match tbc n (anonFrom wt box []) improper.reverse with
      | .error e => .error e
      | .ok w => .ok [w]
    else .ok []
  | n + 1, box, c :: cs, wt, test, improper =>
    if test c then
      if !improper.isEmpty then
        match tbc n (anonFrom wt box []) improper.reverse with
        | .error e => .error e
        | .ok w =>
          match wrapImproper n box cs wt test [] with
          | .error e => .error e
          | .ok rest => .ok (w :: c :: rest)
      else
        match wrapImproper n box cs wt test [] with
        | .error e => .error e
        | .ok rest => .ok (c :: rest)
    else wrapImproper n box cs wt test (c :: improper)
/-- `wrap_table(box, children)` (for `border-collapse: separate`). -/
def wrapTable : Nat → KBox → List KBox → Except BErr KBox
  | 0, _, _ => .error .fuel
  | n + 1, box, children =>
    match sortTableKids children with
    | .error e => .error e
    | .ok (columns, rows, allCaptions) =>
      match wrapImproper n box columns .TableColumnGroupBox (fun c => c.isA .TableColumnGroupBox) [] with
      | .error e => .error e
      | .ok columnGroups =>
        match wrapImproper n box rows .TableRowGroupBox (fun c => c.isA .TableRowGroupBox) [] with
        | .error e => .error e
        | .ok rowGroups0 =>
          let (header, footer, bodiesRev) := splitGroups rowGroups0 none none []
          let rowGroups := header.toList ++ bodiesRev.reverse ++ footer.toList
          match tableCells rowGroups with
          | .error e => .error e
          | .ok cells =>
            let colsIn := columnGroups.map (fun g => (⟨g.kids.length, groupSpan g⟩ : TableGrid.ColGroupIn))
            match TableGrid.placeTable colsIn cells with
            | .error _ => .error .indexError
            | .ok out =>
              let rowGroups := setGroups rowGroups out.groups
              let columnGroups := setColGroups columnGroups out.colGroups
              let tst := box.st
              let tableStyle : Style :=
                { tst with
                  flt := if Gen.wrapperTakesFloat then false else tst.flt
                  foot := if Gen.wrapperTakesFloat then false else tst.foot
                  abs := if Gen.wrapperTakesPosition then false else tst.abs
                  run := if Gen.wrapperTakesPosition then false else tst.run }
              let table := ((box.withKids rowGroups).withCols columnGroups).withStyle tableStyle
              let wrapperType := if box.isA .InlineTableBox then BoxKind.InlineBlockBox else BoxKind.BlockBox
              let top := allCaptions.filter isTopCaption
              let bottom := allCaptions.filter (fun c => !isTopCaption c)
              let w := anonFrom wrapperType box (top ++ [table] ++ bottom)
              let wst := w.st
              let wrapperStyle : Style :=
                { wst with
                  flt := if Gen.wrapperTakesFloat then tst.flt else wst.flt
                  foot := if Gen.wrapperTakesFloat then tst.foot else wst.foot
                  abs := if Gen.wrapperTakesPosition then tst.abs else wst.abs
                  run := if Gen.wrapperTakesPosition then tst.run else wst.run }
              .ok ((w.withStyle wrapperStyle).withInst { w.inst with wrapper := true })
end

/-- Fuel for `table_boxes_children` on `n` children (the rules nest at most five wrappers deep). -/
def tableFuel (n : Nat) : Nat := 8 * (n + 8)

mutual
/-- `anonymous_table_boxes(box)` -/
def atb : KBox → Except BErr KBox
  | .mk k st el inst text kids cols =>
    if !Gen.isSub k .ParentBox || st.run then .ok (.mk k st el inst text kids cols)
    else
      match atbKids kids with
      | .error e => .error e
      | .ok children =>
        -- rule 1.2 may create `span` anonymous columns: they count for the fuel
        tbc (tableFuel (children.length + groupSpan (.mk k st el inst text kids cols)))
          (.mk k st el inst text kids cols) children
def atbKids : List KBox → Except BErr (List KBox)
  | [] => .ok []
  | c :: cs =>
    match atb c, atbKids cs with
    | .ok a, .ok b => .ok (a :: b)
    | .error e, _ => .error e
    | _, .error e => .error e
end

/-! ## flex_boxes, grid_boxes -/

/-- `flex_children` for a flex container (`grid = false`) / `grid_children` (`grid = true`). -/
def itemChildren (grid : Bool) : List KBox → List KBox
  | [] => []
  | c :: cs =>
    -- flex: `child.is_floated = lambda: False`
    let c := if grid then c else c.withInst { c.inst with noFloat := true }
    let c := if c.inFlow then
        (if grid then c.withInst { c.inst with gridItem := true } else c.withInst { c.inst with flexItem := true })
      else c
    let mark (b : KBox) : KBox :=
      if grid then b.withInst { b.inst with gridItem := true } else b.withInst { b.inst with flexItem := true }
    if c.isA .TextBox && allPlainSpaces c.text then itemChildren grid cs
    else if c.isA .InlineBlockBox then
      -- `anonymous.is_table_wrapper = child.is_table_wrapper`: the wrapper of an inline-table stays one
      let a := (anonFrom .BlockBox c c.kids).withStyle c.st
      mark (a.withInst { a.inst with wrapper := c.inst.wrapper }) :: itemChildren grid cs
    else if c.isA .InlineLevelBox then
      let inner := if grid then c.withInst { c.inst with gridItem := false } else c
      mark ((anonFrom .BlockBox c [inner]).withStyle c.st) :: itemChildren grid cs
    else c :: itemChildren grid cs

mutual
/-- `flex_boxes(box)` (`grid = false`) / `grid_boxes(box)` (`grid = true`). -/
def fgb (grid : Bool) : KBox → KBox
  | .mk k st el inst text kids cols =>
    if !Gen.isSub k .ParentBox || st.run then .mk k st el inst text kids cols
    else
      let children := fgbKids grid kids
      let container := if grid then Gen.isSub k .GridContainerBox else Gen.isSub k .FlexContainerBox
      .mk k st el inst text (if container then itemChildren grid children else children) cols
def fgbKids (grid : Bool) : List KBox → List KBox
  | [] => []
  | c :: cs => fgb grid c :: fgbKids grid cs
end

/-! ## the pipeline -/

mutual
def KBox.size : KBox → Nat
  | .mk _ _ _ _ _ kids cols => 1 + KBox.sizeList kids + KBox.sizeList cols
def KBox.sizeList : List KBox → Nat
  | [] => 0
  | c :: cs => c.size + KBox.sizeList cs
end

def biiFuel (b : KBox) : Nat := 6 * b.size + 16

/-- `create_anonymous_boxes(box)` -/
def createAnonymousBoxes (b : KBox) : Except BErr KBox :=
  match atb b with
  | .error e => .error e
  | .ok b1 =>
    let b2 := fgb false b1
    let b3 := fgb true b2
    match iib false b3 with
    | .error e => .error e
    | .ok b4 => bii (biiFuel b4) b4

end Wp.Bx
