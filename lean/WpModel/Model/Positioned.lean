/-
Which box is the containing block of a positioned descendant, and on which pages a fixed box is laid out:
mirror of the list plumbing in `block_container_layout` (layout/block.py: `if box.style['position'] ==
'relative': absolute_boxes = []` … `absolute_layout(context, absolute_box, new_box, …)`), `absolute_block`
(layout/absolute.py: `absolute_boxes = []` … `absolute_layout(context, child_placeholder, new_box, …)`),
`make_page` (layout/page.py: `page.fixed_boxes = [… for placeholder in positioned_boxes if … 'fixed']` followed by
`for absolute_box in positioned_boxes: absolute_layout(context, absolute_box, page, positioned_boxes, …)`) and
`layout_document` / `layout_fixed_boxes` (layout/__init__.py).

No Mathlib: linked into the driver.
-/
import WpModel.Model.Wire

namespace Wp.Positioned
open Wp

/-- `style['position']`. -/
inductive Position where
  | static | relative | absolute | fixed
  deriving Repr, DecidableEq, Inhabited

/-- The list an absolutely positioned placeholder is appended to is re-bound by every block container
with `position: relative` and by every absolutely / fixed positioned block on the way down (ancestors are
given outermost first; the result is the index of the box that will call `absolute_layout` on the
placeholder, `none` = the page).  A `fixed` placeholder goes to `fixed_boxes`, which is never re-bound. -/
def ownerFrom (cur : Option Nat) (i : Nat) : List Position → Option Nat
  | [] => cur
  | .static :: rest => ownerFrom cur (i + 1) rest
  | _ :: rest => ownerFrom (some i) (i + 1) rest

def owner (target : Position) (ancestors : List Position) : Option Nat :=
  match target with
  | .fixed => none
  | _ => ownerFrom none 0 ancestors

/-- Is the layout of this box's absolute descendants run from `make_page`'s final loop (so that what
they append to `positioned_boxes` arrives after `page.fixed_boxes` was computed)?  True when the
outermost positioned ancestor is absolutely / fixed positioned. -/
def collectedLate : List Position → Bool
  | [] => false
  | .static :: rest => collectedLate rest
  | .relative :: _ => false
  | _ :: _ => true

/-- A fixed box in the source: identifier, offsets, and whether `make_page` meets it too late. -/
structure FixedBox where
  id : Nat
  left : Rat
  top : Rat
  late : Bool
  deriving Repr, DecidableEq, Inhabited

/-- `page.fixed_boxes` of a page whose source holds `own` (document order). -/
def collected (own : List FixedBox) : List FixedBox := own.filter (fun f => !f.late)

/-- `layout_document`: the fixed boxes present on page `i` (in tree order: those of the earlier pages, the
page's own — laid out by `make_page` itself —, those of the later pages). -/
def pageFixed (pages : List (List FixedBox)) (i : Nat) : List FixedBox :=
  ((pages.take i).map collected).flatten ++ (pages.getD i []) ++ ((pages.drop (i + 1)).map collected).flatten

/-- Where a fixed box with px offsets and no margins is laid out on a page whose area starts at `(cx, cy)`. -/
def fixedAt (cx cy : Rat) (f : FixedBox) : Nat × Rat × Rat := (f.id, cx + f.left, cy + f.top)

def layoutFixed (cx cy : Rat) (pages : List (List FixedBox)) : List (List (Nat × Rat × Rat)) :=
  (List.range pages.length).map (fun i => (pageFixed pages i).map (fixedAt cx cy))

end Wp.Positioned
