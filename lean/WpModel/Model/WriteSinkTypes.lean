/-
C19 — types for the control-flow model of `Document.write_pdf` (weasyprint/document.py).  Hand-written;
`Gen/PdfVariants.lean` (regenerated from `weasyprint.pdf.VARIANTS` on every run) is stated over `VariantProps`.
-/
namespace Wp.WriteSinks

/-- The `properties` dict of one entry of `VARIANTS`: each key may be absent. -/
structure VariantProps where
  version : Option String
  identifier : Option Bool
  mark : Option Bool
  srgb : Option Bool
  deriving Repr, DecidableEq, BEq, Inhabited

end Wp.WriteSinks
