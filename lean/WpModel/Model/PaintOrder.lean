/-
C17 — executable model of the paint sequence of `weasyprint/draw/__init__.py`:

  draw_page                 ↔ `drawPage`
  draw_stacking_context     ↔ `paint` (points 2–10, opacity group, transform, overflow clip, early return)
  draw_background           ↔ `drawBackground`   (only the colour fill and the clip bookkeeping)
  draw_border               ↔ `drawBorder`       (simple case: one solid colour on four sides)
  draw_table                ↔ `drawTable`
  draw_outline              ↔ `outline` / `outlineList`
  draw_inline_level         ↔ `inl` / `inlKids`
  draw_text                 ↔ `drawText`         (visibility test and the colour)

The result is the *display list*: one item per filled path / shown text, tagged with the box it
belongs to, its colour code and the graphics environment it is painted in (enclosing opacity groups,
applied transforms, number of clip paths in effect).  A Python exception is the item `raise`: the
list is what was emitted before it (`outcome` cuts there), so the functions stay total.

Class tests come from `Gen/StackKinds`.  No Mathlib.
-/
import WpModel.Model.Stacking

namespace Wp.Stacking
open Wp Wp.Gen

inductive Role where
  | bg | canvas | border | outline | text | colBg | replaced | collapsedBorders
  deriving Repr, DecidableEq, BEq, Inhabited

/-- Which clip path: enough to say which rectangle / rounded box the drawing code must have used. -/
inductive Clip where
  | viewport                          -- `page.rounded_padding_box()`, for the root element (#35)
  | clipProp (id : Nat)               -- the `clip` rectangle of an absolutely positioned box
  | overflow (id : Nat)               -- `box.rounded_padding_box()`
  | bgBoxes (role : Role) (id : Nat)  -- the clipped boxes of the background's last layer
  | bgArea (role : Role) (id : Nat)   -- the painting area of the background's last layer
  | borderSide (id : Nat)             -- `clip_border_segment` of one border side
  | outlineSide (id : Nat)            -- `clip_border_segment` of one outline side
  deriving Repr, DecidableEq, BEq, Inhabited

/-- Graphics environment of an item. -/
structure Env where
  alphas : List Rat := []      -- opacity groups it is drawn in, outermost first
  transforms : List Nat := []  -- codes of the (regular) matrices applied, outermost first
  clips : List Clip := []      -- clip paths in effect, outermost first
  deriving Repr, DecidableEq, BEq, Inhabited

def Env.clip (e : Env) (c : Clip) : Env := { e with clips := e.clips ++ [c] }

inductive Item where
  | paint (role : Role) (id : Nat) (code : Nat) (env : Env)
  | raise (e : PyErr)
  deriving Repr, DecidableEq, BEq

/-- `draw_background(stream, bg, clip_box)`: nothing for `None`; the colour is filled inside the clip
of the border box (when `clip_box`) and the clip of the painting area. -/
def drawBackground (role : Role) (id : Nat) (bg : Option (Option Nat)) (clipBox : Bool) (env : Env) :
    List Item :=
  match bg with
  | none => []
  | some none => []
  | some (some c) =>
    [.paint role id c (if clipBox then (env.clip (.bgBoxes role id)).clip (.bgArea role id)
      else env.clip (.bgArea role id))]

/-- `draw_border(stream, box)`: hidden boxes and boxes without border widths paint nothing; four
non-zero sides of one solid colour are one path ("simple case"), otherwise every non-zero side is
painted on its own inside a clip of that side. -/
def drawBorder (a : Attrs) (env : Env) : List Item :=
  if !a.visible then [] else
  match a.border with
  | none => []
  | some c =>
    if a.borderSides = 4 then [.paint .border a.id c env]
    else List.replicate a.borderSides (.paint .border a.id c (env.clip (.borderSide a.id)))

/-- The decoration of one box: `draw_background(stream, box.background)`, `draw_border(stream, box)`. -/
def decoration (a : Attrs) (env : Env) : List Item :=
  drawBackground .bg a.id a.bg true env ++ drawBorder a env

/-- `draw_text`: invisible text boxes are skipped. -/
def drawText (a : Attrs) (env : Env) : List Item :=
  if !a.visible then [] else [.paint .text a.id a.color env]

/-- `box.children` as the drawing code sees it (`Box.children = []` on non-parents);
`none` when the object has no `children` attribute (a StackingContext). -/
def Node.children? : Node → Option (List Node)
  | .leaf _ => some []
  | .node _ kids => some kids
  | _ => none

def Node.attrs? : Node → Option Attrs
  | .leaf a => some a
  | .node a _ => some a
  | _ => none

def attrErr (site : String) : List Item := [.raise (.noneAttribute site)]

/-- Cells of one row for `draw_table`. -/
def tableCells (row : Node) : List Node := (row.children?).getD []

/-- `draw_table`, innermost loop of the backgrounds: one cell. -/
def cellBackground (t : Attrs) (env : Env) (c : Node) : List Item :=
  match c.attrs? with
  | some ca =>
    if t.collapse || ca.emptyCellsShow || !ca.cellEmpty then drawBackground .bg ca.id ca.bg true env
    else []
  | none => attrErr "draw_table.cell"

/-- `draw_table`, backgrounds of one row and its cells. -/
def rowBackgrounds (t : Attrs) (env : Env) (r : Node) : List Item :=
  match r.attrs?, r.children? with
  | some ra, some cells =>
    drawBackground .bg ra.id ra.bg true env ++ cells.flatMap (cellBackground t env)
  | _, _ => attrErr "draw_table.row"

/-- `draw_table`, backgrounds of one row group, its rows and their cells. -/
def groupBackgrounds (t : Attrs) (env : Env) (g : Node) : List Item :=
  match g.attrs?, g.children? with
  | some ga, some rows =>
    drawBackground .bg ga.id ga.bg true env ++ rows.flatMap (rowBackgrounds t env)
  | _, _ => attrErr "draw_table.row_group"

/-- Backgrounds of the column groups and columns. -/
def columnBackgrounds (t : Attrs) (env : Env) : List Item :=
  t.colGroups.flatMap (fun g =>
    drawBackground .colBg g.id g.bg true env ++
    g.cols.flatMap (fun c => drawBackground .colBg c.1 c.2 true env))

/-- Backgrounds of `draw_table`: table, column groups and columns, then row groups, rows, cells. -/
def drawTableBackgrounds (t : Attrs) (groups : List Node) (env : Env) : List Item :=
  drawBackground .bg t.id t.bg true env ++ columnBackgrounds t env ++
  groups.flatMap (groupBackgrounds t env)

/-- `draw_table`, innermost loop of the borders: one cell. -/
def cellBorder (env : Env) (c : Node) : List Item :=
  match c.attrs? with
  | some ca => if ca.emptyCellsShow || !ca.cellEmpty then drawBorder ca env else []
  | none => attrErr "draw_table.cell"

def rowBorders (env : Env) (r : Node) : List Item :=
  match r.children? with
  | some cells => cells.flatMap (cellBorder env)
  | none => attrErr "draw_table.row"

def groupBorders (env : Env) (g : Node) : List Item :=
  match g.children? with
  | some rows => rows.flatMap (rowBorders env)
  | none => attrErr "draw_table.row_group"

/-- Borders of `draw_table` (separate borders model). -/
def drawTableBorders (t : Attrs) (groups : List Node) (env : Env) : List Item :=
  drawBorder t env ++ groups.flatMap (groupBorders env)

/-- `draw_table(stream, table)`. -/
def drawTable (t : Attrs) (groups : List Node) (env : Env) : List Item :=
  drawTableBackgrounds t groups env ++
  (if t.collapse then [.paint .collapsedBorders t.id 0 env]     -- `return draw_collapsed_borders(…)`
   else drawTableBorders t groups env)

/-- Point 4 for one entry of `block_level_boxes`. -/
def drawBlock (n : Node) (env : Env) : List Item :=
  match n with
  | .leaf a => if a.kind.drawTable then drawTable a [] env else decoration a env
  | .node a kids => if a.kind.drawTable then drawTable a kids env else decoration a env
  | _ => attrErr "block_level_boxes"

/-- The four sides of `draw_outline` for one box (each side in its own clip). -/
def ownOutline (a : Attrs) (env : Env) : List Item :=
  match a.outline with
  | some c => if a.visible then List.replicate 4 (.paint .outline a.id c (env.clip (.outlineSide a.id))) else []
  | none => []

/-- Does the singular-transform early return apply, and the environment inside the context's
outer `q … Q`: viewport clip for the root element, `clip`, opacity group, transform. -/
def ctxEnv (a : Attrs) (pageOverflowVisible : Bool) (env : Env) : Env :=
  let e1 := if a.isRoot && !pageOverflowVisible then env.clip .viewport else env
  let e2 := if a.absPos && a.clipProp then e1.clip (.clipProp a.id) else e1
  let e3 := if a.opacity < 1 then { e2 with alphas := e2.alphas ++ [a.opacity] } else e2
  match a.matrix with
  | .regular code => { e3 with transforms := e3.transforms ++ [code] }
  | _ => e3

/-- `draw_replacedbox(stream, box)`: nothing for an invisible box (boxes of zero size are not
generated: `not box.width or not box.height`, `draw_width <= 0` are not modelled). -/
def drawReplaced (a : Attrs) (env : Env) : List Item :=
  if !a.visible then [] else [.paint .replaced a.id 0 env]

/-- `draw_inline_level` on a box, given what the children loop paints. -/
def inlBoxWith (a : Attrs) (kidsItems : Env → List Item) (env : Env) : List Item :=
  decoration a env ++
  (if a.kind.dilInlineOrLine then kidsItems env
   else if a.kind.dilInlineReplaced then drawReplaced a env
   else if !a.kind.dilText then [.raise (.assertFailed "draw_inline_level.TextBox")]
   else drawText a env)

/-- `assert isinstance(stacking_context.box, allowed_boxes)` of `draw_inline_level`. -/
def ctxAllowed (box : Node) : Bool :=
  match box.attrs? with | some a => a.kind.dilAllowed | none => false

/-- `block.children and isinstance(block.children[-1], boxes.LineBox)` (a StackingContext standing
last in the list is not a LineBox). -/
def lastIsLine (kids : List Node) : Bool :=
  match kids.getLast? with
  | none => false                                            -- `elif block.children:`
  | some last => match last.attrs? with | some la => la.kind.drawLine | none => false

/-- Point 7 for one block, given what `for child in block.children: draw_inline_level(child)` paints. -/
def point7With (a : Attrs) (kids : List Node) (lines : Env → List Item) (env : Env) : List Item :=
  if a.kind.drawReplaced then drawReplaced a env
  else if lastIsLine kids then lines env else []

/-- The environment of the inner `q … Q` of `draw_stacking_context`: the overflow clip, which the
page box never gets. -/
def innerEnv (a : Attrs) (pov : Bool) (env : Env) : Env :=
  if !a.overflowVisible && !a.kind.drawPage then (ctxEnv a pov env).clip (.overflow a.id)
  else ctxEnv a pov env

/-- The body of `draw_stacking_context` once the context's box is known to be a box; the
arguments are what the loops over the context's lists paint in a given environment. -/
def paintBodyWith (pov : Bool) (a : Attrs)
    (neg blocks floats inlineKids pt7 zero pos outl : Env → List Item) (env : Env) : List Item :=
  if a.matrix = .singular then [] else          -- `return` before anything is painted
  let e := ctxEnv a pov env
  -- Point 2
  (if a.kind.drawOwnDecoration then decoration a e else []) ++
  (let e1 := if !a.overflowVisible && !a.kind.drawPage then e.clip (.overflow a.id) else e
   -- Points 3, 4, 5
   neg e1 ++ blocks e1 ++ floats e1 ++
   -- Point 6
   (if a.kind.drawInline then inlBoxWith a inlineKids e1 else []) ++
   -- Point 7: `for block in (box, *blocks_and_cells)`
   pt7 e1 ++
   -- Points 8, 9
   zero e1 ++ pos e1) ++
  -- Point 10
  ownOutline a e ++ outl e

mutual
/-- `draw_stacking_context(stream, stacking_context)`; `pov` = the page's overflow is 'visible'. -/
def paint (pov : Bool) : Node → Env → List Item
  | .ctx (.leaf a) neg zero pos blocks floats bc _, env =>
    paintBodyWith pov a (paintList pov neg) (fun e => blocks.flatMap (drawBlock · e))
      (paintList pov floats) (fun _ => [])
      (fun e => point7With a [] (fun _ => []) e ++ point7List pov bc e)
      (paintList pov zero) (paintList pov pos) (fun _ => []) env
  | .ctx (.node a kids) neg zero pos blocks floats bc _, env =>
    paintBodyWith pov a (paintList pov neg) (fun e => blocks.flatMap (drawBlock · e))
      (paintList pov floats) (inlKids pov kids)
      (fun e => point7With a kids (inlList pov kids) e ++ point7List pov bc e)
      (paintList pov zero) (paintList pov pos) (outlineList kids) env
  | .ctx (.ctx ..) .., _ => attrErr "stacking_context.box"
  | .ctx (.ph _) .., _ => attrErr "stacking_context.box"
  | .leaf _, _ => attrErr "draw_stacking_context"
  | .node _ _, _ => attrErr "draw_stacking_context"
  | .ph _, _ => attrErr "draw_stacking_context"

def paintList (pov : Bool) : List Node → Env → List Item
  | [], _ => []
  | c :: cs, env => paint pov c env ++ paintList pov cs env

/-- Point 7 over `blocks_and_cells`. -/
def point7List (pov : Bool) : List Node → Env → List Item
  | [], _ => []
  | .leaf a :: bs, env => point7With a [] (fun _ => []) env ++ point7List pov bs env
  | .node a kids :: bs, env => point7With a kids (inlList pov kids) env ++ point7List pov bs env
  | .ph _ :: bs, env => attrErr "blocks_and_cells" ++ point7List pov bs env
  | .ctx .. :: bs, env => attrErr "blocks_and_cells" ++ point7List pov bs env

/-- The children loop of `draw_inline_level`: text boxes are drawn directly, a StackingContext
(inline-block) through `draw_stacking_context` after the assert. -/
def inlKids (pov : Bool) : List Node → Env → List Item
  | [], _ => []
  | .leaf a :: cs, env =>
    (if a.kind.dilTextChild then drawText a env else inlBoxWith a (fun _ => []) env) ++
      inlKids pov cs env
  | .node a kids :: cs, env =>
    (if a.kind.dilTextChild then drawText a env else inlBoxWith a (inlKids pov kids) env) ++
      inlKids pov cs env
  | .ctx box neg zero pos blocks floats bc z :: cs, env =>
    (if !ctxAllowed box then [.raise (.assertFailed "draw_inline_level.allowed_boxes")]
     else paint pov (.ctx box neg zero pos blocks floats bc z) env) ++ inlKids pov cs env
  | .ph _ :: cs, env => attrErr "draw_inline_level" ++ inlKids pov cs env

/-- Point 7: `for child in block.children: draw_inline_level(stream, page, child)`. -/
def inlList (pov : Bool) : List Node → Env → List Item
  | [], _ => []
  | .leaf a :: cs, env => inlBoxWith a (fun _ => []) env ++ inlList pov cs env
  | .node a kids :: cs, env => inlBoxWith a (inlKids pov kids) env ++ inlList pov cs env
  | .ctx box neg zero pos blocks floats bc z :: cs, env =>
    (if !ctxAllowed box then [.raise (.assertFailed "draw_inline_level.allowed_boxes")]
     else paint pov (.ctx box neg zero pos blocks floats bc z) env) ++ inlList pov cs env
  | .ph _ :: cs, env => attrErr "draw_inline_level" ++ inlList pov cs env

/-- `draw_outline(stream, box)` on the children: contexts in a children list are not `Box`es. -/
def outlineList : List Node → Env → List Item
  | [], _ => []
  | .leaf a :: cs, env => ownOutline a env ++ outlineList cs env
  | .node a kids :: cs, env => (ownOutline a env ++ outlineList kids env) ++ outlineList cs env
  | .ph _ :: cs, env => outlineList cs env
  | .ctx .. :: cs, env => outlineList cs env
end

/-- `draw_inline_level(stream, page, box)`. -/
def inl (pov : Bool) (n : Node) (env : Env) : List Item := inlList pov [n] env

/-- `draw_page(page, stream)`: page background (painting area clip only), canvas background, page
border, then the page's stacking context. -/
def drawPage (page : Attrs) (canvasBg : Option (Option Nat)) (children : List Box) : List Item :=
  let ctx := (fromPage page children).1
  let env : Env := {}
  drawBackground .bg page.id page.bg false env ++
  drawBackground .canvas page.id canvasBg false env ++
  drawBorder page env ++
  paint page.overflowVisible ctx env

/-- What `outcome` sees: the items before the first exception, or the exception. -/
def runItems : List Item → Except PyErr (List Item)
  | [] => .ok []
  | .raise e :: _ => .error e
  | i :: rest => (runItems rest).map (i :: ·)

end Wp.Stacking
