/-
C07 — the rule-level funnel: weasyprint/css/__init__.py `preprocess_stylesheet`, as far as deciding which rules
of a stylesheet contribute and which are ignored ("the rest of its sheet renders as if it were absent").
A rule is abstracted to the answers of the real helper functions on it (selector compilation, pseudo-element
whitelist, media query parsing / evaluation, page selector parsing, whether its declarations survive
`preprocess_declarations`); the model mirrors the loop, its `continue`s and its `ignore_imports` state.
No Mathlib, no Std: linked into the driver.
-/
import WpModel.Model.Wire

namespace Wp.Sheet
open Wp

/-- One rule of `stylesheet_rules`, with what the loop asks about it. -/
inductive Rule where
  /-- parse error, whitespace, comment, at-rule without block other than `@import` (`content is None`). -/
  | noContent
  /-- qualified rule: `compile_selector_list` succeeds?, per selector `pseudo_element in PSEUDO_ELEMENTS`,
  `preprocess_declarations` yields something? -/
  | style (id : Nat) (selectorOk : Bool) (pseudoOk : List Bool) (hasDecls : Bool)
  /-- `@import`: a usable URL, a parsable media query that matches (`usable`), the fetch succeeds (`fetched`),
  the rules of the imported sheet. -/
  | importRule (usable fetched : Bool) (rules : List Rule)
  /-- `@media`: `parse_media_query` result (`none` = invalid), `evaluate_media_query`, the nested rules. -/
  | media (query : Option Bool) (rules : List Rule)
  /-- `@page`: `parse_page_selectors` (`none` = unsupported selector, else the number of selectors), the page
  declarations survive?, the margin at-rules `(lower_at_keyword, declarations survive?)`. -/
  | page (id : Nat) (selectors : Option Nat) (hasDecls : Bool) (margins : List (String × Bool))
  /-- `@font-face`. -/
  | fontFace
  /-- `@counter-style`: `parse_counter_style_name` succeeds? -/
  | counterStyle (nameOk : Bool)
  /-- any other at-rule with a block (`@supports`, `@keyframes`, unknown): no branch of the loop takes it. -/
  | otherAt
  deriving Repr, Inhabited

/-- What reaches the matcher / the page rules. -/
inductive Event where
  | selector (id : Nat) (index : Nat)        -- matcher.add_selector for the index-th selector of rule id
  | pageRule (id : Nat)                      -- page_rules.append for the page box
  | marginRule (id : Nat) (name : String)    -- page_rules.append for a margin box
  deriving Repr, BEq, DecidableEq

/-- `for selector in selectors: matcher.add_selector(...); if unknown pseudo-element: raise` — the selectors
added, and whether the loop ran to its end (then `ignore_imports = True`). -/
def addSelectors (id : Nat) : List Bool → Nat → List Event × Bool
  | [], _ => ([], true)
  | ok :: rest, i =>
    if ok then
      let (ev, done) := addSelectors id rest (i + 1)
      (Event.selector id i :: ev, done)
    else ([Event.selector id i], false)       -- added, then SelectorError

def marginEvents (id : Nat) : List (String × Bool) → List Event
  | [] => []
  | (name, hasDecls) :: rest =>
    (if hasDecls then [Event.marginRule id name] else []) ++ marginEvents id rest

/-- `for page_data in data:` — the same events once per page selector. -/
def pageEvents (id : Nat) (hasDecls : Bool) (margins : List (String × Bool)) : Nat → List Event
  | 0 => []
  | n + 1 => (if hasDecls then [Event.pageRule id] else []) ++ marginEvents id margins ++
      pageEvents id hasDecls margins n

mutual
/-- One turn of the loop: the events, and the new value of `ignore_imports`. -/
def processRule (ig : Bool) : Rule → List Event × Bool
  | .noContent => ([], ig)
  | .style id selectorOk pseudoOk hasDecls =>
    if !selectorOk then ([], ig)                       -- SelectorError from preprocess_declarations
    else if !hasDecls then ([], true)
    else
      let (ev, done) := addSelectors id pseudoOk 0
      (ev, if done then true else ig)
  | .importRule usable fetched rules =>
    if ig then ([], ig)                                 -- '@import rule not at the beginning'
    else if !usable then ([], ig)
    else if !fetched then ([], ig)                      -- URLFetchingError caught
    else ((processRules false rules).1, ig)             -- a new CSS object: ignore_imports starts False
  | .media query rules =>
    match query with
    | none => ([], ig)
    | some applies => if applies then ((processRules true rules).1, true) else ([], true)
  | .page id selectors hasDecls margins =>
    match selectors with
    | none => ([], ig)
    | some n => (pageEvents id hasDecls margins n, true)
  | .fontFace => ([], true)
  | .counterStyle nameOk => ([], if nameOk then true else ig)
  | .otherAt => ([], ig)
/-- `preprocess_stylesheet(..., stylesheet_rules, ..., ignore_imports)`. -/
def processRules (ig : Bool) : List Rule → List Event × Bool
  | [] => ([], ig)
  | r :: rest =>
    let (e1, ig1) := processRule ig r
    let (e2, ig2) := processRules ig1 rest
    (e1 ++ e2, ig2)
end

/-- A rule the loop ignores entirely: no event, `ignore_imports` untouched, whatever the state. -/
def inert : Rule → Bool
  | .noContent => true
  | .style _ selectorOk _ _ => !selectorOk
  | .importRule usable fetched _ => !usable || !fetched
  | .media query _ => query.isNone
  | .page _ selectors _ _ => selectors.isNone
  | .fontFace => false
  | .counterStyle nameOk => !nameOk
  | .otherAt => true

def Event.render : Event → String
  | .selector id i => "(sel " ++ toString id ++ " " ++ toString i ++ ")"
  | .pageRule id => "(page " ++ toString id ++ ")"
  | .marginRule id name => "(margin " ++ toString id ++ " " ++ name ++ ")"

end Wp.Sheet
