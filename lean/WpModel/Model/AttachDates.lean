/-
C19 — the dates of an embedded file: `weasyprint/__init__.py::Attachment.__init__`

  if created is None:  created = datetime.fromtimestamp(getctime(filename)) if filename else datetime.now()
  if modified is None: modified = datetime.fromtimestamp(getmtime(filename)) if filename else datetime.now()

and `pdf/anchors.py::write_pdf_attachment`, which writes them as `/CreationDate` / `/ModDate` of the `/EmbeddedFile`
(`strftime('D:%Y%m%d%H%M%SZ')`).  An `Attachment` is built by `get_html_metadata` at render time for
`<link rel=attachment>` and by `add_annotations` at every `write_pdf` for `<a rel=attachment>` — always from a URL,
never with dates.  The wall clock (`now`) is therefore an input of the PDF bytes; `SOURCE_DATE_EPOCH` is not read.
Dates are opaque values (`String`: what the harness formats); hand-written mirror, no Mathlib.
-/
import WpModel.Model.Wire

namespace Wp.AttachDates

/-- What `Attachment.__init__` is given and what it can read. -/
structure Input where
  /-- the `created` / `modified` arguments -/
  created : Option String
  modified : Option String
  /-- `getctime(filename)` / `getmtime(filename)` when `filename` is given (truthy) -/
  fileTimes : Option (String × String)
  /-- `datetime.now()` when the object is constructed -/
  now : String
  /-- the environment variable `SOURCE_DATE_EPOCH` (not read by this code) -/
  sourceDateEpoch : Option String
  deriving Repr, DecidableEq, Inhabited

/-- `(attachment.created, attachment.modified)`. -/
def dates (i : Input) : String × String :=
  let created := match i.created with
    | some d => d
    | none => match i.fileTimes with
      | some t => t.1
      | none => i.now
  let modified := match i.modified with
    | some d => d
    | none => match i.fileTimes with
      | some t => t.2
      | none => i.now
  (created, modified)

end Wp.AttachDates
