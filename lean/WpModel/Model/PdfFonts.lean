/-
Model of the font bookkeeping between the text drawing code and the `/Font` resource dictionary:

  `Stream.add_font` (pdf/stream.py)            ↔ `addFont`      the document-wide table `document.fonts`
  the font part of `draw_first_line`           ↔ `drawRuns`     (draw/text.py: `add_font`, `set_font_size(font.hash, …)`
                                                                 once per change of Pango font, glyph strings shown)
  `build_fonts_dictionary` (pdf/fonts.py)      ↔ `fileHashes`, `buildFonts`   which fonts get a font file, which keys
                                                                 the `/Font` dictionary gets, in which order
  `generate_pdf`: `pdf_fonts['ZaDb'] = …` when the catalog has an `/AcroForm`      ↔ `fontResourceKeys`
  the `/W` array and the `/CIDSet` bit string of `_build_vector_font_dictionary`   ↔ `wArray`, `cidSetBits`

A font is what these functions read of a `pdf.fonts.Font`: its `hash` (the resource name, also the key the font files
are grouped by), `bitmap`, `used_in_forms`.  Whether glyphs were drawn with it (`font.cmap`, `font.widths`) decides the
*content* of its dictionaries, never whether it is written: a run of glyphless characters (ZERO WIDTH SPACE …) still
emits `/hash size Tf`.
Python failure points: `font_references_by_file_hash[font.hash]` (KeyError when the first font of the group is a bitmap
font and this one is not); `current_widths.append` before any group was opened (UnboundLocalError).  No Mathlib.
-/
import WpModel.Model.PdfStream

namespace Wp.PdfFonts
open Wp Wp.Pdf

/-- The exceptions of these functions (not in `Wp.PyErr`). -/
inductive FontErr where
  | keyError (site : String)
  | unboundLocal (site : String)
  deriving DecidableEq, Repr

def FontErr.render : FontErr → String
  | .keyError _ => "err:KeyError"
  | .unboundLocal _ => "err:UnboundLocalError"

structure FontInfo where
  hash : String
  bitmap : Bool := false
  usedInForms : Bool := false
  deriving DecidableEq, Repr

/-- `document.fonts`: Pango font key ↦ `Font`, in insertion order. -/
abbrev FontTable := List (Nat × FontInfo)

def lookupFont (t : FontTable) (key : Nat) : Option FontInfo := (List.find? (fun e => e.1 == key) t).map (·.2)

/-- `Stream.add_font`: `if key not in self._fonts: self._fonts[key] = Font(pango_font, …)`; returns the stored font.
`fresh` is the `Font` the constructor would build for this Pango font. -/
def addFont (t : FontTable) (key : Nat) (fresh : FontInfo) : FontTable × FontInfo :=
  match lookupFont t key with
  | some f => (t, f)
  | none => (t ++ [(key, fresh)], fresh)

/-- One Pango glyph run of the line: its font (the same face at another size is another `PangoFont` with the same
key), the font size and the glyph string it contributes (may be made of
spacing only when every glyph is `PANGO_GLYPH_EMPTY`). -/
structure Run where
  pango : Nat            -- identity of the `PangoFont` object (`pango_font != previous_pango_font` compares pointers)
  key : Nat              -- `get_pango_font_key(pango_font)[0]`: size and gravity are not part of it
  fresh : FontInfo
  size : Num
  text : String
  deriving Repr

/-- The loop over the runs of `draw_first_line` as far as fonts are concerned: on a change of Pango font
`font, font_size = stream.add_font(pango_font)`, the pending string is shown, `stream.set_font_size(font.hash, 1 if
font.bitmap else font_size)`; then the glyph string grows.  Returns the table, the calls in order (newest last) and the
pending string. -/
def drawRuns (t : FontTable) (prev : Option Nat) (pending : String) : List Run → FontTable × List Call × String
  | [] => (t, [], pending)
  | r :: rs =>
    if prev = some r.pango then
      let out := drawRuns t prev (pending ++ r.text) rs
      (out.1, out.2.1, out.2.2)
    else
      let (t', f) := addFont t r.key r.fresh
      let shown : List Call := if pending.isEmpty then [] else [.raw .showText [] false pending]
      let out := drawRuns t' (some r.pango) r.text rs
      (out.1, shown ++ [.setFont f.hash (if f.bitmap then .int 1 else r.size)] ++ out.2.1, out.2.2)

/-- `draw_first_line` from `stream.set_text_matrix` to the final `stream.show_text(string)`. -/
def drawLine (t : FontTable) (runs : List Run) : FontTable × List Call :=
  let out := drawRuns t none "" runs
  (out.1, out.2.1 ++ [.raw .showText [] false out.2.2])

/-! ## build_fonts_dictionary -/

/-- `d[k] = v` for every key in order: a repeated key keeps its first position. -/
def dictKeys : List String → List String
  | [] => []
  | k :: ks => k :: (dictKeys ks).filter (· != k)

/-- First loop: `fonts_by_file_hash` (insertion ordered, the first font of each group decides) — the hashes that get a
font file object (`if font.bitmap: continue`). -/
def fileHashes : List FontInfo → List String → List String
  | [], _ => []
  | f :: fs, seen =>
    if seen.contains f.hash then fileHashes fs seen
    else if f.bitmap then fileHashes fs (f.hash :: seen)
    else f.hash :: fileHashes fs (f.hash :: seen)

/-- Second loop: one font dictionary per font of `fonts.values()`, stored under `font.hash`; a vector font needs the
font file reference of its group. -/
def buildLoop (files : List String) : List FontInfo → Except FontErr (List String)
  | [] => .ok []
  | f :: fs =>
    if !f.bitmap && !files.contains f.hash then .error (.keyError "font_references_by_file_hash")
    else (buildLoop files fs).map (f.hash :: ·)

/-- `build_fonts_dictionary`: the keys of the returned dictionary, in order. -/
def buildFonts (fonts : List FontInfo) : Except FontErr (List String) :=
  (buildLoop (fileHashes fonts []) fonts).map dictKeys

/-- `generate_pdf`: `if 'AcroForm' in pdf.catalog: pdf_fonts['ZaDb'] = dingbats.reference`. -/
def fontResourceKeys (fonts : List FontInfo) (acroForm : Bool) : Except FontErr (List String) :=
  (buildFonts fonts).map (fun ks => if acroForm then dictKeys (ks ++ ["ZaDb"]) else ks)

/-- Font names a content stream uses (`Tf`) that the `/Font` dictionary does not define. -/
def undefinedFonts (keys used : List String) : List String := used.filter (fun u => !keys.contains u)

/-! ## `/W` and `/CIDSet` of a CID font -/

/-- An element of the `/W` array: a start CID or an array of consecutive widths. -/
inductive WItem where
  | cid (c : Nat)
  | widths (ws : List Int)
  deriving DecidableEq, Repr

/-- `for i in sorted(widths): if i - 1 not in widths: pdf_widths.append(i); current_widths = Array();
pdf_widths.append(current_widths)` then `current_widths.append(widths[i])`: the groups `(start, widths)` in order.
`cids` are all the keys of `widths`; `-1` is never a key. -/
def wLoop (cids : List Nat) : List (Nat × Int) → List (Nat × List Int) → Except FontErr (List (Nat × List Int))
  | [], acc => .ok acc
  | (c, w) :: rest, acc =>
    if c = 0 ∨ !cids.contains (c - 1) then wLoop cids rest (acc ++ [(c, [w])])
    else match acc.getLast? with
      | none => .error (.unboundLocal "current_widths")
      | some g => wLoop cids rest (acc.dropLast ++ [(g.1, g.2 ++ [w])])

/-- The `/W` array for the sorted `(cid, width)` pairs. -/
def wArray (pairs : List (Nat × Int)) : Except FontErr (List WItem) :=
  (wLoop (pairs.map (·.1)) pairs []).map (fun gs => gs.flatMap (fun g => [WItem.cid g.1, WItem.widths g.2]))

/-- What a PDF reader gets back from a `/W` array of the `c [w1 … wn]` form: CID ↦ width. -/
def wDecode : List WItem → List (Nat × Int)
  | .cid c :: .widths ws :: rest => ((List.range ws.length).zip ws).map (fun p => (c + p.1, p.2)) ++ wDecode rest
  | _ => []

/-- The `/CIDSet` stream: bit `cid` (most significant bit first) set for every used CID, padded to whole bytes. -/
def cidSetBits (cids : List Nat) (last : Nat) : List Bool :=
  (List.range (((last + 1 + 7) / 8) * 8)).map (fun i => cids.contains i)

/-- `if str(pdf_version) <= '1.4' and font.widths:` — Python compares the strings lexicographically (`str(None)` is
`'None'`, `str(b'1.4')` is `"b'1.4'"`, both above `'1.4'`). -/
def cidSetWritten (versionStr : String) (hasWidths : Bool) : Bool := decide (versionStr ≤ "1.4") && hasWidths

end Wp.PdfFonts
