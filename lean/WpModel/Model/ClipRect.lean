/-
C17 — the `clip` rectangle of an absolutely positioned box: the branch
`if box.is_absolutely_positioned() and box.style['clip']:` of `draw_stacking_context`
(weasyprint/draw/__init__.py), literally:

    top, right, bottom, left = box.style['clip']
    if top == 'auto': top = 0
    if right == 'auto': right = 0
    if bottom == 'auto': bottom = box.border_height()
    if left == 'auto': left = box.border_width()
    stream.rectangle(box.border_box_x() + right, box.border_box_y() + top, left - right, bottom - top)

`none : Option Rat` is `'auto'`.  The rectangle may have a negative width (PDF `re` accepts it: the
region is the same).  `cssClipEdges` is what CSS 2.1 11.1.2 prescribes (offsets from the top-left corner
of the border box; `auto` = the border edge of that side).  No Mathlib.
-/
import WpModel.Model.Wire

namespace Wp.ClipRect
open Wp

/-- `style['clip']`: (top, right, bottom, left), `none` = `auto`. -/
structure ClipProp where
  top : Option Rat
  right : Option Rat
  bottom : Option Rat
  left : Option Rat
  deriving Repr, DecidableEq, Inhabited

/-- The operands of `stream.rectangle(x, y, w, h)`. -/
def clipRect (bbx bby bw bh : Rat) (c : ClipProp) : Rat × Rat × Rat × Rat :=
  let top := c.top.getD 0
  let right := c.right.getD 0
  let bottom := c.bottom.getD bh
  let left := c.left.getD bw
  (bbx + right, bby + top, left - right, bottom - top)

/-- CSS 2.1 11.1.2: the edges (x of the left edge, x of the right edge, y of the top edge, y of the bottom
edge) of the clipping region; `auto` means the corresponding border edge of the box. -/
def cssClipEdges (bbx bby bw bh : Rat) (c : ClipProp) : Rat × Rat × Rat × Rat :=
  (bbx + c.left.getD 0, bbx + c.right.getD bw, bby + c.top.getD 0, bby + c.bottom.getD bh)

/-- The two vertical edges of a PDF rectangle, whatever the sign of its width: (smaller x, larger x). -/
def xEdges (r : Rat × Rat × Rat × Rat) : Rat × Rat :=
  if r.2.2.1 < 0 then (r.1 + r.2.2.1, r.1) else (r.1, r.1 + r.2.2.1)

def yEdges (r : Rat × Rat × Rat × Rat) : Rat × Rat :=
  if r.2.2.2 < 0 then (r.2.1 + r.2.2.2, r.2.1) else (r.2.1, r.2.1 + r.2.2.2)

end Wp.ClipRect
