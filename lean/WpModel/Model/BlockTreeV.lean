/-
Full geometry (x, y, width, height) of a tree of block boxes in normal flow on one page — C05 clauses
(a)–(h) over the property's own quantifier domain (margins / paddings / borders / width / height / min-* /
max-* / box-sizing from {auto, 0, px, %, em}, ltr and rtl, fixed heights, empty boxes).

It is the *composition* of the two models that already exist, exactly as the layout composes the functions:

  horizontal half, per box (`Model/BlockTree.lean`):
      block.py block_level_layout:      resolve_percentages(box, containing_block)      → used values
      block.py block_box_layout:        block_level_width(box, containing_block)        → x, margins, width
      block.py block_container_layout:  child.position_x = box.content_box_x()
  vertical half, whole tree (`Model/Paginate.lean`, the pagination model):
      block.py block_container_layout / _in_flow_layout / collapse_margin: position_y, adjoining margins,
      collapsing through, auto heights, `max(min(height, max_height), min_height)`
  on the **used** vertical values of the horizontal half: `margin_top: auto` is 0, percentages of margins and
  paddings refer to the containing block *width*, `height` / `min-height` / `max-height` percentages to its
  height (auto: `auto / 0 / none`), box-sizing already subtracted.

Nothing is re-modelled here: `layoutTree` is `BlockTree.layoutNode` keeping the tree shape (proved in
Props/C05Tree), `toPBox` hands the used values to `PM.paginate`.  No Mathlib: linked into the driver.
-/
import WpModel.Model.BlockTree
import WpModel.Model.Paginate

namespace Wp.BlockTreeV
open Wp Wp.BoxModel Wp.BlockTree

/-- A laid-out (horizontally) tree: the geometry and the used values of every box, tree shape kept. -/
inductive HTree where
  | mk (g : Geo) (u : Used) (kids : List HTree)
  deriving Repr

mutual
/-- `BlockTree.layoutNode`, keeping the tree. -/
def layoutTree (cb : CB) (cbH : Len) (x : Rat) (inhDir : Dir) (inhFs : Rat) : Node → Except BErr HTree
  | .mk s kids => do
    let fs := match s.fontSize with | some f => f | none => inhFs
    let dir := match s.dir with | some d => d | none => inhDir
    let (g, u) ← layoutBox cb cbH x fs s
    let rest ← layoutTreeKids (.box g.w dir) u.height g.contentX dir fs kids
    pure (.mk g u rest)
def layoutTreeKids (cb : CB) (cbH : Len) (x : Rat) (inhDir : Dir) (inhFs : Rat) :
    List Node → Except BErr (List HTree)
  | [] => pure []
  | n :: ns => do
    let a ← layoutTree cb cbH x inhDir inhFs n
    let b ← layoutTreeKids cb cbH x inhDir inhFs ns
    pure (a :: b)
end

mutual
/-- Preorder list of the horizontal geometry. -/
def HTree.flat : HTree → List Geo
  | .mk g _ kids => g :: HTree.flatList kids
def HTree.flatList : List HTree → List Geo
  | [] => []
  | t :: ts => t.flat ++ HTree.flatList ts
end

mutual
def HTree.size : HTree → Nat
  | .mk _ _ kids => 1 + HTree.sizeList kids
def HTree.sizeList : List HTree → Nat
  | [] => 0
  | t :: ts => t.size + HTree.sizeList ts
end

/-- `max-height` as the pagination model reads it: `inf` (computed `none`, or a percentage against an auto
height) is "no maximum". -/
def maxOfExt : Ext → Except BErr (Option Rat)
  | .fin m => .ok (some m)
  | .inf => .ok none
  | _ => .error (.unsupported "max-height:nan")

/-- The style the pagination model needs, from the **used** values of one box: no break property, no named
page, `box-decoration-break: slice`. -/
def pstyleOf (g : Geo) (u : Used) (isRoot : Bool) : Except BErr PM.PStyle := do
  let maxH ← maxOfExt u.maxHeight
  pure { mt := g.mt, mb := g.mb, pt := g.pt, pb := g.pb, bt := g.bt, bb := g.bb,
         height := u.height, minH := u.minHeight, maxH,
         brkBefore := .auto, brkAfter := .auto, brkInside := .auto, clone := false, page := "",
         orphans := 2, widows := 2, isRoot }

mutual
/-- The tree as input of the pagination model; ids are preorder numbers from `next`. -/
def toPBox (isRoot : Bool) (next : Nat) : HTree → Except BErr (PM.PBox × Nat)
  | .mk g u kids => do
    let st ← pstyleOf g u isRoot
    let (ks, next') ← toPBoxKids (next + 1) kids
    pure (.block next st ks, next')
def toPBoxKids (next : Nat) : List HTree → Except BErr (List PM.PBox × Nat)
  | [] => pure ([], next)
  | t :: ts => do
    let (k, n1) ← toPBox false next t
    let (ks, n2) ← toPBoxKids n1 ts
    pure (k :: ks, n2)
end

mutual
/-- Preorder list of the vertical geometry of a page's fragments. -/
def fragFlat : PM.Frag → List PM.Geo
  | .para _ _ _ _ g _ => [g]
  | .block _ _ _ g kids => g :: fragFlatList kids
def fragFlatList : List PM.Frag → List PM.Geo
  | [] => []
  | f :: fs => fragFlat f ++ fragFlatList fs
end

/-- Full geometry of one box: the horizontal half, `position_y` (top of the margin box) and the used
height. -/
structure VGeo where
  g : Geo
  y : Rat
  h : Rat
  deriving Repr

def zipGeo (dy : Rat) : List Geo → List PM.Geo → List VGeo
  | g :: gs, v :: vs => { g, y := v.y + dy, h := v.h } :: zipGeo dy gs vs
  | _, _ => []

/-- The vertical half of a horizontally laid-out tree whose root is the root element, on a page whose
content box is `pageH` high and starts at `dy`: one page expected (`unsupported "pages"` otherwise — the
harness gives the page 2^20 px). -/
def verticalOf (pageH dy : Rat) (t : HTree) : Except BErr (List VGeo) := do
  let (root, _) ← toPBox true 0 t
  match PM.paginate { pageH, rootLtr := true, root } (2 * t.size + 8) with
  | some [p] =>
    let vs := fragFlat p.root
    if vs.length = t.flat.length then pure (zipGeo dy t.flat vs)
    else .error (.unsupported "fragments")
  | some _ => .error (.unsupported "pages")
  | none => .error (.assertion "make_page:root_box")

/-- A document: the page box (`layoutPage`), then every box of the root element's tree with its full
geometry.  The page box's own entry keeps the format of `BlockTree.layoutDoc` (`y = 0`, its used height). -/
def layoutDocV (devW devH : Rat) (page : NStyle) (root : Node) : Except BErr (VGeo × List VGeo) :=
  match root with
  | .mk s _ => do
    let rootFs := match s.fontSize with | some f => f | none => 16
    let rootDir := match s.dir with | some d => d | none => Dir.ltr
    let (pg, pageH) ← layoutPage devW devH rootFs page
    let t ← layoutTree (.box pg.w rootDir) (some pageH) pg.contentX rootDir rootFs root
    let vs ← verticalOf pageH (pg.mt + pg.bt + pg.pt) t
    pure ({ g := pg, y := 0, h := pageH }, vs)

end Wp.BlockTreeV
