/-
Model of the resource discipline of `weasyprint/images.py::Gradient.draw` on the multi-stream `World` of
Model/PdfStream: which shadings, groups and graphics states it registers on which stream, and which names its `sh`
operators use.

  solid gradient:   `stream.rectangle(…); stream.set_color(colors[0]); stream.fill()`
  otherwise:        `shading = stream.add_shading(…)`                     -- id `s{len(stream's /Shading)}`
                    `stream.transform(d=scale_y)`
                    if any stop is not opaque:
                        `alpha_stream = stream.set_alpha_state(0, 0, w, h)`   -- new group, own resource dictionary
                        `alpha_shading = alpha_stream.add_shading(…)`         -- id in the *group's* dictionary
                        `alpha_stream.transform(d=scale_y)`
                        `alpha_stream.stream = [f'/{alpha_shading.id} sh']`   -- replaces the `cm` just written
                    `stream.paint_shading(shading.id)`

The two shading ids live in two different resource dictionaries and are equal only when both dictionaries held the same
number of shadings.  Interpolation / stitching functions are pydyf dictionaries, not stream calls.  No Mathlib.
-/
import WpModel.Model.DrawSkeleton

namespace Wp.Pdf

/-- What `Gradient.draw` reads of `self.layout(…)` to decide its calls on streams. -/
structure GradProps where
  solid : Bool                 -- `type_ == 'solid'`
  translucent : Bool           -- `any(alpha != 1 for alpha in alphas)`
  scaleY : Num                 -- `scale_y`
  rect : String := "re"        -- the `re` item of the solid case
  colour : Colour := ⟨"srgb", .int 0, .int 0, .int 0, .int 1, .int 0, .int 0, .int 0⟩   -- `colors[0]` of the solid case
  deriving Repr

/-- `len(stream._resources['Shading'])`: the number the next `add_shading` on stream `h` puts in its id. -/
def shadingCount (w : World) (h : Nat) : Option Nat :=
  match w.streams[h]? with
  | none => none
  | some s => match w.res[s.res]? with
    | none => none
    | some r => some r.shading

/-- `stream.transform(d=scale_y)`. -/
def scaleCall (sy : Num) : Call := .transform (.int 1) (.int 0) (.int 0) sy (.int 0) (.int 0)

/-- The `if any(alpha != 1 …)` block: soft-mask group, its own grey shading, painted by the group's only operator. -/
def alphaStage (h : Nat) (sy : Num) : Stage := fun w =>
  let a := w.streams.length              -- the stream `set_alpha_state` is about to create
  w.step (.setAlphaState h) |>> fun w =>
  match shadingCount w a with
  | none => .error badHandle
  | some m =>
    w.step (.addShading a) |>> fun w => w.onCall a (scaleCall sy) |>> fun w => w.step (.assignSh a m)

/-- `Gradient.draw(stream, …)` with `stream` = handle `h`. -/
def drawGradient (w : World) (h : Nat) (p : GradProps) : Except PyErr World :=
  if p.solid then
    w.onCall h (.rawTok .path p.rect) |>> fun w => w.onCall h (.setColor p.colour false) |>>
    fun w => w.onCall h (.rawTok .paint "f")
  else
    match shadingCount w h with
    | none => .error badHandle
    | some n =>
      w.step (.addShading h) |>> fun w => w.onCall h (scaleCall p.scaleY) |>>
      stageIf p.translucent (alphaStage h p.scaleY) |>> fun w => w.onCall h (.paintShading n)

/-- A recorded `write_pdf` as the `docgrad` correspondence replays it: document calls, with every `Gradient.draw`
replaced by the model's own `drawGradient`. -/
inductive GItem where
  | call (c : WCall)
  | grad (h : Nat) (p : GradProps)

def runItems (w : World) : List GItem → Except PyErr World
  | [] => .ok w
  | .call c :: rest => match w.step c with
    | .ok w' => runItems w' rest
    | .error e => .error e
  | .grad h p :: rest => match drawGradient w h p with
    | .ok w' => runItems w' rest
    | .error e => .error e

/-- Executable form of "every name an operator uses is a key of the dictionary of the stream that emits it". -/
def opRefOKb (r : Res) : Op → Bool
  | .gs k _ => r.hasG k
  | .Do k => r.hasX k
  | .sh n => decide (n < r.shading)
  | .scn _ (some p) _ => decide (p < r.pattern.length)
  | _ => true

/-- Handles of the streams that name something their resource dictionary does not define. -/
def World.badRefs (w : World) : List Nat :=
  (List.range w.streams.length).filter (fun i =>
    match w.streams[i]? with
    | none => false
    | some s => match w.res[s.res]? with
      | none => true
      | some r => !s.rops.all (opRefOKb r))

end Wp.Pdf
