/-
C17 — the glyph → text table behind the ToUnicode CMap.

  draw_first_line (draw/text.py):  `if glyph not in font.cmap: font.cmap[glyph] = utf8_text[slice]`
                                   ↔ `record` / `recordAll`
  build_fonts_dictionary (pdf/fonts.py): one `<gggg> <utf-16-be…>` bfchar line per entry of `font.cmap`
                                   ↔ the table itself (`CMap`, insertion order, keys unique)
  a PDF reader mapping the glyphs of a text-showing operator back to text
                                   ↔ `decode`

Text is a list of UTF-16 code units (what the bfchar line holds).  No Mathlib.
-/
import WpModel.Model.Wire

namespace Wp.ToUnicode
open Wp

abbrev CMap := List (Nat × List Nat)

/-- `font.cmap.get(glyph)`: the first entry (a dict has one entry per key). -/
def lookup : CMap → Nat → Option (List Nat)
  | [], _ => none
  | (g', t) :: rest, g => if g' = g then some t else lookup rest g

/-- Map a glyph string back to text; `none` when a glyph has no entry. -/
def decode (m : CMap) : List Nat → Option (List Nat)
  | [] => some []
  | g :: gs =>
    match lookup m g, decode m gs with
    | some t, some ts => some (t ++ ts)
    | _, _ => none

/-- `if glyph not in font.cmap: font.cmap[glyph] = text`. -/
def record (m : CMap) (g : Nat) (t : List Nat) : CMap :=
  match lookup m g with
  | some _ => m
  | none => m ++ [(g, t)]

/-- The glyphs of the drawn text runs, in drawing order, each with the text of its cluster. -/
def recordAll (m : CMap) (pairs : List (Nat × List Nat)) : CMap :=
  pairs.foldl (fun m p => record m p.1 p.2) m

end Wp.ToUnicode
