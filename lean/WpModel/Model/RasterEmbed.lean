/-
Model of the *decision logic* of `weasyprint/images.py::RasterImage.__init__` and
`RasterImage.get_x_object` (for `dpi_ratio == 1`): which mode conversion is chosen from
(`pillow_image.mode`, `'transparency' in pillow_image.info`), whether the data is re-encoded or the
source bytes are passed through, which filter / colour space / `Colors` the image XObject gets and
whether it carries an `/SMask`.
Pillow itself is a parameter: the input is what `Image.open` reports (mode, transparency info,
format, APP14 segment), and two facts about Pillow are assumed and exercised by the correspondence:
`Image.convert` returns an image whose `.format` is `None`, and which modes `save(format='PNG')` /
`save(format='JPEG')` accept (`pngWritable`, `jpegWritable`; other modes raise `OSError`, which the
loader `get_image_from_uri` turns into "image not loaded": `loadRaster`).
Pixel values are not modelled; `faithful` says for which outcomes the embedded stream is a plain
8-bit Gray/RGB(+alpha) PNG stream of the normalised image, which the harness then checks by decoding.
No Mathlib: linked into `driver_c13`.
-/
import WpModel.Model.Wire

namespace Wp.RasterEmbed
open Wp

/-- Pillow image modes that reach `RasterImage` (anything else is `other`). -/
inductive PMode where
  | bilevel   -- '1'
  | L | LA | P | PA | RGB | RGBA | CMYK
  | I         -- 32-bit integer
  | I16       -- 'I;16' (16-bit greyscale PNG / TIFF)
  | F
  | other
  deriving Repr, DecidableEq

def PMode.ofPillow : String → PMode
  | "1" => .bilevel | "L" => .L | "LA" => .LA | "P" => .P | "PA" => .PA | "RGB" => .RGB | "RGBA" => .RGBA
  | "CMYK" => .CMYK | "I" => .I | "I;16" => .I16 | "F" => .F | _ => .other

def PMode.pillow : PMode → String
  | .bilevel => "1" | .L => "L" | .LA => "LA" | .P => "P" | .PA => "PA" | .RGB => "RGB" | .RGBA => "RGBA"
  | .CMYK => "CMYK" | .I => "I" | .I16 => "I;16" | .F => "F" | .other => "other"

/-- `pillow_image.format`. -/
inductive Fmt where
  | png | jpeg | mpo
  | other       -- GIF, TIFF, WEBP, BMP …, or `None` after `Image.convert`
  deriving Repr, DecidableEq

def Fmt.ofPillow : String → Fmt
  | "PNG" => .png | "JPEG" => .jpeg | "MPO" => .mpo | _ => .other

/-- What `Image.open` reports, and how the image reaches `RasterImage.__init__`. -/
structure Src where
  mode : PMode
  transparency : Bool      -- `'transparency' in pillow_image.info`
  format : Fmt
  app14 : Bool             -- the file has an Adobe APP14 segment
  rotated : Bool           -- `rotate_pillow_image` returned another image (`image_data = filename = None`)
  hasData : Bool           -- `image_data is not None` at the call
  deriving Repr, DecidableEq

structure Opts where
  optimize : Bool          -- `options['optimize_images']`
  quality : Bool           -- `options['jpeg_quality'] is not None`
  deriving Repr, DecidableEq

/-- Python exceptions of the mirrored code. -/
inductive Err where
  | osError (site : String)       -- Pillow: "cannot write mode X as PNG/JPEG"
  deriving Repr, DecidableEq

def Err.render : Err → String
  | .osError _ => "err:OSError"

/-- `if 'transparency' in info: convert('RGBA') elif mode in ('1', 'P', 'I'): convert('RGB')`:
the normalised mode and whether a conversion happened. -/
def normalise (m : PMode) (transparency : Bool) : PMode × Bool :=
  if transparency then (.RGBA, true)
  else match m with
    | .bilevel => (.RGB, true)
    | .P => (.RGB, true)
    | .I => (.RGB, true)
    | m => (m, false)

/-- Modes `pillow_image.save(format='PNG')` accepts (Pillow, assumed). -/
def pngWritable : PMode → Bool
  | .bilevel | .L | .LA | .P | .RGB | .RGBA | .I | .I16 => true
  | _ => false

/-- Modes `pillow_image.save(format='JPEG')` accepts (Pillow, assumed). -/
def jpegWritable : PMode → Bool
  | .bilevel | .L | .RGB | .CMYK => true
  | _ => false

/-- The state of a `RasterImage` after `__init__`. -/
structure Raster where
  mode : PMode             -- `self.mode`
  jpeg : Bool              -- `self.format == 'JPEG'`
  reencoded : Bool         -- `image_data` was produced by `pillow_image.save`, not the source bytes
  invert : Bool            -- `self.invert_colors`
  deriving Repr, DecidableEq

/-- `RasterImage.__init__` (decisions only). -/
def rasterInit (s : Src) (o : Opts) : Except Err Raster :=
  let hasData := s.hasData && !s.rotated
  let n := normalise s.mode s.transparency
  let mode := n.1
  -- `Image.convert` returns an image without `.format`; the rotation restores it explicitly
  let format := if n.2 then Fmt.other else s.format
  let invert := mode == .CMYK && s.app14
  if format == .jpeg || format == .mpo then
    if !hasData || o.optimize || o.quality then
      if jpegWritable mode then .ok ⟨mode, true, true, invert⟩
      else .error (.osError "RasterImage.__init__.save(JPEG)")
    else .ok ⟨mode, true, false, invert⟩
  else
    if !hasData || o.optimize || format != .png then
      if pngWritable mode then .ok ⟨mode, false, true, invert⟩
      else .error (.osError "RasterImage.__init__.save(PNG)")
    else .ok ⟨mode, false, false, invert⟩

/-- The decisions of `get_x_object(interpolate, 1)`. -/
structure XObject where
  colorSpace : String
  filter : String
  colors3 : Bool           -- `DecodeParms/Colors = 3`
  smask : Bool             -- an `/SMask` image is attached
  decodeInverted : Bool    -- `/Decode [1 0 1 0 1 0 1 0]`
  deriving Repr, DecidableEq

def colorSpaceOf : PMode → String
  | .RGB | .RGBA => "/DeviceRGB"
  | .L | .LA => "/DeviceGray"
  | .CMYK => "/DeviceCMYK"
  | _ => "/DeviceRGB"        -- `LOGGER.warning('Unknown image mode')`

def xObject (r : Raster) : XObject :=
  if r.jpeg then ⟨colorSpaceOf r.mode, "/DCTDecode", false, false, r.invert⟩
  else
    ⟨colorSpaceOf r.mode, "/FlateDecode", r.mode == .RGB || r.mode == .RGBA,
     r.mode == .RGBA || r.mode == .LA, false⟩

/-- The image has an alpha channel or transparency information. -/
def hasAlpha (s : Src) : Bool := s.transparency || s.mode == .LA || s.mode == .RGBA || s.mode == .PA

/-- The FlateDecode stream is an 8-bit Gray / RGB (+ alpha mask) rendition of the normalised image:
the harness decodes it and compares with Pillow's `convert('RGBA')` of the source. -/
def faithful (r : Raster) : Bool :=
  !r.jpeg && (r.mode == .L || r.mode == .LA || r.mode == .RGB || r.mode == .RGBA)

/-- `__init__` then `get_x_object`. -/
def embed (s : Src) (o : Opts) : Except Err (Raster × XObject) :=
  match rasterInit s o with
  | .ok r => .ok (r, xObject r)
  | .error e => .error e

/-- The raster branch of `get_image_from_uri` once `Image.open` has succeeded (repair d7dc388):
`try: image = RasterImage(...) except Exception as exception: raise ImageLoadingError.from_exception(…)`,
and the outer `except (URLFetchingError, ImageLoadingError)` logs "Failed to load image" and returns
`None`: an image that Pillow opens but cannot re-encode is *not loaded* (the caller renders the
alternative text), it no longer aborts the rendering.  `none` = `None`. -/
def loadRaster (s : Src) (o : Opts) : Option Raster :=
  match rasterInit s o with
  | .ok r => some r
  | .error _ => none

/-- `get_image_from_uri` then `get_x_object(interpolate, 1)` on the loaded image. -/
def loadEmbed (s : Src) (o : Opts) : Option (Raster × XObject) :=
  (loadRaster s o).map (fun r => (r, xObject r))

end Wp.RasterEmbed
