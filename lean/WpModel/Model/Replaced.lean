/-
Model of `weasyprint/layout/replaced.py` (every function), of the two decorators of
`weasyprint/layout/min_max.py` as they are used there, and of `block_level_width`
(`weasyprint/layout/block.py`), which `replaced_box_width` / `block_replaced_width` call.

Mirrors the Python branch for branch, quirks included:
* `'auto'` is `none : Len`; `max-width: none` (used value `inf`) is `none : MaxLen`.
* Python failure points are explicit (`Except Err α`): `/ 0` → `zeroDivision`, an order comparison
  or arithmetic on `'auto'` / `None` → `typeError`, `assert` → `assertion`.
* `replaced_box_height` stores `None` in `box.height` when both sizes are `'auto'` and the image has
  no intrinsic height; the next statement of every caller compares it with a number (TypeError).
  The model raises that TypeError at the store (see `rbhCore`).
* `handle_min_max_width` saves `box.position_x` before the first call and restores it before each re-run
  (repair 165e254: the wrapped `block_level_width` shifts an over-constrained rtl box; `mmwMax` / `mmwMin`).
* the `1e-6` of `min_max_auto_replaced` and the 300 / 150 defaults come from `Gen/ReplacedConsts`
  (regenerated from the source).
No Mathlib, no Std: linked into `driver_c13`.
-/
import WpModel.Model.Wire
import WpModel.Gen.ReplacedConsts

namespace Wp.Replaced
open Wp

/-- Python exceptions that the mirrored code can raise. -/
inductive Err where
  | zeroDivision (site : String)
  | typeError (site : String)
  | assertion (site : String)
  deriving Repr, DecidableEq

/-- Same string as `harness.docs.outcome` (exception class only; the site is documentation). -/
def Err.render : Err → String
  | .zeroDivision _ => "err:ZeroDivisionError"
  | .typeError _ => "err:TypeError"
  | .assertion _ => "err:AssertionError"

/-- used `max-width` / `max-height`: `none` is `inf`. -/
abbrev MaxLen := Option Rat

def showMax : MaxLen → String
  | none => "inf"
  | some q => showRat q

/-- Python `a / b` on numbers. -/
def pyDiv (site : String) (a b : Rat) : Except Err Rat :=
  if b = 0 then .error (.zeroDivision site) else .ok (a / b)

/-- A value that must be a number where Python does arithmetic / ordering on it. -/
def num (site : String) : Len → Except Err Rat
  | some q => .ok q
  | none => .error (.typeError site)

/-- `x > m` with `m` possibly `inf`. -/
def gtMax (x : Rat) : MaxLen → Bool
  | none => false
  | some m => decide (x > m)

/-- `max(lo, m)` with `m` possibly `inf`. -/
def capMax (lo : Rat) : MaxLen → MaxLen
  | none => none
  | some m => some (max lo m)

/-- `min(x, m)` with `m` possibly `inf`. -/
def minExt (x : Rat) : MaxLen → Rat
  | none => x
  | some m => min x m

/-- `image.get_intrinsic_size(...)`: each of width, height, ratio possibly `None`. -/
structure Intr where
  w : Option Rat
  h : Option Rat
  ratio : Option Rat
  deriving Repr, BEq

/-! ## Concrete object size: `default_image_sizing`, `contain/cover_constraint_image_sizing` -/

/-- `_constraint_image_sizing(constraint_width, constraint_height, intrinsic_ratio, cover)`. -/
def constraintSizing (cw ch : Rat) (ratio : Option Rat) (cover : Bool) : Except Err (Rat × Rat) :=
  match ratio with
  | none => .ok (cw, ch)
  | some r =>
    if xor cover (decide (cw > ch * r)) then .ok (ch * r, ch)
    else do
      let h ← pyDiv "constraint.cw/ratio" cw r
      pure (cw, h)

def containSizing (cw ch : Rat) (ratio : Option Rat) := constraintSizing cw ch ratio false
def coverSizing (cw ch : Rat) (ratio : Option Rat) := constraintSizing cw ch ratio true

/-- The three branches of `default_image_sizing` with at least one specified size; `fallback` is
the last `else`. (`'auto'` and `None` are both `none`.) -/
def disSpecified (i : Intr) (sw sh : Len) (dw dh : Rat) (fallback : Except Err (Rat × Rat)) :
    Except Err (Rat × Rat) :=
  match sw, sh with
  | some w, some h => .ok (w, h)
  | some w, none =>
    match i.ratio with
    | some r => do
      let h ← pyDiv "dis.sw/ratio" w r
      pure (w, h)
    | none =>
      match i.h with
      | some h => .ok (w, h)
      | none => .ok (w, dh)
  | none, some h =>
    match i.ratio with
    | some r => .ok (h * r, h)
    | none =>
      match i.w with
      | some w => .ok (w, h)
      | none => .ok (dw, h)
  | none, none => fallback

/-- `default_image_sizing(iw, ih, ratio, specified_width, specified_height, default_width,
default_height)`.  The recursive call (specified := intrinsic) has a specified size, so one
unfolding is the whole recursion. -/
def defaultImageSizing (i : Intr) (sw sh : Len) (dw dh : Rat) : Except Err (Rat × Rat) :=
  disSpecified i sw sh dw dh
    (if i.w.isSome || i.h.isSome then
      disSpecified i i.w i.h dw dh (containSizing dw dh i.ratio)
    else containSizing dw dh i.ratio)

/-! ## `percentage` on `Dimension`s -/

/-- A computed `<length-percentage>`: `Dimension(value, 'px' | '%')`. -/
inductive Dim where
  | px (v : Rat)
  | pct (v : Rat)
  deriving Repr, BEq

/-- `percentage(value, refer_to)` for a `Dimension`. -/
def percentage (d : Dim) (referTo : Rat) : Rat :=
  match d with
  | .px v => v
  | .pct v => referTo * v / 100

/-! ## `replacedbox_layout` -/

inductive ObjectFit where
  | fill | contain | cover | none | scaleDown
  | other            -- any other string: `assert object_fit == 'none'` fails
  deriving Repr, DecidableEq

def ObjectFit.ofCss : String → ObjectFit
  | "fill" => .fill | "contain" => .contain | "cover" => .cover | "none" => .none
  | "scale-down" => .scaleDown | _ => .other

/-- One entry of `object-position` / `background-position`:
`(origin_x, position_x, origin_y, position_y)`; only `right` / `bottom` are tested. -/
structure Position where
  fromRight : Bool
  x : Dim
  fromBottom : Bool
  y : Dim
  deriving Repr, BEq

/-- `position_x = percentage(position_x, ref_x); if origin_x == 'right': position_x = ref_x - position_x`. -/
def placeAxis (fromFar : Bool) (d : Dim) (ref : Rat) : Rat :=
  let p := percentage d ref
  if fromFar then ref - p else p

/-- Geometry of a laid-out box (used values, all numbers). -/
structure Geom where
  x : Rat
  y : Rat
  mt : Rat
  mr : Rat
  mb : Rat
  ml : Rat
  bt : Rat
  br : Rat
  bb : Rat
  bl : Rat
  pt : Rat
  pr : Rat
  pb : Rat
  pl : Rat
  width : Rat
  height : Rat
  deriving Repr, BEq

namespace Geom
def contentBoxX (g : Geom) : Rat := g.x + g.ml + g.pl + g.bl
def contentBoxY (g : Geom) : Rat := g.y + g.mt + g.pt + g.bt
def paddingBoxX (g : Geom) : Rat := g.x + g.ml + g.bl
def paddingBoxY (g : Geom) : Rat := g.y + g.mt + g.bt
def borderBoxX (g : Geom) : Rat := g.x + g.ml
def borderBoxY (g : Geom) : Rat := g.y + g.mt
def paddingWidth (g : Geom) : Rat := g.width + g.pl + g.pr
def paddingHeight (g : Geom) : Rat := g.height + g.pt + g.pb
def borderWidth (g : Geom) : Rat := g.paddingWidth + g.bl + g.br
def borderHeight (g : Geom) : Rat := g.paddingHeight + g.bt + g.bb
def marginWidth (g : Geom) : Rat := g.borderWidth + g.ml + g.mr
def marginHeight (g : Geom) : Rat := g.borderHeight + g.mt + g.mb
end Geom

/-- Result of `replacedbox_layout`: `(draw_width, draw_height, position_x, position_y)`. -/
structure DrawRect where
  w : Rat
  h : Rat
  x : Rat
  y : Rat
  deriving Repr, BEq

/-- `if None in (intrinsic_width, intrinsic_height):` contain constraint on the content box. -/
def layoutIntrinsic (g : Geom) (i : Intr) : Except Err (Rat × Rat) :=
  match i.w, i.h with
  | some w, some h => .ok (w, h)
  | _, _ => containSizing g.width g.height i.ratio

/-- `(draw_width, draw_height)` for each `object-fit`; `iw`, `ih`: the intrinsic size just computed. -/
def drawSize (g : Geom) (fit : ObjectFit) (ratio : Option Rat) (iw ih : Rat) : Except Err (Rat × Rat) :=
  match fit with
  | .fill => .ok (g.width, g.height)
  | .contain => containSizing g.width g.height ratio
  | .scaleDown => do
    let c ← containSizing g.width g.height ratio
    pure (min c.1 iw, min c.2 ih)
  | .cover => coverSizing g.width g.height ratio
  | .none => .ok (iw, ih)
  | .other => .error (.assertion "replacedbox_layout.object_fit")

/-- The position part of `replacedbox_layout`: percentages of the free space, from the named edge,
then the content-box origin. -/
def placeRect (g : Geom) (pos : Position) (dw dh : Rat) : DrawRect :=
  let refX := g.width - dw
  let refY := g.height - dh
  ⟨dw, dh, placeAxis pos.fromRight pos.x refX + g.contentBoxX,
   placeAxis pos.fromBottom pos.y refY + g.contentBoxY⟩

/-- `replacedbox_layout(box)`; `i` is what `box.replacement.get_intrinsic_size(...)` returned. -/
def replacedboxLayout (g : Geom) (fit : ObjectFit) (pos : Position) (i : Intr) : Except Err DrawRect := do
  let intr ← layoutIntrinsic g i
  let d ← drawSize g fit i.ratio intr.1 intr.2
  pure (placeRect g pos d.1 d.2)

/-! ## Used width / height -/

/-- The attributes of a replaced box read and written by the sizing functions. -/
structure RBox where
  width : Len
  height : Len
  marginLeft : Len
  marginRight : Len
  marginTop : Len
  marginBottom : Len
  paddingLeft : Rat
  paddingRight : Rat
  borderLeft : Rat
  borderRight : Rat
  minWidth : Rat
  maxWidth : MaxLen
  minHeight : Rat
  maxHeight : MaxLen
  positionX : Rat
  isColumn : Bool
  deriving Repr, BEq

/-- The containing block as the width functions see it: `cb_width` (`containing_block.width`, or
element `[0]` of a tuple) and the direction (`'ltr'` for a tuple). -/
structure Cb where
  width : Rat
  rtl : Bool
  deriving Repr, BEq

/-- `paddings_plus_borders` of `block_level_width`. -/
def RBox.pb (b : RBox) : Rat := b.paddingLeft + b.paddingRight + b.borderLeft + b.borderRight

/-- `if box.width != 'auto': total = …; if total > cb_width:` auto margins become 0. -/
def blwOverflow (b : RBox) (cb : Cb) : RBox :=
  match b.width with
  | some w =>
    let total := b.pb + w + (b.marginLeft.getD 0) + (b.marginRight.getD 0)
    if total > cb.width then
      { b with marginLeft := some (b.marginLeft.getD 0), marginRight := some (b.marginRight.getD 0) }
    else b
  | none => b

/-- `if width != 'auto' and margin_l != 'auto' and margin_r != 'auto':` over-constrained; rtl moves
the box, ltr does nothing (the stored `margin_right` is not recomputed). -/
def blwOverConstrained (b : RBox) (cb : Cb) : RBox :=
  match b.width, b.marginLeft, b.marginRight with
  | some w, some ml, some mr =>
    if cb.rtl && !b.isColumn then { b with positionX := b.positionX + (cb.width - b.pb - w - mr - ml) } else b
  | _, _, _ => b

/-- `if width == 'auto':` auto margins become 0, the width comes from the equation. -/
def blwAutoWidth (b : RBox) (cb : Cb) : RBox :=
  match b.width with
  | none =>
    let ml := b.marginLeft.getD 0
    let mr := b.marginRight.getD 0
    { b with marginLeft := some ml, marginRight := some mr, width := some (cb.width - (b.pb + ml + mr)) }
  | some _ => b

/-- `margin_sum = cb_width - paddings_plus_borders - width` shared between the auto margins; `w` is
the (now numeric) width. -/
def blwMargins (b : RBox) (cb : Cb) (w : Rat) : RBox :=
  let marginSum := cb.width - b.pb - w
  match b.marginLeft, b.marginRight with
  | none, none => { b with marginLeft := some (marginSum / 2), marginRight := some (marginSum / 2) }
  | none, some mr => { b with marginLeft := some (marginSum - mr) }
  | some ml, none => { b with marginRight := some (marginSum - ml) }
  | some _, some _ => b

/-- `block_level_width.without_min_max(box, containing_block)` (block.py). -/
def blwCore (b : RBox) (cb : Cb) : RBox :=
  let b := blwAutoWidth (blwOverConstrained (blwOverflow b cb) cb) cb
  match b.width with
  | none => b      -- not reachable: `blwAutoWidth` has set the width
  | some w => blwMargins b cb w

/-- `if box.width > box.max_width:` of `handle_min_max_width` (`ml`, `mr`: the computed margins and
`px`: the `position_x` saved before the first call; the wrapped function may have shifted an rtl
box, and the shift must not be applied twice — every box of this model has a `position_x`, so the
`if position_x is not None` guard is always taken). -/
def mmwMax (f : RBox → Except Err RBox) (ml mr : Len) (px : Rat) (b : RBox) : Except Err RBox := do
  let w ← num "min_max.width>max_width" b.width
  match b.maxWidth with
  | some m =>
    if w > m then f { b with width := some m, marginLeft := ml, marginRight := mr, positionX := px }
    else pure b
  | none => pure b

/-- `if box.width < box.min_width:` of `handle_min_max_width`. -/
def mmwMin (f : RBox → Except Err RBox) (ml mr : Len) (px : Rat) (b : RBox) : Except Err RBox := do
  let w ← num "min_max.width<min_width" b.width
  if w < b.minWidth then
    f { b with width := some b.minWidth, marginLeft := ml, marginRight := mr, positionX := px }
  else pure b

/-- `handle_min_max_width(function)` (min_max.py). -/
def withMinMaxWidth (f : RBox → Except Err RBox) (b : RBox) : Except Err RBox := do
  let b1 ← f b
  let b2 ← mmwMax f b.marginLeft b.marginRight b.positionX b1
  mmwMin f b.marginLeft b.marginRight b.positionX b2

def mmhMax (f : RBox → Except Err RBox) (mt mb : Len) (b : RBox) : Except Err RBox := do
  let h ← num "min_max.height>max_height" b.height
  match b.maxHeight with
  | some m => if h > m then f { b with height := some m, marginTop := mt, marginBottom := mb } else pure b
  | none => pure b

def mmhMin (f : RBox → Except Err RBox) (mt mb : Len) (b : RBox) : Except Err RBox := do
  let h ← num "min_max.height<min_height" b.height
  if h < b.minHeight then
    f { b with height := some b.minHeight, marginTop := mt, marginBottom := mb }
  else pure b

/-- `handle_min_max_height(function)` (min_max.py). -/
def withMinMaxHeight (f : RBox → Except Err RBox) (b : RBox) : Except Err RBox := do
  let b1 ← f b
  let b2 ← mmhMax f b.marginTop b.marginBottom b1
  mmhMin f b.marginTop b.marginBottom b2

/-- `block_level_width(box, containing_block)` (decorated). -/
def blockLevelWidth (b : RBox) (cb : Cb) : Except Err RBox :=
  withMinMaxWidth (fun b => .ok (blwCore b cb)) b

/-- `replaced_box_width.without_min_max(box, containing_block)`. -/
def rbwCore (i : Intr) (cb : Cb) (b : RBox) : Except Err RBox := do
  let b ← if b.height.isNone && b.width.isNone then
      match i.w with
      | some w => pure { b with width := some w }                    -- point 1
      | none =>
        match i.ratio with
        | some r =>
          match i.h with
          | some h => pure { b with width := some (h * r) }          -- point 2, first part
          | none => blockLevelWidth b cb                              -- point 3
        | none => pure b
    else pure b
  match b.width with
  | some _ => pure b
  | none =>
    match i.ratio with
    | some r => do
      let h ← num "replaced_box_width.height*ratio" b.height         -- point 2, second part
      pure { b with width := some (h * r) }
    | none =>
      match i.w with
      | some w => pure { b with width := some w }                    -- point 4
      | none => pure { b with width := some Gen.replacedDefaultWidth }   -- point 5

/-- `replaced_box_width(box, containing_block)` (decorated). -/
def replacedBoxWidth (i : Intr) (cb : Cb) (b : RBox) : Except Err RBox :=
  withMinMaxWidth (rbwCore i cb) b

/-- `replaced_box_height.without_min_max(box)`.
Where Python stores `None` into `box.height` the model raises the TypeError that the next
comparison of every caller raises. -/
def rbhCore (i : Intr) (b : RBox) : Except Err RBox := do
  -- first if / elif
  let b ← if b.height.isNone && b.width.isNone then
      match i.h with
      | some h => pure { b with height := some h }
      | none => throw (.typeError "replaced_box_height.height=None")
    else if b.height.isNone then
      match i.ratio with
      | some r =>
        if r != 0 then do                                   -- `and ratio`: truthiness
          let w ← num "replaced_box_height.width/ratio" b.width
          let h ← pyDiv "replaced_box_height.width/ratio" w r
          pure { b with height := some h }
        else pure b
      | none => pure b
    else pure b
  -- second chain
  if b.height.isNone && b.width.isNone && i.h.isSome then
    pure { b with height := i.h }
  else
    match i.ratio, b.height with
    | some r, none => do                                    -- `ratio is not None and height == 'auto'`
      let w ← num "replaced_box_height.width/ratio'" b.width
      let h ← pyDiv "replaced_box_height.width/ratio'" w r
      pure { b with height := some h }
    | _, _ =>
      match b.height, i.h with
      | none, some h => pure { b with height := some h }
      | none, none => pure { b with height := some Gen.replacedDefaultHeight }
      | some _, _ => pure b

/-- `replaced_box_height(box)` (decorated). -/
def replacedBoxHeight (i : Intr) (b : RBox) : Except Err RBox :=
  withMinMaxHeight (rbhCore i) b

/-- `'min' | 'max' | ''` of `min_max_auto_replaced`. -/
inductive Viol where
  | ok | min | max
  deriving Repr, DecidableEq

def Viol.css : Viol → String
  | .ok => "" | .min => "min" | .max => "max"

/-- `'min' if x < lo else 'max' if x > hi else ''`. -/
def viol (x lo : Rat) (hi : MaxLen) : Viol :=
  if x < lo then .min else if gtMax x hi then .max else .ok

/-- A `max` violation happened, so the bound is finite. -/
def finite (site : String) : MaxLen → Except Err Rat
  | some m => .ok m
  | none => .error (.typeError site)

/-- `min_max_auto_replaced` on numbers: `(box.width, box.height)` afterwards; `epsW` / `epsH` are
the two `1e-6` literals. -/
def mmarCoreWith (epsW epsH : Rat) (w h minW minH : Rat) (maxW0 maxH0 : MaxLen) :
    Except Err (Rat × Rat) := do
  let maxW := capMax minW maxW0
  let maxH := capMax minH maxH0
  let vw := viol w minW maxW
  let vh := viol h minH maxH
  -- work around divisions by zero
  let w' := if w = 0 then epsW else w
  let h' := if h = 0 then epsH else h
  match vw, vh with
  | .ok, .ok => pure (w, h)
  | .max, .ok => do
    let mw ← finite "mmar.max_width" maxW
    let x ← pyDiv "mmar" (mw * h') w'
    pure (mw, max x minH)
  | .min, .ok => do
    let x ← pyDiv "mmar" (minW * h') w'
    pure (minW, minExt x maxH)
  | .ok, .max => do
    let mh ← finite "mmar.max_height" maxH
    let x ← pyDiv "mmar" (mh * w') h'
    pure (max x minW, mh)
  | .ok, .min => do
    let x ← pyDiv "mmar" (minH * w') h'
    pure (minExt x maxW, minH)
  | .max, .max => do
    let mw ← finite "mmar.max_width" maxW
    let mh ← finite "mmar.max_height" maxH
    let a ← pyDiv "mmar" mw w'
    let b ← pyDiv "mmar" mh h'
    if a ≤ b then do
      let x ← pyDiv "mmar" (mw * h') w'
      pure (mw, max minH x)
    else do
      let x ← pyDiv "mmar" (mh * w') h'
      pure (max minW x, mh)
  | .min, .min => do
    let a ← pyDiv "mmar" minW w'
    let b ← pyDiv "mmar" minH h'
    if a ≤ b then do
      let x ← pyDiv "mmar" (minH * w') h'
      pure (minExt x maxW, minH)
    else do
      let x ← pyDiv "mmar" (minW * h') w'
      pure (minW, minExt x maxH)
  | .min, .max => do
    let mh ← finite "mmar.max_height" maxH
    pure (minW, mh)
  | .max, .min => do
    let mw ← finite "mmar.max_width" maxW
    pure (mw, minH)

/-- `min_max_auto_replaced` with the literals of the source (`Gen/ReplacedConsts`). -/
def mmarCore (w h minW minH : Rat) (maxW0 maxH0 : MaxLen) : Except Err (Rat × Rat) :=
  mmarCoreWith Gen.minMaxEpsWidth Gen.minMaxEpsHeight w h minW minH maxW0 maxH0

/-- `min_max_auto_replaced(box)`. -/
def minMaxAutoReplaced (b : RBox) : Except Err RBox := do
  let w ← num "mmar.width" b.width
  let h ← num "mmar.height" b.height
  let (w', h') ← mmarCore w h b.minWidth b.minHeight b.maxWidth b.maxHeight
  pure { b with width := some w', height := some h' }

/-- `inline_replaced_box_width_height(box, containing_block)`; `styleBothAuto` is
`box.style['width'] == box.style['height'] == 'auto'` (computed values, not the used ones). -/
def inlineReplacedWH (styleBothAuto : Bool) (i : Intr) (cb : Cb) (b : RBox) : Except Err RBox :=
  if styleBothAuto then do
    let b ← rbwCore i cb b
    let b ← rbhCore i b
    minMaxAutoReplaced b
  else do
    let b ← replacedBoxWidth i cb b
    replacedBoxHeight i b

/-- `inline_replaced_box_layout(box, containing_block)`. -/
def inlineReplacedBoxLayout (styleBothAuto : Bool) (i : Intr) (cb : Cb) (b : RBox) : Except Err RBox :=
  let b := { b with
    marginTop := some (b.marginTop.getD 0), marginRight := some (b.marginRight.getD 0),
    marginBottom := some (b.marginBottom.getD 0), marginLeft := some (b.marginLeft.getD 0) }
  inlineReplacedWH styleBothAuto i cb b

/-- `block_replaced_width.without_min_max`. -/
def brwCore (i : Intr) (cb : Cb) (b : RBox) : Except Err RBox := do
  let b ← rbwCore i cb b
  pure (blwCore b cb)

/-- `block_replaced_width(box, containing_block)` (decorated). -/
def blockReplacedWidth (i : Intr) (cb : Cb) (b : RBox) : Except Err RBox :=
  withMinMaxWidth (brwCore i cb) b

/-- The sizing part of `block_replaced_box_layout(context, box, containing_block)`
(everything before `avoid_collisions`). -/
def blockReplacedSizing (styleBothAuto : Bool) (i : Intr) (cb : Cb) (b : RBox) : Except Err RBox :=
  if styleBothAuto then do
    let ml := b.marginLeft
    let mr := b.marginRight
    let b ← brwCore i cb b
    let b ← rbhCore i b
    let b ← minMaxAutoReplaced b
    let b := { b with marginLeft := ml, marginRight := mr }
    pure (blwCore b cb)
  else do
    let b ← blockReplacedWidth i cb b
    replacedBoxHeight i b

/-- `avoid_collisions(context, box, containing_block, outer=False)` when
`context.excluded_shapes` is empty and the box is a non-floated block replaced box:
`(position_x, position_y)`.  `cbContentX` is `containing_block.content_box_x()`,
`borderBoxY` is `box.border_box_y()`, `mt` the used top margin. -/
def avoidCollisionsNoFloats (b : RBox) (cbContentX : Rat) (cb : Cb) (positionY : Rat) :
    Except Err (Rat × Rat) := do
  let w ← num "avoid_collisions.width" b.width
  let ml ← num "avoid_collisions.margin_left" b.marginLeft
  let mr ← num "avoid_collisions.margin_right" b.marginRight
  let mt ← num "avoid_collisions.margin_top" b.marginTop
  let boxWidth := w + b.paddingLeft + b.paddingRight + b.borderLeft + b.borderRight
  let maxLeft := cbContentX + ml
  let maxRight := cbContentX + cb.width - mr
  let px := if cb.rtl then maxRight - boxWidth else maxLeft
  -- position_y = box.border_box_y() = position_y + margin_top; then `position_y -= box.margin_top`
  pure (px - ml, positionY + mt - mt)

/-- `block_replaced_box_layout` without floats: sizes, margins and position. -/
def blockReplacedBoxLayout (styleBothAuto : Bool) (i : Intr) (cb : Cb) (cbContentX positionY : Rat)
    (b : RBox) : Except Err (RBox × Rat × Rat) := do
  let b ← blockReplacedSizing styleBothAuto i cb b
  let (x, y) ← avoidCollisionsNoFloats b cbContentX cb positionY
  pure ({ b with positionX := x }, x, y)

/-! ## Raster images -/

/-- `RasterImage.get_intrinsic_size(resolution, font_size)` for an image of `pw × ph` pixels.
`ratio` is `RasterImage.ratio`: the *double* `width / height` computed once in `__init__` (the
harness passes its exact value; it equals `pw / ph` when that quotient is dyadic; `inf` for a zero
height is outside the model). -/
def rasterIntrinsic (pw ph res ratio : Rat) : Except Err Intr := do
  let w ← pyDiv "get_intrinsic_size.width/resolution" pw res
  let h ← pyDiv "get_intrinsic_size.height/resolution" ph res
  pure ⟨some w, some h, some ratio⟩

/-- Python truthiness of an optional number: not `None` and not zero. -/
def truthy : Option Rat → Bool
  | some v => v != 0
  | none => false

/-- `SVGImage.get_intrinsic_size(image_resolution, font_size)` (images.py): `w`, `h` are what
`SVG.get_intrinsic_size` returned (`None` for a missing or percentage attribute), `viewbox` the
width and height of the `viewBox` if there is one. -/
def svgIntrinsic (w h : Option Rat) (viewbox : Option (Rat × Rat)) : Except Err Intr :=
  match w, h with
  | some w', some h' =>
    -- `elif width and height: ratio = width / height  else: ratio = 1`
    if w' != 0 && h' != 0 then .ok ⟨w, h, some (w' / h')⟩ else .ok ⟨w, h, some 1⟩
  | _, _ =>
    match viewbox with
    | some (vw, vh) =>
      if vw != 0 && vh != 0 then
        let ratio := vw / vh
        if truthy w then do
          let h2 ← pyDiv "SVGImage.width/ratio" (w.getD 0) ratio
          pure ⟨w, some h2, some ratio⟩
        else if truthy h then pure ⟨some ((h.getD 0) * ratio), h, some ratio⟩
        else pure ⟨w, h, some ratio⟩
      else .ok ⟨w, h, none⟩
    | none => .ok ⟨w, h, none⟩

end Wp.Replaced
