/-
`list-style-type` values: mirror of the single-token validator `list_style_type`
(weasyprint/css/validation/properties.py), which validates the `list-style-type` property and — through
`check_counter_function` — the counter-style argument of `counter()` / `counters()`:
an identifier as written, a string, or a `symbols()` function
  symbols( [cyclic | numeric | alphabetic | symbolic | fixed]? <string>+ )
with at least two strings for `numeric` and `alphabetic`.  The value goes to `CounterStyle.resolve_counter`
(`Model/Counters.resolveCounter`: the anonymous styles) as it is.
`none` is Python's `None` (invalid value).  No Mathlib, no Std: linked into the compiled driver.
-/
import WpModel.Model.ContentFns

namespace Wp.ListStyleType
open Wp.Counters Wp.ContentFns

/-- The token handed to the validator: a plain token, or a function token with its name as written and its
arguments (white space removed; commas are tokens like any other). -/
inductive StyleTok where
  | tok (t : ATok)
  | func (name : String) (args : List ATok)
  deriving Repr, DecidableEq

def allowedTypes : List String := ["cyclic", "numeric", "alphabetic", "symbolic", "fixed"]

/-- `for i in range(index, len(function_arguments)): if type != 'string': return; arguments.append(value)`. -/
def allStrings : List ATok → Option (List String)
  | [] => some []
  | .str v :: rest => (allStrings rest).map (v :: ·)
  | _ :: _ => none

/-- The `symbols()` branch on `remove_whitespace(token.arguments)`. -/
def symbolsFn (args : List ATok) : Option CName :=
  match args with
  | [] => none                                         -- `len(function_arguments) >= 1`
  | .ident v :: rest =>
    if allowedTypes.contains v then
      if rest.length < 1 then none                     -- `len(function_arguments) < index + 1`
      else match allStrings rest with
        | none => none
        | some strs =>
          if (v = "alphabetic" || v = "numeric") && strs.length + 1 < 3 then none
          else some (.symbols v strs)
    else none
  | first :: rest =>
    match allStrings (first :: rest) with
    | none => none
    | some strs => some (.symbols "symbolic" strs)

/-- `list_style_type(token)`. -/
def listStyleType : StyleTok → Option CName
  | .tok (.ident v) => some (.named v)
  | .tok (.str v) => some (.str v)
  | .tok _ => none
  | .func name args => if name = "symbols" then symbolsFn args else none

end Wp.ListStyleType
