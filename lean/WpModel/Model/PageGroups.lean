/-
Page groups (css-gcpm `:nth(an+b of name)`): mirror of weasyprint/layout/page.py
  `_includes_resume_at`, `_update_page_groups`
over `resume_at` structures (nested dicts `{index: None | {…}}`) and the box tree (`style['page']`,
`isinstance(box, ParentBox)`, `is_in_normal_flow()`).
Python failure points are explicit: unpacking `(k, v), = d.items()` of a dict that does not have
exactly one item (`ValueError`), `None.items()` (`AttributeError`), `children[i]` (`IndexError`),
`tuple(d.items())[-1]` of an empty dict (`IndexError`).
No Mathlib, no Std: linked into the compiled driver.
-/
import WpModel.Model.Wire

namespace Wp.PageGroups
open Wp

mutual
/-- A `resume_at` value: `None` or a dict in insertion order. -/
inductive RA where
  | none
  | dict (es : REntries)
inductive REntries where
  | nil
  | cons (k : Nat) (v : RA) (rest : REntries)
end

instance : Inhabited RA := ⟨.none⟩

def REntries.length : REntries → Nat
  | .nil => 0
  | .cons _ _ r => r.length + 1

/-- `d.get(k)` (first matching key; keys of a dict are unique). -/
def REntries.lookup : REntries → Nat → Option RA
  | .nil, _ => Option.none
  | .cons k v r, q => if k == q then some v else r.lookup q

/-- `tuple(d.items())[-1]`. -/
def REntries.last? : REntries → Option (Nat × RA)
  | .nil => Option.none
  | .cons k v .nil => some (k, v)
  | .cons _ _ r => r.last?

mutual
def RA.beq : RA → RA → Bool
  | .none, .none => true
  | .dict a, .dict b => REntries.beq a b
  | _, _ => false
def REntries.beq : REntries → REntries → Bool
  | .nil, .nil => true
  | .cons k v r, .cons k' v' r' => k == k' && RA.beq v v' && REntries.beq r r'
  | _, _ => false
end

/-- `_includes_resume_at(resume_at, page_group_resume_at)` (recursion on the group's structure). -/
def includes (resume : RA) : RA → Except PyErr Bool
  | .none => .error (.noneAttribute "_includes_resume_at:items")
  | .dict (.cons k v .nil) =>
    match resume with
    | .none => .ok false
    | .dict res =>
      match res.lookup k with
      | Option.none => .ok false
      | some sub =>
        match v with
        | .none => .ok true
        | .dict ves => includes sub (.dict ves)
  | .dict _ => .error (.valueError "_includes_resume_at:unpack")

/-- What `_update_page_groups` reads of a box. -/
inductive Elt where
  | mk (page : String) (isParent inFlow : Bool) (children : List Elt)
  deriving Inhabited

def Elt.page : Elt → String | .mk p _ _ _ => p
def Elt.isParent : Elt → Bool | .mk _ p _ _ => p
def Elt.inFlow : Elt → Bool | .mk _ _ f _ => f
def Elt.children : Elt → List Elt | .mk _ _ _ c => c

/-- One page group: `[name, index, resume_at]`. -/
structure Group where
  name : String
  index : Nat
  resume : RA
  deriving Inhabited

/-- First loop of the "find element" part: follow the last item of each dict down to a `None` value.
Returns the element reached and the path of keys followed. -/
def descend : RA → Elt → Except PyErr (Elt × List Nat)
  | .none, _ => .error (.noneAttribute "_update_page_groups:items")
  | .dict es, elt =>
    match es.last? with
    | Option.none => .error (.indexError "_update_page_groups:last-item")
    | some (k, v) =>
      match elt.children[k]? with
      | Option.none => .error (.indexError "_update_page_groups:children")
      | some child =>
        match v with
        | .none => .ok (child, [k])
        | .dict ves =>
          match descendEntries ves child with
          | .error e => .error e
          | .ok (e, path) => .ok (e, k :: path)
where
  /-- the same on the entries of a dict value (keeps the recursion structural) -/
  descendEntries : REntries → Elt → Except PyErr (Elt × List Nat)
    | .nil, _ => .error (.indexError "_update_page_groups:last-item")
    | .cons k v .nil, elt =>
      match elt.children[k]? with
      | Option.none => .error (.indexError "_update_page_groups:children")
      | some child =>
        match v with
        | .none => .ok (child, [k])
        | .dict ves =>
          match descendEntries ves child with
          | .error e => .error e
          | .ok (e, path) => .ok (e, k :: path)
    | .cons _ _ r, elt => descendEntries r elt

/-- Second loop: go down the first in-flow children until a box whose `page` is the requested name.
`some path` = indexes followed (group appended); `none` = one of the `return`s without appending. -/
def findNamed (name : String) : Elt → Option (List Nat)
  | .mk page isParent _ children =>
    if page == name then some []
    else if !isParent then Option.none
    else firstInFlow name children 0
where
  firstInFlow (name : String) : List Elt → Nat → Option (List Nat)
    | [], _ => Option.none
    | c :: rest, i =>
      if c.inFlow then (findNamed name c).map (i :: ·)
      else firstInFlow name rest (i + 1)

/-- `{i1: {i2: … None}}` -/
def chainDict : List Nat → RA
  | [] => .none
  | i :: r => .dict (.cons i (chainDict r) .nil)

/-- The deep copy of `resume_at` with the `None` at the end of the last-item path replaced by the
chain of first in-flow children (`current_resume_at[child_index] = {i: None}` repeated). -/
def extendLeaf : RA → List Nat → RA
  | .none, ext => chainDict ext
  | .dict es, ext => .dict (extendEntries es ext)
where
  extendEntries : REntries → List Nat → REntries
    | .nil, _ => .nil
    | .cons k v .nil, ext => .cons k (extendLeaf v ext) .nil
    | .cons k v r, ext => .cons k v (extendEntries r ext)

/-- The first loop of `_update_page_groups`: increment the groups that still include `resume_at`,
drop the others. -/
def stepGroups (resume : RA) : List Group → Except PyErr (List Group)
  | [] => .ok []
  | g :: rest =>
    match includes resume g.resume with
    | .error e => .error e
    | .ok keep =>
      match stepGroups resume rest with
      | .error e => .error e
      | .ok rest' => .ok (if keep then { g with index := g.index + 1 } :: rest' else rest')

/-- `page_groups and page_groups[-1][0] == next_page['page']` -/
def lastNameIs (groups : List Group) (name : String) : Bool :=
  match groups.getLast? with
  | some g => g.name == name
  | Option.none => false

/-- The "add page groups" part: find the element that `resume_at` points to, then the descendant that
carries the page name, and append `[name, 0, extended copy of resume_at]` (or return without appending). -/
def appendGroup (groups : List Group) (resume : RA) (nextName : String) (root : Elt) : Except PyErr (List Group) :=
  match descend resume root with
  | .error e => .error e
  | .ok (elt, _) =>
    match findNamed nextName elt with
    | Option.none => .ok groups
    | some ext => .ok (groups ++ [⟨nextName, 0, extendLeaf resume ext⟩])

/-- `_update_page_groups(page_groups, resume_at, next_page, root_box)`;
`breakIsAny` is `next_page['break'] == 'any'`, `nextName` is `next_page['page']`. -/
def updatePageGroups (groups : List Group) (resume : RA) (breakIsAny : Bool) (nextName : String) (root : Elt) :
    Except PyErr (List Group) :=
  match stepGroups resume groups with
  | .error e => .error e
  | .ok groups =>
    if breakIsAny || nextName.isEmpty then .ok groups
    else if lastNameIs groups nextName then .ok groups
    else appendGroup groups resume nextName root

/-- One pass of `make_all_pages`: `page_groups = []`, then for every page either `remake_page` (which
calls `_update_page_groups`) or, when the page is up to date, *nothing* — the page keeps the `PageType`
of an earlier pass and the running `page_groups` list misses its contribution.
`pages`: request (`breakIsAny`, `next_page['page']`), `resume_at`, and whether the page is re-made.
Result: the groups of each re-made page (`none` for a page that is kept). -/
def groupsPass (root : Elt) : List (Bool × String × RA × Bool) → List Group → Except PyErr (List (Option (List Group)))
  | [], _ => .ok []
  | (isAny, name, ra, remade) :: rest, gs =>
    if remade then
      match updatePageGroups gs ra isAny name root with
      | .error e => .error e
      | .ok gs' =>
        match groupsPass root rest gs' with
        | .error e => .error e
        | .ok l => .ok (some gs' :: l)
    else
      match groupsPass root rest gs with
      | .error e => .error e
      | .ok l => .ok (Option.none :: l)

end Wp.PageGroups
