/-
Mirror of the cache logic of `computed_values.character_ratio` (the ratio of `1ex` / `1ch` to the
font size, used by `length()` for the `ex` and `ch` units):

```
assert character in ('x', '0')
cache = style.cache[f'ratio_{"ex" if character == "x" else "ch"}']
cache_key = _font_style_cache_key(style)
if cache_key in cache:
    return cache[cache_key]
…                                   # Pango measures the character with the style's font
ratio = round(measure / style['font_size'], 5) or 0.5
cache[cache_key] = ratio
return ratio
```

`style.cache` is one object per document (`ComputedStyle.__init__` / `AnonymousStyle.__init__`:
`self.cache = parent_style.cache` when the parent style holds a value, else a new
`{'ratio_ch': {}, 'ratio_ex': {}}`): all the styles that share it see each other's entries.
What Pango measures is a parameter (`Measure`: the ratio a *fresh* cache gives for that style, the
`or 0.5` fallback included); the model is the dictionary discipline around it: two tables, one per
measured character, keyed by the font properties of the style.
No Mathlib, no Std.
-/
import WpModel.Model.CssVal

namespace Wp.RatioCache
open Wp

/-- `style.cache`: `{'ratio_ex': {key: ratio}, 'ratio_ch': {key: ratio}}`. -/
structure Cache where
  ex : List (String × Rat) := []
  ch : List (String × Rat) := []
  deriving Repr

def find (k : String) : List (String × Rat) → Option Rat
  | [] => none
  | (a, b) :: rest => if a == k then some b else find k rest

/-- What `character_ratio` returns for style number `style` on an empty cache
(`isEx`: the character is `'x'`, else `'0'`). -/
abbrev Measure := Nat → Bool → Rat

/-- One call `character_ratio(style, character)`: the style (its number, for the measurement),
its `_font_style_cache_key`, and the character. -/
structure Req where
  style : Nat
  key : String
  character : String
  deriving Repr

/-- `character_ratio(style, character)` on the shared cache: the result and the cache afterwards. -/
def characterRatio (m : Measure) (cache : Cache) (r : Req) : Except CErr Rat × Cache :=
  if r.character != "x" && r.character != "0" then
    (.error (.assertion "character_ratio: assert character in ('x', '0')"), cache)
  else
    let isEx := r.character == "x"
    let table := if isEx then cache.ex else cache.ch
    match find r.key table with
    | some ratio => (.ok ratio, cache)
    | none =>
      let ratio := m r.style isEx
      (.ok ratio, if isEx then { cache with ex := (r.key, ratio) :: cache.ex }
                  else { cache with ch := (r.key, ratio) :: cache.ch })

/-- A sequence of calls on one cache. -/
def runSeq (m : Measure) : Cache → List Req → List (Except CErr Rat)
  | _, [] => []
  | cache, r :: rest =>
    let out := characterRatio m cache r
    out.1 :: runSeq m out.2 rest

/-- What the property asks of every call: the ratio of the style's own font for that character,
whatever was asked before. -/
def fresh (m : Measure) (r : Req) : Except CErr Rat :=
  if r.character != "x" && r.character != "0" then
    .error (.assertion "character_ratio: assert character in ('x', '0')")
  else .ok (m r.style (r.character == "x"))

/-! A deliberately wrong variant, for the non-vacuity witness of `Props/C06Ratio`: one table for
both characters, keyed by the font properties only. -/

def characterRatioMerged (m : Measure) (table : List (String × Rat)) (r : Req) :
    Except CErr Rat × List (String × Rat) :=
  if r.character != "x" && r.character != "0" then
    (.error (.assertion "character_ratio: assert character in ('x', '0')"), table)
  else
    match find r.key table with
    | some ratio => (.ok ratio, table)
    | none =>
      let ratio := m r.style (r.character == "x")
      (.ok ratio, (r.key, ratio) :: table)

def runSeqMerged (m : Measure) : List (String × Rat) → List Req → List (Except CErr Rat)
  | _, [] => []
  | table, r :: rest =>
    let out := characterRatioMerged m table r
    out.1 :: runSeqMerged m out.2 rest

end Wp.RatioCache
