/-
C20 — URL resolution: the functions every loader uses to turn what the document says into the absolute
URL handed to the fetcher.

  urllib.parse (Python 3.12)   `urlsplit`, `urlparse`, `_splitparams`, `urlunsplit`, `urlunparse`, `urljoin`
                               (on strings without `[` `]` in the authority: no IPv6 check, no NFKC check)
  weasyprint/urls.py           `iri_to_uri`, `url_is_absolute` (in Resources.lean), `url_join`,
                               `get_url_attribute`
  weasyprint/__init__.py       `_find_base_url`

Strings are handled as `List Char` (the String API is in flux; proofs are by list induction).  No Mathlib.
-/
import WpModel.Model.Resources

namespace Wp.Res.Url
open Wp Wp.Res

/-! ## urllib.parse -/

structure Parts where
  scheme : List Char
  netloc : List Char
  path : List Char
  params : List Char
  query : List Char
  fragment : List Char
  deriving Repr, BEq, DecidableEq, Inhabited

def usesRelative : List String :=
  ["", "ftp", "http", "gopher", "nntp", "imap", "wais", "file", "https", "shttp", "mms", "prospero", "rtsp",
   "rtsps", "rtspu", "sftp", "svn", "svn+ssh", "ws", "wss"]

def usesNetloc : List String :=
  ["", "ftp", "http", "gopher", "nntp", "telnet", "imap", "wais", "file", "mms", "https", "shttp", "snews",
   "prospero", "rtsp", "rtsps", "rtspu", "rsync", "svn", "svn+ssh", "sftp", "nfs", "git", "git+ssh", "ws", "wss",
   "itms-services"]

def usesParams : List String :=
  ["", "ftp", "hdl", "prospero", "http", "imap", "https", "shttp", "rtsp", "rtsps", "rtspu", "sip", "sips", "mms",
   "sftp", "tel"]

def inList (l : List String) (s : List Char) : Bool := l.contains (String.ofList s)

/-- `url.lstrip(_WHATWG_C0_CONTROL_OR_SPACE)` then removal of tab, CR, LF. -/
def clean (url : List Char) : List Char :=
  (url.dropWhile (fun c => c.toNat ≤ 0x20)).filter (fun c => c != '\t' && c != '\r' && c != '\n')

/-- `_splitnetloc(url, 2)` on a string starting with `//`. -/
def splitNetloc (rest : List Char) : List Char × List Char :=
  (rest.takeWhile (fun c => c != '/' && c != '?' && c != '#'),
   rest.dropWhile (fun c => c != '/' && c != '?' && c != '#'))

/-- Scheme recognition of `urlsplit`, with the default scheme. -/
def splitSchemeD (url d : List Char) : List Char × List Char :=
  match splitScheme url with
  | ([], rest) => (d, rest)
  | (s, rest) => (s, rest)

/-- `if url[:2] == '//': netloc, url = _splitnetloc(url, 2)`. -/
def splitAuthority (url : List Char) : List Char × List Char :=
  match url with
  | '/' :: '/' :: rest => splitNetloc rest
  | _ => ([], url)

/-- `url.split(sep, 1)` when `sep in url`, else `(url, '')`. -/
def splitOff (sep : Char) (url : List Char) : List Char × List Char :=
  match splitFirst sep url with
  | (u, some f) => (u, f)
  | (u, none) => (u, [])

/-- `urlsplit(url, scheme)`: (scheme, netloc, path, query, fragment). -/
def urlsplit (url : List Char) (defaultScheme : List Char) : List Char × List Char × List Char × List Char × List Char :=
  let a := splitSchemeD (clean url) defaultScheme
  let b := splitAuthority a.2
  let c := splitOff '#' b.2
  let e := splitOff '?' c.1
  (a.1, b.1, e.1, e.2, c.2)

/-- Split at the *last* occurrence of `sep`: `(before, some after)`. -/
def splitLast (sep : Char) (l : List Char) : List Char × Option (List Char) :=
  match splitFirst sep l.reverse with
  | (after, some before) => (before.reverse, some after.reverse)
  | (_, none) => (l, none)

/-- `_splitparams(url)` (called when `';' in url`). -/
def splitParams (url : List Char) : List Char × List Char :=
  match splitLast '/' url with
  | (dir, some last) =>
    -- `url.find(';', url.rfind('/'))`: a `;` in the last segment
    match splitFirst ';' last with
    | (seg, some params) => (dir ++ '/' :: seg, params)
    | (_, none) => (url, [])
  | (_, none) =>
    match splitFirst ';' url with
    | (u, some params) => (u, params)
    | (u, none) => (u, [])

/-- `urlparse(url, scheme)`. -/
def urlparse (url : List Char) (defaultScheme : List Char) : Parts :=
  let r := urlsplit url defaultScheme
  if inList usesParams r.1 && r.2.2.1.contains ';' then
    ⟨r.1, r.2.1, (splitParams r.2.2.1).1, (splitParams r.2.2.1).2, r.2.2.2.1, r.2.2.2.2⟩
  else ⟨r.1, r.2.1, r.2.2.1, [], r.2.2.2.1, r.2.2.2.2⟩

/-- `urlunparse(parts)` (through `urlunsplit`). -/
def urlunparse (p : Parts) : List Char :=
  let url := if p.params.isEmpty then p.path else p.path ++ ';' :: p.params
  let url :=
    if !p.netloc.isEmpty || (!p.scheme.isEmpty && inList usesNetloc p.scheme && url.take 2 != ['/', '/']) then
      let url := if !url.isEmpty && url.head? != some '/' then '/' :: url else url
      '/' :: '/' :: p.netloc ++ url
    else url
  let url := if !p.scheme.isEmpty then p.scheme ++ ':' :: url else url
  let url := if !p.query.isEmpty then url ++ '?' :: p.query else url
  if !p.fragment.isEmpty then url ++ '#' :: p.fragment else url

/-- The dot-segment loop of `urljoin`. -/
def resolveSegments : List (List Char) → List (List Char) → List (List Char)
  | [], acc => acc.reverse
  | seg :: rest, acc =>
    if seg == ['.', '.'] then resolveSegments rest acc.tail      -- `pop()`, IndexError ignored
    else if seg == ['.'] then resolveSegments rest acc
    else resolveSegments rest (seg :: acc)

def joinSlash : List (List Char) → List Char
  | [] => []
  | [s] => s
  | s :: rest => s ++ '/' :: joinSlash rest

/-- `segments[1:-1] = filter(None, segments[1:-1])`. -/
def dropEmptyMiddle (segs : List (List Char)) : List (List Char) :=
  match segs with
  | [] => []
  | [a] => [a]
  | first :: rest =>
    match rest.reverse with
    | last :: midRev => first :: (midRev.reverse.filter (fun s => !s.isEmpty)) ++ [last]
    | [] => [first]

/-- `urljoin(base, url)`. -/
def urljoin (base url : List Char) : List Char :=
  if base.isEmpty then url
  else if url.isEmpty then base
  else
    let b := urlparse base []
    let u := urlparse url b.scheme
    if u.scheme != b.scheme || !inList usesRelative u.scheme then url
    else if inList usesNetloc u.scheme && !u.netloc.isEmpty then urlunparse u
    else
      let netloc := if inList usesNetloc u.scheme then b.netloc else u.netloc
      if u.path.isEmpty && u.params.isEmpty then
        urlunparse ⟨u.scheme, netloc, b.path, b.params, if u.query.isEmpty then b.query else u.query, u.fragment⟩
      else
        let baseParts := splitOnChar '/' b.path
        let baseParts := if baseParts.getLast? != some [] then baseParts.dropLast else baseParts
        let segments :=
          if u.path.head? == some '/' then splitOnChar '/' u.path
          else dropEmptyMiddle (baseParts ++ splitOnChar '/' u.path)
        let resolved := resolveSegments segments []
        let resolved :=
          if segments.getLast? == some ['.'] || segments.getLast? == some ['.', '.'] then resolved ++ [[]] else resolved
        let path := joinSlash resolved
        urlunparse ⟨u.scheme, netloc, if path.isEmpty then ['/'] else path, u.params, u.query, u.fragment⟩

/-! ## weasyprint/urls.py -/

/-- `url_join(base_url, url, allow_relative, …)`; `none` = error logged, `None` returned. -/
def urlJoin (base url : List Char) (allowRelative : Bool) : Option (List Char) :=
  if urlIsAbsolute (String.ofList url) then some (iriToUri url)
  else if !base.isEmpty then some (iriToUri (urljoin base url))
  else if allowRelative then some (iriToUri url)
  else none

/-- Python `str.strip()` (ASCII white space; `Resources.stripChars`). -/
def pyStrip (cs : List Char) : List Char := stripChars cs

/-- `get_url_attribute(element, attr_name, base_url, allow_relative)`: `attr = none` when missing;
`base = none` for `None`. -/
def getUrlAttribute (attr : Option (List Char)) (base : Option (List Char)) (allowRelative : Bool) :
    Option (List Char) :=
  let value := pyStrip (attr.getD [])
  if value.isEmpty then none
  else urlJoin (base.getD []) value allowRelative

/-- `_find_base_url(html_document, fallback_base_url)` given the `href` of the first `<base>` element
(`none`: no `<base>` element or no `href`). -/
def findBaseUrl (baseHref : Option (List Char)) (fallback : Option (List Char)) : Option (List Char) :=
  match baseHref with
  | some h =>
    let href := pyStrip h
    if href.isEmpty then fallback
    else some (urljoin (fallback.getD []) href)      -- `urljoin(None, href)` is `href`
  | none => fallback

end Wp.Res.Url
