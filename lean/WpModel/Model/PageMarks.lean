/-
Crop and cross marks of a page: mirror of the SVG that `draw_background` (weasyprint/draw/__init__.py) builds when
the page has a bleed and `marks` is not empty — every `<path>` / `<circle>` with its `transform` list, applied with
the SVG semantics (`transform="A B C"` maps a point `p` to `A(B(C p))`), so that a mark is given by its end points
(or centre and radius) in the coordinates of the painting area, whose origin is the top-left corner of the bleed
area: `width = bleed-left + Page.width + bleed-right`, `height = bleed-top + Page.height + bleed-bottom`.
The page box is the rectangle `[bleed-left, width − bleed-right] × [bleed-top, height − bleed-bottom]`.
No Mathlib, no Std: linked into the compiled driver.
-/
import WpModel.Model.PdfBoxes

namespace Wp.PageMarks
open Wp Wp.PdfBoxes

/-- One item of an SVG `transform` list (the two kinds the marks use). -/
inductive Tr where
  | translate (x y : Rat)
  | scale (sx sy : Rat)
  deriving Repr, BEq, DecidableEq, Inhabited

def Tr.apply : Tr → Rat × Rat → Rat × Rat
  | .translate x y, (px, py) => (px + x, py + y)
  | .scale sx sy, (px, py) => (px * sx, py * sy)

/-- `transform="A B C"`: `p ↦ A(B(C p))`. -/
def applyChain (ts : List Tr) (p : Rat × Rat) : Rat × Rat := ts.foldr Tr.apply p

/-- Factor by which a chain of *uniform* scales multiplies a radius. -/
def radiusFactor (ts : List Tr) : Rat :=
  ts.foldl (fun acc t => match t with | .scale sx _ => acc * (if sx < 0 then -sx else sx) | .translate _ _ => acc) 1

structure Seg where
  x0 : Rat
  y0 : Rat
  x1 : Rat
  y1 : Rat
  deriving Repr, BEq, DecidableEq, Inhabited

structure Circ where
  cx : Rat
  cy : Rat
  r : Rat
  deriving Repr, BEq, DecidableEq, Inhabited

/-- `<path d="M x,y h dx" transform=…>` / `v dy`: one straight sub-path. -/
def seg (ts : List Tr) (x y dx dy : Rat) : Seg :=
  let p := applyChain ts (x, y)
  let q := applyChain ts (x + dx, y + dy)
  ⟨p.1, p.2, q.1, q.2⟩

/-- `<circle r=… transform=…>` (centre at the origin of its own coordinates). -/
def circ (ts : List Tr) (r : Rat) : Circ :=
  let c := applyChain ts (0, 0)
  ⟨c.1, c.2, r * radiusFactor ts⟩

/-- The eight `<path>`s of `if 'crop' in marks:`, in source order. -/
def cropMarks (width height : Rat) (b : Bleed) : List Seg :=
  [ seg [] 0 b.top (b.left / 2) 0,
    seg [.translate width 0, .scale (-1) 1] 0 b.top (b.right / 2) 0,
    seg [.translate width height, .scale (-1) (-1)] 0 b.bottom (b.right / 2) 0,
    seg [.translate 0 height, .scale 1 (-1)] 0 b.bottom (b.left / 2) 0,
    seg [] b.left 0 0 (b.top / 2),
    seg [.translate width height, .scale (-1) (-1)] b.right 0 0 (b.bottom / 2),
    seg [.translate 0 height, .scale 1 (-1)] b.left 0 0 (b.bottom / 2),
    seg [.translate width 0, .scale (-1) 1] b.right 0 0 (b.top / 2) ]

/-- The four circles of `if 'cross' in marks:` (top, bottom, left, right), in source order. -/
def crossCircles (width height : Rat) (b : Bleed) : List Circ :=
  [ circ [.scale (1/2) (1/2), .translate width (b.top / 2), .scale (1/2) (1/2)] (b.top / 2),
    circ [.translate 0 height, .scale (1/2) (1/2), .translate width (-(b.bottom / 2)), .scale (1/2) (1/2)] (b.bottom / 2),
    circ [.scale (1/2) (1/2), .translate (b.left / 2) height, .scale (1/2) (1/2)] (b.left / 2),
    circ [.translate width 0, .scale (1/2) (1/2), .translate (-(b.right / 2)) height, .scale (1/2) (1/2)] (b.right / 2) ]

/-- The four cross `<path>`s, two sub-paths each (`M… h…` / `M0,0 v…` and the like), in source order. -/
def crossLines (width height : Rat) (b : Bleed) : List Seg :=
  let top := [Tr.scale (1/2) (1/2), .translate width 0]
  let bottom := [Tr.translate 0 height, .scale (1/2) (1/2), .translate width 0]
  let left := [Tr.scale (1/2) (1/2), .translate 0 height]
  let right := [Tr.translate width 0, .scale (1/2) (1/2), .translate 0 height]
  [ seg top (-(b.top / 2)) (b.top / 2) b.top 0, seg top 0 0 0 b.top,
    seg bottom (-(b.bottom / 2)) (-(b.bottom / 2)) b.bottom 0, seg bottom 0 0 0 (-b.bottom),
    seg left (b.left / 2) (-(b.left / 2)) 0 b.left, seg left 0 0 b.left 0,
    seg right (-(b.right / 2)) (-(b.right / 2)) 0 b.right, seg right 0 0 (-b.right) 0 ]

/-- Everything `draw_background` adds for the given `marks` value. -/
def marksOf (crop cross : Bool) (width height : Rat) (b : Bleed) : List Seg × List Circ :=
  ((if crop then cropMarks width height b else []) ++ (if cross then crossLines width height b else []),
   if cross then crossCircles width height b else [])

end Wp.PageMarks
