/-
Mirror of the cascade in `weasyprint/css/__init__.py`:

* `declaration_precedence`
* the weight fold of `StyleFor.__init__` / `StyleFor.add_page_declarations`
  (`if old_weight is None or old_weight <= weight: style[name] = values, weight`, weights are
  `(precedence, specificity)` compared as Python tuples),
* the order in which `StyleFor.__init__` applies declarations to one element (style attributes
  and presentational hints first, then every sheet in list order, within a sheet the matcher's
  sorted result),
* `cssselect2.Matcher.match`'s `relevant_selectors.sort()` on `(specificity, order)` keys,
* `get_all_computed_styles` sheet order, `find_stylesheets` media test,
* `preprocess_stylesheet`: the control flow that decides which style rules reach the matcher and in
  what order (`@import` with `ignore_imports`, `@media`, invalid rules),
* `media_queries.evaluate_media_query`, `parse_media_query` (on token kinds),
* `StyleFor._page_type_match` (total: integer arithmetic only).

No Mathlib, no Std.
-/
import WpModel.Model.CssVal

namespace Wp.Cascade
open Wp

/-! ### declaration_precedence -/

/-- `declaration_precedence(origin, importance)`, branch for branch. -/
def declarationPrecedence (origin : String) (importance : Bool) : Except CErr Nat :=
  if origin == "user agent" then .ok 1
  else if origin == "user" && !importance then .ok 2
  else if origin == "author" && !importance then .ok 3
  else if origin == "author" then .ok 4
  else if origin == "user" then .ok 5
  else .error (.assertion "declaration_precedence: assert origin == 'user'")

/-! ### weights and their Python comparison -/

/-- `a <= b` on Python sequences of ints: first differing item decides, else the shorter one is
smaller. -/
def pyListLe : List Nat → List Nat → Bool
  | [], _ => true
  | _ :: _, [] => false
  | a :: as, b :: bs => if a < b then true else if b < a then false else pyListLe as bs

/-- `a < b` on Python sequences of ints. -/
def pyListLt : List Nat → List Nat → Bool
  | [], [] => false
  | [], _ :: _ => true
  | _ :: _, [] => false
  | a :: as, b :: bs => if a < b then true else if b < a then false else pyListLt as bs

/-- `weight = (precedence, specificity)`. -/
structure Weight where
  prec : Nat
  spec : List Nat
  deriving Repr, DecidableEq, Inhabited

/-- `old_weight <= weight` (tuple comparison). -/
def Weight.le (a b : Weight) : Bool :=
  if a.prec < b.prec then true else if b.prec < a.prec then false else pyListLe a.spec b.spec

/-! ### the fold -/

/-- One weighted declaration as the loops see it: `(name, values, weight)`. -/
structure WDecl (α : Type) where
  name : String
  value : α
  weight : Weight
  deriving Repr

/-- `cascaded_styles[(element, pseudo)]`: name ↦ (values, weight); insertion order kept. -/
abbrev CStyle (α : Type) := List (String × α × Weight)

def CStyle.get {α} (k : String) : CStyle α → Option (α × Weight)
  | [] => none
  | (a, v) :: rest => if a == k then some v else CStyle.get k rest

def CStyle.set {α} (k : String) (v : α × Weight) : CStyle α → CStyle α
  | [] => [(k, v)]
  | (a, w) :: rest => if a == k then (a, v) :: rest else (a, w) :: CStyle.set k v rest

/-- ```
old_weight = style.get(name, (None, None))[1]
if old_weight is None or old_weight <= weight:
    style[name] = values, weight
``` -/
def applyDecl {α} (style : CStyle α) (d : WDecl α) : CStyle α :=
  match style.get d.name with
  | none => style.set d.name (d.value, d.weight)
  | some (_, old) => if old.le d.weight then style.set d.name (d.value, d.weight) else style

def applyAll {α} (ds : List (WDecl α)) : CStyle α := ds.foldl applyDecl []

/-- The same fold for a single property name (what the theorems are stated on). -/
def foldStep {α} (acc : Option (α × Weight)) (d : α × Weight) : Option (α × Weight) :=
  match acc with
  | none => some d
  | some old => if old.2.le d.2 then some d else some old

def foldOne {α} (ds : List (α × Weight)) : Option (α × Weight) := ds.foldl foldStep none

/-! ### application order for one element -/

/-- One preprocessed declaration `(name, values, importance)`. -/
structure Decl (α : Type) where
  name : String
  value : α
  important : Bool
  deriving Repr

/-- One item yielded by `find_style_attributes` for this element: `specificity, declarations`. -/
structure AttrBlock (α : Type) where
  spec : List Nat
  decls : List (Decl α)
  deriving Repr

/-- One item of `sheet.matcher.match(element)`: `(specificity, order, pseudo_type, declarations)`. -/
structure Matched (α : Type) where
  spec : List Nat
  order : Nat
  pseudo : Option String
  decls : List (Decl α)
  deriving Repr

/-- One entry of `sheets`: `(sheet, origin, sheet_specificity)` with the sheet's matches. -/
structure SheetMatches (α : Type) where
  origin : String
  sheetSpec : Option (List Nat)
  matched : List (Matched α)
  deriving Repr

def weighDecls {α} (origin : String) (spec : List Nat) :
    List (Decl α) → Except CErr (List (WDecl α))
  | [] => .ok []
  | d :: rest => do
    let p ← declarationPrecedence origin d.important
    let tail ← weighDecls origin spec rest
    pure ({ name := d.name, value := d.value, weight := ⟨p, spec⟩ } :: tail)

/-- First loop of `StyleFor.__init__`, restricted to one element (origin `'author'`). -/
def attrDecls {α} : List (AttrBlock α) → Except CErr (List (WDecl α))
  | [] => .ok []
  | b :: rest => do
    let h ← weighDecls "author" b.spec b.decls
    let t ← attrDecls rest
    pure (h ++ t)

/-- `specificity = sheet_specificity or (0, *specificity)` -/
def effectiveSpec (sheetSpec : Option (List Nat)) (spec : List Nat) : List Nat :=
  match sheetSpec with
  | some s => if s.isEmpty then 0 :: spec else s
  | none => 0 :: spec

def matchedDecls {α} (origin : String) (sheetSpec : Option (List Nat)) (pseudo : Option String) :
    List (Matched α) → Except CErr (List (WDecl α))
  | [] => .ok []
  | m :: rest => do
    let h ← if m.pseudo == pseudo then weighDecls origin (effectiveSpec sheetSpec m.spec) m.decls
            else pure []
    let t ← matchedDecls origin sheetSpec pseudo rest
    pure (h ++ t)

def sheetsDecls {α} (pseudo : Option String) : List (SheetMatches α) → Except CErr (List (WDecl α))
  | [] => .ok []
  | s :: rest => do
    let h ← matchedDecls s.origin s.sheetSpec pseudo s.matched
    let t ← sheetsDecls pseudo rest
    pure (h ++ t)

/-- All weighted declarations reaching `cascaded_styles[(element, pseudo)]`, in application order:
style attributes / presentational hints (only for the element itself), then the sheets. -/
def elementDecls {α} (attrs : List (AttrBlock α)) (sheets : List (SheetMatches α))
    (pseudo : Option String) : Except CErr (List (WDecl α)) := do
  let a ← if pseudo.isNone then attrDecls attrs else pure []
  let s ← sheetsDecls pseudo sheets
  pure (a ++ s)

/-- `cascaded_styles[(element, pseudo)]` at the end of the loops. -/
def elementCascade {α} (attrs : List (AttrBlock α)) (sheets : List (SheetMatches α))
    (pseudo : Option String) : Except CErr (CStyle α) :=
  (elementDecls attrs sheets pseudo).map applyAll

/-! ### the matcher's sort -/

/-- Key comparison of `relevant_selectors.sort()`: `(specificity, order, …)` tuples; orders are
distinct inside one matcher, so later components are never reached. -/
def matchedLt {α} (a b : Matched α) : Bool :=
  if pyListLt a.spec b.spec then true
  else if pyListLt b.spec a.spec then false
  else a.order < b.order

def insertMatched {α} (x : Matched α) : List (Matched α) → List (Matched α)
  | [] => [x]
  | y :: rest => if matchedLt x y then x :: y :: rest else y :: insertMatched x rest

/-- Stable insertion sort (Python's sort is stable too). -/
def sortMatched {α} (l : List (Matched α)) : List (Matched α) := l.foldr insertMatched []

/-! ### media -/

/-- `evaluate_media_query(query_list, device_media_type)`. -/
def evaluateMediaQuery (queryList : List String) (device : String) : Bool :=
  queryList.contains "all" || queryList.contains device

/-- Token kinds `parse_media_query` distinguishes (after `remove_whitespace`). -/
inductive MTok where
  | ident (lower : String)
  | comma
  | other
  deriving Repr, DecidableEq

/-- `split_on_comma` on top-level tokens. -/
def splitOnComma (toks : List MTok) : List (List MTok) :=
  let rec go (ts : List MTok) (cur : List MTok) (acc : List (List MTok)) : List (List MTok) :=
    match ts with
    | [] => (cur.reverse :: acc).reverse
    | .comma :: rest => go rest [] (cur.reverse :: acc)
    | t :: rest => go rest (t :: cur) acc
  go toks [] []

/-- `parse_media_query(tokens)`: `none` = `None` (invalid). -/
def parseMediaQuery (toks : List MTok) : Option (List String) :=
  if toks.isEmpty then some ["all"]
  else
    let rec parts : List (List MTok) → Option (List String)
      | [] => some []
      | p :: rest =>
        match p with
        | [.ident s] => (parts rest).map (s :: ·)
        | _ => none
    parts (splitOnComma toks)

/-! ### preprocess_stylesheet: which style rules reach the matcher, and in which order -/

/-- The rule kinds whose handling differs in `preprocess_stylesheet`. -/
inductive SRule where
  /-- qualified rule with a valid selector list and `n` selectors: `matcher.add_selector` × n,
      then `ignore_imports = True` -/
  | style (id : Nat) (selectors : Nat)
  /-- qualified rule with no declaration left: only `ignore_imports = True` -/
  | emptyStyle
  /-- qualified rule whose selector list raises `SelectorError`: `continue` (nothing set) -/
  | invalidStyle
  /-- `@import url media`; `media = none`: invalid media query; `sheet = none`: no URL / fetch failed -/
  | importRule (media : Option (List String)) (sheet : Option (List SRule))
  /-- `@media media { body }`; `media = none`: invalid media query -/
  | mediaRule (media : Option (List String)) (body : List SRule)
  /-- `@page`, `@font-face`, valid `@counter-style`: `ignore_imports = True` -/
  | otherAt
  /-- anything else (unknown at-rule, parse error, at-rule without content other than @import) -/
  | ignored
  deriving Repr, Inhabited

/-- One `matcher.add_selector` call: (rule id, index of the selector in the rule's list). -/
abbrev Added := Nat × Nat

/-- `preprocess_stylesheet(device_media_type, …, stylesheet_rules, …, ignore_imports)`: the
sequence of `add_selector` calls it performs on the shared matcher. -/
def preprocess (device : String) (ignoreImports : Bool) : List SRule → List Added
  | [] => []
  | r :: rest =>
    match r with
    | .style id n => (List.range n).map (fun i => (id, i)) ++ preprocess device true rest
    | .emptyStyle => preprocess device true rest
    | .invalidStyle => preprocess device ignoreImports rest
    | .importRule media sheet =>
      if ignoreImports then preprocess device ignoreImports rest
      else
        match sheet, media with
        | _, none => preprocess device ignoreImports rest
        | none, some _ => preprocess device ignoreImports rest
        | some rules, some m =>
          if evaluateMediaQuery m device then
            -- CSS(url=…, matcher=matcher): a fresh preprocess_stylesheet with ignore_imports=False
            preprocess device false rules ++ preprocess device ignoreImports rest
          else preprocess device ignoreImports rest
    | .mediaRule media body =>
      match media with
      | none => preprocess device ignoreImports rest
      | some m =>
        if evaluateMediaQuery m device then
          -- preprocess_stylesheet(…, content_rules, …, ignore_imports=True)
          preprocess device true body ++ preprocess device true rest
        else preprocess device true rest
    | .otherAt => preprocess device true rest
    | .ignored => preprocess device ignoreImports rest

/-! ### _page_type_match -/

/-- `PageSelectorType(side, blank, first, index, name)`; `index = (a, b, name)`. -/
structure PageSelector where
  side : Option String
  blank : Option Bool
  first : Option Bool
  index : Option (Int × Int × Option String)
  name : Option String
  deriving Repr

/-- `PageType(side, blank, index, name, groups)`. -/
structure PageType where
  side : String
  blank : Bool
  index : Int
  name : String
  groups : List (String × Int)
  deriving Repr

/-- `offset == 0 if a == 0 else (offset * a >= 0 and not offset % a)`: integer arithmetic only
(the sign of the quotient is tested on the product since commit b05dd13); `%` is Python's floored
modulo (`Int.fmod`). -/
def nthTest (a offset : Int) : Bool :=
  if a == 0 then offset == 0
  else decide (0 ≤ offset * a) && Int.fmod offset a == 0

/-- `x not in (None, y)` for an optional selector component. -/
def mismatch {β} [BEq β] (sel : Option β) (actual : β) : Bool :=
  match sel with
  | none => false
  | some s => !(s == actual)

/-- The `for group_name, index in page_type.groups` loop. -/
def groupsTest (a b : Int) (name : String) : List (String × Int) → Bool
  | [] => false
  | (g, index) :: rest =>
    if name != g then groupsTest a b name rest
    else if nthTest a (index + 1 - b) then true
    else groupsTest a b name rest

/-- `StyleFor._page_type_match(page_selector_type, page_type)`. -/
def pageTypeMatch (sel : PageSelector) (page : PageType) : Bool :=
  if mismatch sel.side page.side then false
  else if mismatch sel.blank page.blank then false
  else if mismatch sel.first (page.index == 0) then false
  else if mismatch sel.name page.name then false
  else
    match sel.index with
    | none => true
    | some (a, b, none) => nthTest a (page.index + 1 - b)
    | some (a, b, some name) =>
      if name != page.name then false else groupsTest a b name page.groups

/-- One `(rule, selector_list, declarations)` of `sheet.page_rules`, flattened per selector:
`(specificity, pseudo_type, page_selector_type)`. -/
structure PageRule (α : Type) where
  spec : List Nat
  pseudo : Option String
  sel : PageSelector
  decls : List (Decl α)

/-- `add_page_declarations(page_type)` for one sheet list, restricted to one `pseudo_type` key:
the weighted declarations in application order (`specificity = sheet_specificity or specificity`). -/
def pageDecls {α} (page : PageType) (pseudo : Option String) (origin : String)
    (sheetSpec : Option (List Nat)) : List (PageRule α) → Except CErr (List (WDecl α))
  | [] => .ok []
  | r :: rest => do
    let hit := pageTypeMatch r.sel page
    let spec := match sheetSpec with
      | some s => if s.isEmpty then r.spec else s
      | none => r.spec
    let h ← if hit && r.pseudo == pseudo then weighDecls origin spec r.decls else pure []
    let t ← pageDecls page pseudo origin sheetSpec rest
    pure (h ++ t)

end Wp.Cascade
