/-
The counter functions of a `content` list: mirror of `weasyprint/css/utils.py`
  `check_counter_function` (`counter()` / `counters()`, reached through `get_string`),
  `get_target` (`target-counter()` / `target-counters()` / `target-text()`),
  with `split_on_optional_comma` and the single-token `list_style_type` validator they call,
on the argument tokens `parse_function` hands them (white space removed, commas kept).
What the functions keep *as written* (the counter name: a case-sensitive `<custom-ident>`) and what they
lower-case (`get_keyword`: the counter style of `target-counter()`, the `target-text()` keyword) is the point.
`none` is Python's `None` (the token is not this function: the declaration is invalid).
No Mathlib, no Std: linked into the compiled driver.
-/
import WpModel.Model.Counters

namespace Wp.ContentFns
open Wp.Counters

/-- An argument token. `attr`: an `attr(…)` function that `check_attr_function` accepts; `other`: anything
else (numbers, other functions, …). -/
inductive ATok where
  | ident (value : String)
  | str (value : String)
  | url (value : String)
  | attr
  | comma
  | other
  deriving Repr, DecidableEq

def lowerAscii (s : String) : String := String.ofList (s.toList.map Char.toLower)

/-- `split_on_comma`. -/
def splitOnComma : List ATok → List ATok → List (List ATok)
  | [], cur => [cur]
  | .comma :: rest, cur => cur :: splitOnComma rest []
  | t :: rest, cur => splitOnComma rest (cur ++ [t])

/-- `split_on_optional_comma`: `none` when a part is empty. -/
def joinParts : List (List ATok) → Option (List ATok)
  | [] => some []
  | p :: rest => if p.isEmpty then none else (joinParts rest).map (p ++ ·)

def splitOnOptionalComma (tokens : List ATok) : Option (List ATok) := joinParts (splitOnComma tokens [])

/-- `parse_function`'s argument list: commas dropped; `none` for two commas in a row or a trailing comma
(a leading comma is accepted). -/
def parseArgs : List ATok → Bool → List ATok → Option (List ATok)
  | [], lastComma, acc => if lastComma then none else some acc
  | .comma :: rest, lastComma, acc => if lastComma then none else parseArgs rest true acc
  | t :: rest, _, acc => parseArgs rest false (acc ++ [t])

/-- The single-token `list_style_type` validator, `symbols()` aside. -/
def listStyleType : ATok → Option CName
  | .ident v => some (.named v)
  | .str v => some (.str v)
  | _ => none

/-- The first argument of a `target-*()` function: `get_string(link)`, else `get_url(link)`. -/
inductive Link where
  | str (s : String)
  | internal (fragment : String)
  | external
  | attr
  deriving Repr, DecidableEq

def linkOf : ATok → Option Link
  | .str v => some (.str v)
  | .attr => some .attr
  | .url v => match v.toList with
    | '#' :: rest => some (.internal (String.ofList rest))
    | _ => some .external
  | _ => none

/-- A parsed counter function.  The counter style of `target-counter(s)()` is `get_keyword(token)`: the
lower-cased identifier; since 9677ed2 a token that is not an identifier makes the whole function invalid (it
used to be stored as the style `None`, on which `render_value` failed its assert). -/
inductive Parsed where
  | counter (name : String) (style : CName)
  | counters (name sep : String) (style : CName)
  | targetCounter (link : Link) (name : String) (style : String)
  | targetCounters (link : Link) (name sep : String) (style : String)
  | targetText (link : Link) (mode : String)
  deriving Repr, DecidableEq

/-- `check_counter_function(token)` on `name(args…)`. -/
def counterFn (name : String) (tokens : List ATok) : Option Parsed :=
  match parseArgs tokens false [] with
  | none => none
  | some args =>
    if name = "counter" then
      match args with
      | [.ident n] => some (.counter n (.named "decimal"))
      | [.ident n, st] => (listStyleType st).map (.counter n)
      | _ => none
    else if name = "counters" then
      match args with
      | [.ident n, .str sep] => some (.counters n sep (.named "decimal"))
      | [.ident n, .str sep, st] => (listStyleType st).map (.counters n sep)
      | _ => none
    else none

/-- `get_keyword(token)`. -/
def keyword? : ATok → Option String
  | .ident v => some (lowerAscii v)
  | _ => none

/-- `get_target(token, base_url)` on `name(args…)` (`name` is `token.lower_name`). -/
def targetFn (name : String) (tokens : List ATok) : Option Parsed :=
  match parseArgs tokens false [] with
  | none => none
  | some args0 =>
    match splitOnOptionalComma args0 with
    | none => none
    | some [] => none
    | some (link :: args) =>
      let arityOk :=
        if name = "target-counter" then args.length + 1 = 2 || args.length + 1 = 3
        else if name = "target-counters" then args.length + 1 = 3 || args.length + 1 = 4
        else if name = "target-text" then args.length + 1 = 1 || args.length + 1 = 2
        else false
      if !arityOk then none
      else match linkOf link with
        | none => none
        | some l =>
          if name = "target-counter" then
            match args with
            | [.ident n] => some (.targetCounter l n "decimal")
            | [.ident n, st] => (keyword? st).map (.targetCounter l n)
            | _ => none
          else if name = "target-counters" then
            match args with
            | [.ident n, .str sep] => some (.targetCounters l n sep "decimal")
            | [.ident n, .str sep, st] => (keyword? st).map (.targetCounters l n sep)
            | _ => none
          else
            match args with
            | [] => some (.targetText l "content")
            | [m] =>
              match keyword? m with
              | some k => if k = "content" || k = "before" || k = "after" || k = "first-letter" then
                  some (.targetText l k) else none
              | none => none
            | _ => none

/-- The part of `get_content_list_token` that reaches the two parsers: `get_string` tests `token.name` (as
written) against `counter` / `counters`; `get_target` works on `token.lower_name`. -/
def contentFn (rawName : String) (tokens : List ATok) : Option Parsed :=
  if rawName = "counter" || rawName = "counters" then counterFn rawName tokens
  else targetFn (lowerAscii rawName) tokens

/-- The counter name a parsed function reads. -/
def Parsed.counterName : Parsed → Option String
  | .counter n _ | .counters n _ _ | .targetCounter _ n _ | .targetCounters _ n _ _ => some n
  | .targetText _ _ => none

end Wp.ContentFns
