/-
PangoFP — the *assumed component* of C09: an abstract Pango for a fixed-pitch font (advance =
font-size `fs` for every character, spaces included) on texts made of letters, U+0020 and U+000A.
It is not a model of WeasyPrint code; its agreement with the real Pango (1.5x, WRAP_WORD / WRAP_CHAR,
one trailing white-space character discounted when a line is ended, automatic hyphen charged when a
line is ended between two letters unless `insert-hyphens` is off, the final space of a wrapped line
zero-width) is established only by the correspondence run (real Pango through the real
`split_first_line`, test font `weasyprint.otf`).

What WeasyPrint's own `Layout` adds is modelled literally: `Layout.set_text` keeps the text up to the
first newline plus one character; `create_layout` sets a width only under wrapping `white-space`
values and below `2 ** 21`, truncated to Pango units (1/1024 px).
-/
import WpModel.Model.PyStr
import WpModel.Gen.LineBreakTables

namespace Wp.Pango
open Wp Wp.Py

/-- `Layout.set_text`: `text[:index+2]` when a newline is present. -/
def truncNl (t : Text) : Text :=
  match find t '\n' with
  | none => t
  | some i => t.take (i + Gen.LineBreak.newlineKeep)

/-- The state of a `text.line_break.Layout` that matters for line breaking. -/
structure Layout where
  /-- `layout.text` (already cut by `set_text`) -/
  text : Text
  /-- Pango width in px (multiples of 1/1024); `none` = `-1` = unconstrained -/
  width : Option Rat
  /-- `PANGO_WRAP_CHAR` set (step 5) instead of the default `PANGO_WRAP_WORD` -/
  wrapChar : Bool
  /-- Pango's automatic hyphens are on (`insert-hyphens` attribute not disabled by `overflow-wrap`) -/
  hyph : Bool
  deriving Repr

def Layout.setText (l : Layout) (t : Text) : Layout := { l with text := truncNl t }

/-- First line of a layout: `first_line.length`, the second line's `start_index` (`None` when there is
no second line) and the logical width of the first line. -/
structure Line where
  length : Nat
  resume : Option Nat
  width : Rat
  deriving Repr, BEq

def isLetter (c : Char) : Bool := c != ' ' && c != '\n'

/-- Width Pango adds to the first `p` characters of the paragraph `P` when it ends a line there
(`find_break_extra_width`): minus one trailing space, plus a hyphen inside a word. -/
def breakExtra (fs : Rat) (hyph wrapChar : Bool) (P : Text) (p : Nat) : Rat :=
  if P[p - 1]? == some ' ' then -fs
  else if wrapChar && hyph &&
      (match P[p - 1]?, P[p]? with
       | some a, some b => isLetter a && isLetter b
       | _, _ => false) then fs
  else 0

/-- May a line end after `q` characters (`0 < q < n`)?  WRAP_WORD: after a run of spaces (UAX 14);
WRAP_CHAR: anywhere. -/
def canBreakAt (wrapChar : Bool) (P : Text) (q : Nat) : Bool :=
  decide (0 < q) && (wrapChar || (P[q - 1]? == some ' ' && P[q]? != some ' '))

def fitsAt (fs : Rat) (hyph wrapChar : Bool) (P : Text) (W : Rat) (q : Nat) : Bool :=
  decide ((q : Rat) * fs + breakExtra fs hyph wrapChar P q ≤ W)

/-- Number of characters Pango puts on the first line of the paragraph `P` (no newline inside),
`endDiscount`: the paragraph end is itself a break opportunity (end of text, or WRAP_CHAR). -/
def firstBreak (fs : Rat) (hyph wrapChar : Bool) (P : Text) (endDiscount : Bool) : Option Rat → Nat
  | none => P.length
  | some W =>
    let n := P.length
    if n = 0 then 0 else
    let endx : Rat := if P[n - 1]? == some ' ' && endDiscount then -fs else 0
    if (n : Rat) * fs + endx ≤ W then n else
    let cands := (List.range n).filter (canBreakAt wrapChar P)
    match (cands.filter (fitsAt fs hyph wrapChar P W)).getLast? with
    | some q => q
    | none =>
      match cands.head? with
      | some q => q
      | none => n

/-- The first paragraph of the layout text (up to the first newline). -/
def paraOf (T : Text) : Text :=
  match find T '\n' with
  | none => T
  | some i => T.take i

/-- `layout.get_first_line()` + `line_size(first_line)`. -/
def firstLine (fs : Rat) (lay : Layout) : Line :=
  let nl := find lay.text '\n'
  let P := paraOf lay.text
  let p := firstBreak fs lay.hyph lay.wrapChar P (nl.isNone || lay.wrapChar) lay.width
  if p < P.length then
    { length := p, resume := some p, width := (p : Rat) * fs + breakExtra fs lay.hyph lay.wrapChar P p }
  else
    { length := P.length, resume := nl.map (· + 1), width := (P.length : Rat) * fs }

/-- `PangoLogAttr.is_line_break` at character offset `i` of the layout text (`0 ≤ i ≤ len`). -/
def isLineBreakAttr (T : Text) (i : Nat) : Bool :=
  if i = 0 then false
  else if i = T.length then true
  else T[i - 1]? == some '\n' ||
    (T[i - 1]? == some ' ' && T[i]? != some ' ' && T[i]? != some '\n')

/-- `get_next_break_point(log_attrs[start:end])`: index relative to `start`.  The C array has
`len(T) + 1` entries and cffi slicing is unchecked: reading past it is reported as an error outcome
(it cannot happen, see `Props/C09`). -/
def nextBreakPoint (T : Text) (start end_ : Nat) : Except PyErr (Option Nat) :=
  if start < end_ ∧ T.length < start then .error (.indexError "log_attrs")
  else .ok ((List.range (end_ - start)).find? (fun k => isLineBreakAttr T (start + k)))

/-- `create_layout(text, style, context, max_width, …)` for a finite or absent width. -/
def quantize (W : Rat) : Rat := ((max 0 W * 1024).floor : Int) / 1024

end Wp.Pango
