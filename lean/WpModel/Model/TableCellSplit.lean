/-
The per-cell resume bookkeeping of a table row that is split by a page break
(`weasyprint/layout/table.py`, `table_layout` → `group_layout`, the loop
`for index_cell, cell in enumerate(row.children)`), mirrored branch for branch:

* `cellSkip`   ↔ the choice of `cell_skip_stack`
      if skip_stack:                      # the dict of the resumed row; `{}` and `None` are falsy
          if index_cell in skip_stack:  cell_skip_stack = skip_stack[index_cell]
          else:                          cell_skip_stack = {len(cell.children): None}
      else:                              cell_skip_stack = None
* `rowResume`  ↔ the construction of `resume_at[index_row]`
      if cell_resume_at:                  # `None` and `{}` are falsy
          if resume_at is None: resume_at = {index_row: {}}
          resume_at[index_row][index_cell] = cell_resume_at

A skip stack `{a: {b: {c: None}}}` is the chain `[a, b, c]`.  Both sides are keyed by the *index of the
cell in the row* (`index_cell`), never by its grid column (`cell.grid_x`): the two differ as soon as a
cell of the row spans several columns or a column is taken by a row-spanning cell from an earlier row.
No Mathlib: linked into `driver_c10`.
-/
import WpModel.Model.Wire

namespace Wp.TableSplit
open Wp

/-- `{a: {b: None}}` ↦ `[a, b]`. -/
abbrev Chain := List Nat

/-- The dict `index_cell ↦ cell skip stack` of the row being resumed, in insertion order. -/
abbrev RowSkip := List (Nat × Chain)

/-- `skip_stack[index_cell]` when `index_cell in skip_stack` (keys are unique by construction; the
first binding is the dict's). -/
def lookup : RowSkip → Nat → Option Chain
  | [], _ => none
  | (k, c) :: rest, i => if k = i then some c else lookup rest i

/-- `cell_skip_stack` for the cell at `indexCell` with `nChildren = len(cell.children)`; `none` is
Python's `None` (start the cell from its beginning). -/
def cellSkip (skip : Option RowSkip) (indexCell nChildren : Nat) : Option Chain :=
  match skip with
  | none => none
  | some [] => none                     -- `if skip_stack:` — an empty dict is falsy
  | some d =>
    match lookup d indexCell with
    | some c => some c
    | none => some [nChildren]          -- a finished cell: resumed after its last child

/-- `cell_skip_stack` of every cell of the row (`cells` = the `len(cell.children)`, in row order). -/
def cellSkipsFrom (skip : Option RowSkip) : Nat → List Nat → List (Option Chain)
  | _, [] => []
  | i, n :: ns => cellSkip skip i n :: cellSkipsFrom skip (i + 1) ns

def cellSkips (skip : Option RowSkip) (cells : List Nat) : List (Option Chain) := cellSkipsFrom skip 0 cells

/-- Python truthiness of a `cell_resume_at`. -/
def truthy : Option Chain → Bool
  | some (_ :: _) => true
  | _ => false

/-- `cell_resume_at` of one cell: what `block_container_layout` returned when it placed something
(`new_cell is not None`); when nothing of the cell fits (`new_cell is None`, an empty copy is laid out
instead) the cell keeps the position it was given, `cell_skip_stack or {0: None}` (repair a7ed065: it
used to be `{0: None}`, restarting a continued cell from its first line). -/
def cellResume (placed : Bool) (skip result : Option Chain) : Option Chain :=
  if placed then result
  else if truthy skip then skip else some [0]

/-- The bindings `resume_at[index_row][index_cell] = cell_resume_at` made by the cell loop, from the
`cell_resume_at` of every cell in row order. -/
def resumeBindings : Nat → List (Option Chain) → RowSkip
  | _, [] => []
  | i, r :: rs =>
    match r with
    | some (a :: c) => (i, a :: c) :: resumeBindings (i + 1) rs
    | _ => resumeBindings (i + 1) rs

/-- `resume_at[index_row]` after the cell loop: `none` when `resume_at` is still `None`. -/
def rowResume (results : List (Option Chain)) : Option RowSkip :=
  match resumeBindings 0 results with
  | [] => none
  | d => some d

end Wp.TableSplit
