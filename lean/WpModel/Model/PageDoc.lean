/-
Document-level model of the paged-media furniture: the composition, in the order of
`layout_document`, of
  page requests from forced breaks / page names (`block._in_flow_layout`: `page_name or force_page_break`),
  `initialize_page_maker` + `remake_page` (sides, blank pages)            — `Model/PageState`,
  `parse_page_selectors` + `_page_type_match` + `add_page_declarations`   — `Model/PageSelectors`,
  `make_page` geometry, `make_margin_boxes` geometry                      — `Model/PageBoxes`,
  page counters, `counter(pages)`, `string()`                             — `Model/PageState`,
  `Page.bleed`                                                            — `Model/PdfBoxes`.
The abstract document is a list of sections (a `div` with `break-before`, `page`, `string-set`, an
inner first child and a second child which may carry `string-set` too); sections between two page
requests share a page (the generator keeps them small enough to fit).
Text uses the fixed-pitch test font: advance = font-size, so the min- and max-content widths are
(longest word, whole text) × font-size.
No Mathlib, no Std: linked into the compiled driver.
-/
import WpModel.Model.PageBoxes
import WpModel.Model.PageState
import WpModel.Model.PageSelectors
import WpModel.Model.PdfBoxes
import WpModel.Model.Break
import WpModel.Model.PageGroups

namespace Wp.PageDoc
open Wp Wp.PageBoxes Wp.PageState Wp.PageSel Wp.PageGroups

/-- One item of a `content` list. -/
inductive Item where
  | text (s : String)
  | counter (name : String)
  | str (name : String) (kw : Keyword)
  /-- `element(name, keyword)`: a copy of a running element -/
  | elem (name : String) (kw : Keyword)
  deriving Repr, BEq, Inhabited

/-- A declared value of one of the properties the model interprets. -/
inductive Val where
  | dim (d : Dim)
  | size (w h : Rat)
  | crop (b : Bool)
  | counters (l : List (String × Int))
  | content (c : Option (List Item))     -- `none`: `normal` / `none`
  | inf                                  -- `max-*: none`
  deriving Repr, BEq, Inhabited

/-- One piece of a `string-set` value: a literal, or a counter.  A counter that only exists in page
context (`page`, `pages`, counters of `@page`) is missing when the box is built; the value is computed
again (`parse_again`) after pagination with the counters of the page the box is on, and the new value
*replaces* the first one in `box.string_set` (`compute_string_set`). -/
inductive SetPiece where
  | text (s : String)
  | counter (name : String)
  deriving Repr, BEq, Inhabited

structure Section where
  brk : Brk
  name : String
  sets : List (String × List SetPiece)
  innerSets : List (String × List SetPiece)
  lateSets : List (String × List SetPiece)
  /-- the section ends with a box whose `::before` shows `"p" counter(page) "of" counter(pages) "c" counter(c)` -/
  showCounters : Bool := false
  /-- running elements (`position: running(name)`, text) among the children of the section, after its
  first child -/
  running : List (String × String) := []
  /-- the section lies in a wrapper `<div style="page: name">` shared by the consecutive sections with
  the same wrapper number -/
  wrap : Option (Nat × String) := none
  /-- position in the box tree (filled by `withPositions`): index among the children of `body`, and,
  for a wrapped section, index among the children of its wrapper -/
  bodyIndex : Nat := 0
  innerIndex : Option Nat := none
  deriving Repr, BEq, Inhabited

/-- The used `page` value of a section: its own, else (`page: auto`) that of its wrapper, else `''`. -/
def Section.eff (s : Section) : String :=
  if !s.name.isEmpty then s.name else match s.wrap with | some (_, w) => w | none => ""

structure Doc where
  ltr : Bool
  rootBreak : Brk
  fontSize : Rat
  /-- font size of the document content (running elements keep it inside margin boxes) -/
  bodyFontSize : Rat := 4
  sections : List Section
  rules : List (PageRule Val)

/-! ## Pages from sections -/

/-- `_in_flow_layout`: `if page_name or force_page_break(page_break, context)` between two sibling
sections (`block_level_page_name` returns the *new* name when it differs, and `''` is falsy). -/
def breakBetween (prevName : String) (s : Section) : Bool :=
  (prevName != s.eff && !s.eff.isEmpty) || forces false s.brk

/-- Fill in the tree positions: consecutive sections with the same wrapper number share one child of
`body`. -/
def withPositions : List Section → Nat → Option (Nat × Nat) → List Section
  | [], _, _ => []
  | s :: rest, next, cur =>
    match s.wrap, cur with
    | some (w, _), some (cw, j) =>
      if w == cw then { s with bodyIndex := next - 1, innerIndex := some (j + 1) } :: withPositions rest next (some (cw, j + 1))
      else { s with bodyIndex := next, innerIndex := some 0 } :: withPositions rest (next + 1) (some (w, 0))
    | some (w, _), none => { s with bodyIndex := next, innerIndex := some 0 } :: withPositions rest (next + 1) (some (w, 0))
    | none, _ => { s with bodyIndex := next, innerIndex := none } :: withPositions rest (next + 1) none

/-- Group the sections into the content of successive non-blank pages, each with the request that
started it. -/
def chunks : List Section → Option (Request × List Section) → List (Request × List Section)
  | [], none => []
  | [], some cur => [cur]
  | s :: rest, none => chunks rest (some (⟨.any, s.eff⟩, [s]))
  | s :: rest, some (req, secs) =>
    let prevName := match secs.getLast? with | some p => p.eff | none => ""
    if breakBetween prevName s then (req, secs) :: chunks rest (some (⟨.brk s.brk, s.eff⟩, [s]))
    else chunks rest (some (req, secs ++ [s]))

/-- Pair the page heads with their content: a blank page has none. -/
def attach : List PageHead → List (Request × List Section) → List (PageHead × List Section)
  | [], _ => []
  | h :: hs, cs =>
    if h.blank then (h, []) :: attach hs cs
    else match cs with
      | [] => (h, []) :: attach hs []
      | (_, secs) :: cs' => (h, secs) :: attach hs cs'

/-- An empty document still has one page. -/
def docPages (d : Doc) : List (PageHead × List Section) :=
  let cs := chunks (withPositions d.sections 0 none) none
  let reqs := if cs.isEmpty then [⟨.any, ""⟩] else cs.map (·.1)
  attach (pageSequence d.ltr reqs 0 (initRightPage d.rootBreak d.ltr)) cs

/-! ## Page groups -/

/-- The box tree as `_update_page_groups` sees it: html > body > (section | wrapper > section*); a
section has its first child (which inherits its `page`). -/
def sectionElt (s : Section) : Elt := .mk s.eff true true [.mk s.eff true true []]

def bodyChildrenAux : List Section → Option (Nat × String × List Elt) → List Elt
  | [], none => []
  | [], some (_, wn, acc) => [.mk wn true true acc]
  | s :: rest, cur =>
    match s.wrap, cur with
    | some (w, wn), some (cw, cwn, acc) =>
      if w == cw then bodyChildrenAux rest (some (cw, cwn, acc ++ [sectionElt s]))
      else .mk cwn true true acc :: bodyChildrenAux rest (some (w, wn, [sectionElt s]))
    | some (w, wn), none => bodyChildrenAux rest (some (w, wn, [sectionElt s]))
    | none, some (_, cwn, acc) => .mk cwn true true acc :: sectionElt s :: bodyChildrenAux rest none
    | none, none => sectionElt s :: bodyChildrenAux rest none

def bodyChildren (l : List Section) : List Elt := bodyChildrenAux l none

def docTree (d : Doc) : Elt := .mk "" true true [.mk "" true true (bodyChildren d.sections)]

/-- `resume_at` of a page that starts with section `s`: `{0: {body index: None | {inner index: None}}}`
(a break before the first child of a wrapper is taken at `body` level). -/
def resumeOf (s : Section) : RA :=
  let inner : RA := match s.innerIndex with
    | some (j + 1) => .dict (.cons (j + 1) .none .nil)
    | _ => .none
  .dict (.cons 0 (.dict (.cons s.bodyIndex inner .nil)) .nil)

/-- Request and `resume_at` of every page: a blank page is made with those of the page that follows. -/
def pageReqs : List (PageHead × List Section) → List (Request × RA) → List (Request × RA)
  | [], _ => []
  | (h, _) :: ps, rs =>
    match rs with
    | [] => (⟨.any, ""⟩, .none) :: pageReqs ps []
    | r :: rs' => if h.blank then r :: pageReqs ps (r :: rs') else r :: pageReqs ps rs'

/-- `remake_page` calls `_update_page_groups` once per page, in page order. -/
def pageGroups (root : Elt) : List (Request × RA) → List Group → Except PyErr (List (List Group))
  | [], _ => .ok []
  | (req, ra) :: rest, gs =>
    match updatePageGroups gs ra (req.nb == .any) req.name root with
    | .error e => .error e
    | .ok gs' =>
      match pageGroups root rest gs' with
      | .error e => .error e
      | .ok l => .ok (gs' :: l)

/-! ## Cascaded values -/

def getDim (c : Cascaded Val) (name : String) (dflt : Dim) : Dim :=
  match c.get name with
  | some (.dim d, _) => d
  | _ => dflt

def getMax (c : Cascaded Val) (name : String) : Option Dim :=
  match c.get name with
  | some (.dim d, _) => some d
  | _ => none

def getCounters (c : Cascaded Val) (name : String) (dflt : Option (List (String × Int))) :
    Option (List (String × Int)) :=
  match c.get name with
  | some (.counters l, _) => some l
  | _ => dflt

def rawCStyle (c : Cascaded Val) : RawCStyle :=
  { set := getCounters c "counter-set" (some []), reset := getCounters c "counter-reset" (some []),
    incr := getCounters c "counter-increment" none }

/-- Computed `border-<side>-width` (`computed_values.border_width`): 0 unless `border-<side>-style` is
a visible style (the documents use `solid` / `none`; `Val.crop true` carries `solid`); the initial
width `medium` is 3px. -/
def borderWidth (c : Cascaded Val) (side : String) : Rat :=
  let solid := match c.get ("border-" ++ side ++ "-style") with
    | some (.crop b, _) => b
    | _ => false
  if solid then
    match getDim c ("border-" ++ side ++ "-width") (.px 3) with
    | .px v => v
    | _ => 3
  else 0

def pageStyle (c : Cascaded Val) : PStyle :=
  let (w, h) := match c.get "size" with
    | some (.size w h, _) => (w, h)
    | _ => ((210 : Rat) * 96 * 10 / 254, (297 : Rat) * 96 * 10 / 254)   -- A4
  { sizeW := w, sizeH := h
    width := getDim c "width" .auto, height := getDim c "height" .auto
    minW := getDim c "min-width" .auto, maxW := getMax c "max-width"
    minH := getDim c "min-height" .auto, maxH := getMax c "max-height"
    mt := getDim c "margin-top" (.px 0), mr := getDim c "margin-right" (.px 0)
    mb := getDim c "margin-bottom" (.px 0), ml := getDim c "margin-left" (.px 0)
    pt := getDim c "padding-top" (.px 0), pr := getDim c "padding-right" (.px 0)
    pb := getDim c "padding-bottom" (.px 0), pl := getDim c "padding-left" (.px 0)
    bt := borderWidth c "top", br := borderWidth c "right", bb := borderWidth c "bottom", bl := borderWidth c "left" }

def pageBleed (c : Cascaded Val) : PdfBoxes.Bleed :=
  let crop := match c.get "marks" with | some (.crop b, _) => b | _ => false
  let one (name : String) : Rat :=
    PdfBoxes.computedBleed (match getDim c name .auto with | .px v => some v | _ => none) crop
  ⟨one "bleed-top", one "bleed-right", one "bleed-bottom", one "bleed-left"⟩

/-! ## Margin box content -/

/-- Words of a text after white-space collapsing (split on spaces, empty pieces dropped). -/
def wordsOf (s : String) : List String := (s.splitOn " ").filter (fun w => !w.isEmpty)

def maxList : List Nat → Nat
  | [] => 0
  | x :: xs => max x (maxList xs)

/-- (min-content, max-content) width of a text in the fixed-pitch font. -/
def contentWidths (ws : List String) (fs : Rat) : Rat × Rat :=
  let lens := ws.map String.length
  let total : Nat := lens.foldl (· + ·) 0 + (ws.length - 1)
  ((maxList lens : Nat) * fs, if ws.isEmpty then 0 else (total : Nat) * fs)

/-- The named strings of a document: `name → page number → values`. -/
abbrev Strings := List (String × NameStore)

def sectionSets (s : Section) : List (String × List SetPiece) := s.sets ++ s.innerSets ++ s.lateSets

/-- The final value of a `string-set` assignment made on a page whose counters are `cs`. -/
def setValue (cs : CState) (pieces : List SetPiece) : Except PyErr String :=
  pieces.foldlM (fun acc p => match p with
    | .text s => pure (acc ++ s)
    | .counter n => do
      let v ← counterValue cs n
      pure (acc ++ toString v)) ""

def addAssign (st : Strings) (page : Nat) (name value : String) : Strings :=
  let upd (ns : NameStore) : NameStore :=
    match storeGet ns page with
    | some _ => ns.map (fun (p, vs) => if p == page then (p, vs ++ [value]) else (p, vs))
    | none => ns ++ [(page, [value])]
  match st.find? (fun e => e.1 == name) with
  | some _ => st.map (fun (n, ns) => if n == name then (n, upd ns) else (n, ns))
  | none => st ++ [(name, upd [])]

/-- `context.string_set[name][i + 1].append(text)` over all pages, in document order; one
assignment per (box, name), with the value computed from the page's final counters. -/
def collectStrings (pages : List ((PageHead × List Section) × CState)) : Except PyErr Strings :=
  let rec go (ps : List ((PageHead × List Section) × CState)) (n : Nat) (st : Strings) : Except PyErr Strings :=
    match ps with
    | [] => pure st
    | ((_, secs), cs) :: rest => do
      let st ← secs.foldlM (fun st s => (sectionSets s).foldlM (fun st (k, v) => do
        let value ← setValue cs v
        pure (addAssign st n k value)) st) st
      go rest (n + 1) st
  go pages 1 []

/-- `context.running_elements[name][page].append(child)` during layout, in document order. -/
def collectRunning (pages : List (PageHead × List Section)) : Strings :=
  let rec go (ps : List (PageHead × List Section)) (n : Nat) (st : Strings) : Strings :=
    match ps with
    | [] => st
    | (_, secs) :: rest =>
      go rest (n + 1) (secs.foldl (fun st s => s.running.foldl (fun st (k, v) => addAssign st n k v) st) st)
  go pages 1 []

def storeOf (st : Strings) (name : String) : NameStore :=
  match st.find? (fun e => e.1 == name) with
  | some (_, ns) => ns
  | none => []

/-- The first-descendant chain of a page as `get_string_or_element_for` walks it: page, html, body
carry no `string-set`; then the first section and its first child. -/
def startChain (secs : List Section) (name : String) : List Bool :=
  match secs with
  | [] => [false, false, false]
  | s :: _ => [false, false, false, s.sets.any (·.1 == name), s.innerSets.any (·.1 == name)]

/-- A piece of laid-out margin-box content: an inline run of text (font size of the margin box), or the
block copy of a running element (which keeps the font size it had in the document).
Not modelled: the copy also keeps its `page` value; next to other content a non-empty page name makes
`block_container_layout` stop and `margin_box_content_layout` fail its `assert resume_at is None` (known
finding element-from-named-page-crashes-margin-box) — the documents take running elements only from
unnamed pages. -/
inductive Run where
  | inline (text : String)
  | block (text : String)
  deriving Repr, BEq, Inhabited

/-- Append text to the content: `add_text` extends the last `TextBox` if there is one. -/
def addText (runs : List Run) (t : String) : List Run :=
  if t.isEmpty then runs
  else match runs.getLast? with
    | some (.inline u) => runs.dropLast ++ [.inline (u ++ t)]
    | _ => runs ++ [.inline t]

/-- `compute_content_list` for the items of the documents.  `string()` / `element()` both go through
`get_string_or_element_for`; for `element()` the `start` test still looks at the *`string-set`*
declarations of the page's first boxes (the running elements are not in the page tree). -/
def renderItem (st run : Strings) (page : Nat) (secs : List Section) (cs : CState) (runs : List Run) :
    Item → Except PyErr (List Run)
  | .text s => .ok (addText runs s)
  | .counter n => do
    let v ← counterValue cs n
    pure (addText runs (toString v))
  | .str n kw => do
    let r ← getStringFor (storeOf st n) page kw (startChain secs n)
    pure (addText runs (r.getD ""))
  | .elem n kw => do
    let r ← getStringFor (storeOf run n) page kw (startChain secs n)
    match r with
    | none => pure runs                       -- `if new_box is None: continue`
    | some t => pure (runs ++ [.block t])

def renderContent (st run : Strings) (page : Nat) (secs : List Section) (cs : CState) (items : List Item) :
    Except PyErr (List Run) :=
  items.foldlM (fun acc it => renderItem st run page secs cs acc it) []

def Run.text : Run → String
  | .inline t => t
  | .block t => t

/-- (min-content, max-content) of the runs: every run is a line of its own; an inline run is set in the
margin box's font size, a running element in the document's. -/
def runsWidths (runs : List Run) (fs bodyFs : Rat) : Rat × Rat :=
  runs.foldl (fun (acc : Rat × Rat) r =>
    let f := match r with | .inline _ => fs | .block _ => bodyFs
    let (mn, mx) := contentWidths (wordsOf r.text) f
    (max acc.1 mn, max acc.2 mx)) (0, 0)

/-- The sixteen margin boxes in the order `make_margin_boxes` makes them. -/
def allKeywords : List String :=
  (Gen.sideTable.flatMap (fun row =>
    (if row.vertical then Gen.verticalSuffixes else Gen.horizontalSuffixes).map
      (fun sfx => "@" ++ row.pre ++ "-" ++ sfx))) ++ Gen.cornerTable.map (·.kw)

/-- Style and text of one margin box. -/
def marginStyle (d : Doc) (st run : Strings) (pt : PageType) (page : Nat) (secs : List Section) (cs : CState)
    (kw : String) : Except PyErr (MStyle × List String) := do
  let c := addPageDeclarations d.rules pt kw
  let content := match c.get "content" with
    | some (.content x, _) => x
    | _ => none
  let fs := match getDim c "font-size" (.px d.fontSize) with | .px v => v | _ => d.fontSize
  let (generated, ws) ← match content with
    | none => (pure (false, []) : Except PyErr (Bool × List Run))
    | some items => do
      let ms ← marginState cs (rawCStyle c)
      let rs ← renderContent st run page secs ms items
      pure (true, rs)
  let (generated, rs) := (generated, ws)
  let ws := rs.flatMap (fun r => wordsOf r.text)
  let (minC, maxC) := runsWidths rs fs d.bodyFontSize
  pure ({ kw := kw, generated := generated
          width := getDim c "width" .auto, height := getDim c "height" .auto
          mt := getDim c "margin-top" (.px 0), mr := getDim c "margin-right" (.px 0)
          mb := getDim c "margin-bottom" (.px 0), ml := getDim c "margin-left" (.px 0)
          pt := getDim c "padding-top" (.px 0), pr := getDim c "padding-right" (.px 0)
          pb := getDim c "padding-bottom" (.px 0), pl := getDim c "padding-left" (.px 0)
          bt := borderWidth c "top", br := borderWidth c "right", bb := borderWidth c "bottom"
          bl := borderWidth c "left", minC := minC, maxC := maxC }, ws)

/-- Everything observed on one rendered page. -/
structure PageOut where
  head : PageHead
  box : PageBox
  bleed : PdfBoxes.Bleed
  counters : CState
  margin : List (Placed × List String)
  /-- texts of the page-counter boxes in the page content -/
  body : List String
  /-- `PageType.groups` -/
  groups : List (String × Nat) := []

def pageTypeOf (h : PageHead) (groups : List Group := []) : PageType :=
  { side := h.side.toCss, blank := h.blank, name := h.name, index := h.index,
    groups := groups.map (fun g => (g.name, g.index)) }

/-- The whole document. -/
def render (d : Doc) : Except PyErr (List PageOut) := do
  let pages := docPages d
  -- page groups, page by page (`remake_page`), then the page types the selectors are matched against
  let reqs := pageReqs pages ((chunks (withPositions d.sections 0 none) none).map (fun (r, secs) =>
    (r, match secs with | s :: _ => resumeOf s | [] => RA.none)))
  -- the first page is made with `resume_at = None`
  let reqs := match reqs with | (r, _) :: rest => (r, RA.none) :: rest | [] => []
  let groups ← pageGroups (docTree { d with sections := withPositions d.sections 0 none }) reqs []
  let types := (pages.zip groups).map (fun ((h, _), gs) => pageTypeOf h gs)
  let cascades := types.map (fun pt => addPageDeclarations d.rules pt "")
  let states ← pageStates (cascades.map rawCStyle) initialState
  let total := pages.length
  let st ← collectStrings (pages.zip (states.map (fun cs => setPages cs total)))
  let run := collectRunning pages
  let rec go (ps : List ((PageHead × List Section) × PageType × Cascaded Val × CState)) (n : Nat) :
      Except PyErr (List PageOut) :=
    match ps with
    | [] => pure []
    | ((h, secs), pt, c, cs) :: rest => do
      let cs := setPages cs total
      let box := makePageBox (pageStyle c)
      let styled ← allKeywords.mapM (fun kw => marginStyle d st run pt n secs cs kw)
      let placed ← makeMarginBoxes box.geom (styled.map (·.1))
      -- `margin_box_content_layout` → `block_container_layout` ends with
      -- `height = max(min(height, max_height), min_height)`; margin boxes of the documents have the
      -- initial `min-height: 0`, `max-height: none`, so a negative used height (possible only in a
      -- page margin of negative size) is observed as 0.
      let placed := placed.map (fun p => { p with height := max p.height 0 })
      let withText := placed.map (fun p =>
        (p, match styled.find? (fun s => s.1.kw == p.kw) with | some s => s.2 | none => []))
      -- page-based counters in the content are filled from the state of the page the box is on
      let body ← (secs.filter (·.showCounters)).mapM (fun _ => do
        let p ← counterValue cs "page"
        let ps ← counterValue cs "pages"
        let cc ← counterValue cs "c"
        pure ("p" ++ toString p ++ "of" ++ toString ps ++ "c" ++ toString cc))
      let tail ← go rest (n + 1)
      pure ({ head := h, box := box, bleed := pageBleed c, counters := cs, margin := withText, body := body,
              groups := pt.groups } :: tail)
  go (pages.zip (types.zip (cascades.zip states))) 1

end Wp.PageDoc
