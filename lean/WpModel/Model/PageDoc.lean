/-
Document-level model of the paged-media furniture: the composition, in the order of
`layout_document`, of
  page requests from forced breaks / page names (`block._in_flow_layout`: `page_name or force_page_break`),
  `initialize_page_maker` + `remake_page` (sides, blank pages)            — `Model/PageState`,
  `parse_page_selectors` + `_page_type_match` + `add_page_declarations`   — `Model/PageSelectors`,
  `make_page` geometry, `make_margin_boxes` geometry                      — `Model/PageBoxes`,
  page counters, `counter(pages)`, `string()`                             — `Model/PageState`,
  `Page.bleed`                                                            — `Model/PdfBoxes`.
The abstract document is a list of sections (a `div` with `break-before`, `page`, `string-set`, an
inner first child and a second child which may carry `string-set` too); sections between two page
requests share a page (the generator keeps them small enough to fit).
Text uses the fixed-pitch test font: advance = font-size, so the min- and max-content widths are
(longest word, whole text) × font-size.
No Mathlib, no Std: linked into the compiled driver.
-/
import WpModel.Model.PageBoxes
import WpModel.Model.PageState
import WpModel.Model.PageSelectors
import WpModel.Model.PdfBoxes
import WpModel.Model.Break

namespace Wp.PageDoc
open Wp Wp.PageBoxes Wp.PageState Wp.PageSel

/-- One item of a `content` list. -/
inductive Item where
  | text (s : String)
  | counter (name : String)
  | str (name : String) (kw : Keyword)
  deriving Repr, BEq, Inhabited

/-- A declared value of one of the properties the model interprets. -/
inductive Val where
  | dim (d : Dim)
  | size (w h : Rat)
  | crop (b : Bool)
  | counters (l : List (String × Int))
  | content (c : Option (List Item))     -- `none`: `normal` / `none`
  | inf                                  -- `max-*: none`
  deriving Repr, BEq, Inhabited

/-- One piece of a `string-set` value: a literal, or a counter.  A counter that only exists in page
context (`page`, `pages`, counters of `@page`) is missing when the box is built; the value is computed
again (`parse_again`) after pagination with the counters of the page the box is on, and the new value
*replaces* the first one in `box.string_set` (`compute_string_set`). -/
inductive SetPiece where
  | text (s : String)
  | counter (name : String)
  deriving Repr, BEq, Inhabited

structure Section where
  brk : Brk
  name : String
  sets : List (String × List SetPiece)
  innerSets : List (String × List SetPiece)
  lateSets : List (String × List SetPiece)
  /-- the section ends with a box whose `::before` shows `"p" counter(page) "of" counter(pages) "c" counter(c)` -/
  showCounters : Bool := false
  deriving Repr, BEq, Inhabited

structure Doc where
  ltr : Bool
  rootBreak : Brk
  fontSize : Rat
  sections : List Section
  rules : List (PageRule Val)

/-! ## Pages from sections -/

/-- `_in_flow_layout`: `if page_name or force_page_break(page_break, context)` between two sibling
sections (`block_level_page_name` returns the *new* name when it differs, and `''` is falsy). -/
def breakBetween (prevName : String) (s : Section) : Bool :=
  (prevName != s.name && !s.name.isEmpty) || forces false s.brk

/-- Group the sections into the content of successive non-blank pages, each with the request that
started it. -/
def chunks : List Section → Option (Request × List Section) → List (Request × List Section)
  | [], none => []
  | [], some cur => [cur]
  | s :: rest, none => chunks rest (some (⟨.any, s.name⟩, [s]))
  | s :: rest, some (req, secs) =>
    let prevName := match secs.getLast? with | some p => p.name | none => ""
    if breakBetween prevName s then (req, secs) :: chunks rest (some (⟨.brk s.brk, s.name⟩, [s]))
    else chunks rest (some (req, secs ++ [s]))

/-- Pair the page heads with their content: a blank page has none. -/
def attach : List PageHead → List (Request × List Section) → List (PageHead × List Section)
  | [], _ => []
  | h :: hs, cs =>
    if h.blank then (h, []) :: attach hs cs
    else match cs with
      | [] => (h, []) :: attach hs []
      | (_, secs) :: cs' => (h, secs) :: attach hs cs'

/-- An empty document still has one page. -/
def docPages (d : Doc) : List (PageHead × List Section) :=
  let cs := chunks d.sections none
  let reqs := if cs.isEmpty then [⟨.any, ""⟩] else cs.map (·.1)
  attach (pageSequence d.ltr reqs 0 (initRightPage d.rootBreak d.ltr)) cs

/-! ## Cascaded values -/

def getDim (c : Cascaded Val) (name : String) (dflt : Dim) : Dim :=
  match c.get name with
  | some (.dim d, _) => d
  | _ => dflt

def getMax (c : Cascaded Val) (name : String) : Option Dim :=
  match c.get name with
  | some (.dim d, _) => some d
  | _ => none

def getCounters (c : Cascaded Val) (name : String) (dflt : Option (List (String × Int))) :
    Option (List (String × Int)) :=
  match c.get name with
  | some (.counters l, _) => some l
  | _ => dflt

def rawCStyle (c : Cascaded Val) : RawCStyle :=
  { set := getCounters c "counter-set" (some []), reset := getCounters c "counter-reset" (some []),
    incr := getCounters c "counter-increment" none }

/-- Computed `border-<side>-width` (`computed_values.border_width`): 0 unless `border-<side>-style` is
a visible style (the documents use `solid` / `none`; `Val.crop true` carries `solid`); the initial
width `medium` is 3px. -/
def borderWidth (c : Cascaded Val) (side : String) : Rat :=
  let solid := match c.get ("border-" ++ side ++ "-style") with
    | some (.crop b, _) => b
    | _ => false
  if solid then
    match getDim c ("border-" ++ side ++ "-width") (.px 3) with
    | .px v => v
    | _ => 3
  else 0

def pageStyle (c : Cascaded Val) : PStyle :=
  let (w, h) := match c.get "size" with
    | some (.size w h, _) => (w, h)
    | _ => ((210 : Rat) * 96 * 10 / 254, (297 : Rat) * 96 * 10 / 254)   -- A4
  { sizeW := w, sizeH := h
    width := getDim c "width" .auto, height := getDim c "height" .auto
    minW := getDim c "min-width" .auto, maxW := getMax c "max-width"
    minH := getDim c "min-height" .auto, maxH := getMax c "max-height"
    mt := getDim c "margin-top" (.px 0), mr := getDim c "margin-right" (.px 0)
    mb := getDim c "margin-bottom" (.px 0), ml := getDim c "margin-left" (.px 0)
    pt := getDim c "padding-top" (.px 0), pr := getDim c "padding-right" (.px 0)
    pb := getDim c "padding-bottom" (.px 0), pl := getDim c "padding-left" (.px 0)
    bt := borderWidth c "top", br := borderWidth c "right", bb := borderWidth c "bottom", bl := borderWidth c "left" }

def pageBleed (c : Cascaded Val) : PdfBoxes.Bleed :=
  let crop := match c.get "marks" with | some (.crop b, _) => b | _ => false
  let one (name : String) : Rat :=
    PdfBoxes.computedBleed (match getDim c name .auto with | .px v => some v | _ => none) crop
  ⟨one "bleed-top", one "bleed-right", one "bleed-bottom", one "bleed-left"⟩

/-! ## Margin box content -/

/-- Words of a text after white-space collapsing (split on spaces, empty pieces dropped). -/
def wordsOf (s : String) : List String := (s.splitOn " ").filter (fun w => !w.isEmpty)

def maxList : List Nat → Nat
  | [] => 0
  | x :: xs => max x (maxList xs)

/-- (min-content, max-content) width of a text in the fixed-pitch font. -/
def contentWidths (ws : List String) (fs : Rat) : Rat × Rat :=
  let lens := ws.map String.length
  let total : Nat := lens.foldl (· + ·) 0 + (ws.length - 1)
  ((maxList lens : Nat) * fs, if ws.isEmpty then 0 else (total : Nat) * fs)

/-- The named strings of a document: `name → page number → values`. -/
abbrev Strings := List (String × NameStore)

def sectionSets (s : Section) : List (String × List SetPiece) := s.sets ++ s.innerSets ++ s.lateSets

/-- The final value of a `string-set` assignment made on a page whose counters are `cs`. -/
def setValue (cs : CState) (pieces : List SetPiece) : Except PyErr String :=
  pieces.foldlM (fun acc p => match p with
    | .text s => pure (acc ++ s)
    | .counter n => do
      let v ← counterValue cs n
      pure (acc ++ toString v)) ""

def addAssign (st : Strings) (page : Nat) (name value : String) : Strings :=
  let upd (ns : NameStore) : NameStore :=
    match storeGet ns page with
    | some _ => ns.map (fun (p, vs) => if p == page then (p, vs ++ [value]) else (p, vs))
    | none => ns ++ [(page, [value])]
  match st.find? (fun e => e.1 == name) with
  | some _ => st.map (fun (n, ns) => if n == name then (n, upd ns) else (n, ns))
  | none => st ++ [(name, upd [])]

/-- `context.string_set[name][i + 1].append(text)` over all pages, in document order; one
assignment per (box, name), with the value computed from the page's final counters. -/
def collectStrings (pages : List ((PageHead × List Section) × CState)) : Except PyErr Strings :=
  let rec go (ps : List ((PageHead × List Section) × CState)) (n : Nat) (st : Strings) : Except PyErr Strings :=
    match ps with
    | [] => pure st
    | ((_, secs), cs) :: rest => do
      let st ← secs.foldlM (fun st s => (sectionSets s).foldlM (fun st (k, v) => do
        let value ← setValue cs v
        pure (addAssign st n k value)) st) st
      go rest (n + 1) st
  go pages 1 []

def storeOf (st : Strings) (name : String) : NameStore :=
  match st.find? (fun e => e.1 == name) with
  | some (_, ns) => ns
  | none => []

/-- The first-descendant chain of a page as `get_string_or_element_for` walks it: page, html, body
carry no `string-set`; then the first section and its first child. -/
def startChain (secs : List Section) (name : String) : List Bool :=
  match secs with
  | [] => [false, false, false]
  | s :: _ => [false, false, false, s.sets.any (·.1 == name), s.innerSets.any (·.1 == name)]

def renderItem (st : Strings) (page : Nat) (secs : List Section) (cs : CState) : Item → Except PyErr String
  | .text s => .ok s
  | .counter n => do
    let v ← counterValue cs n
    pure (toString v)
  | .str n kw => do
    let r ← getStringFor (storeOf st n) page kw (startChain secs n)
    pure (r.getD "")

def renderContent (st : Strings) (page : Nat) (secs : List Section) (cs : CState) (items : List Item) :
    Except PyErr String :=
  items.foldlM (fun acc it => do
    let s ← renderItem st page secs cs it
    pure (acc ++ s)) ""

/-- The sixteen margin boxes in the order `make_margin_boxes` makes them. -/
def allKeywords : List String :=
  (Gen.sideTable.flatMap (fun row =>
    (if row.vertical then Gen.verticalSuffixes else Gen.horizontalSuffixes).map
      (fun sfx => "@" ++ row.pre ++ "-" ++ sfx))) ++ Gen.cornerTable.map (·.kw)

/-- Style and text of one margin box. -/
def marginStyle (d : Doc) (st : Strings) (pt : PageType) (page : Nat) (secs : List Section) (cs : CState)
    (kw : String) : Except PyErr (MStyle × List String) := do
  let c := addPageDeclarations d.rules pt kw
  let content := match c.get "content" with
    | some (.content x, _) => x
    | _ => none
  let fs := match getDim c "font-size" (.px d.fontSize) with | .px v => v | _ => d.fontSize
  let (generated, ws) ← match content with
    | none => (pure (false, []) : Except PyErr (Bool × List String))
    | some items => do
      let ms ← marginState cs (rawCStyle c)
      let t ← renderContent st page secs ms items
      pure (true, wordsOf t)
  let (minC, maxC) := contentWidths ws fs
  pure ({ kw := kw, generated := generated
          width := getDim c "width" .auto, height := getDim c "height" .auto
          mt := getDim c "margin-top" (.px 0), mr := getDim c "margin-right" (.px 0)
          mb := getDim c "margin-bottom" (.px 0), ml := getDim c "margin-left" (.px 0)
          pt := getDim c "padding-top" (.px 0), pr := getDim c "padding-right" (.px 0)
          pb := getDim c "padding-bottom" (.px 0), pl := getDim c "padding-left" (.px 0)
          bt := borderWidth c "top", br := borderWidth c "right", bb := borderWidth c "bottom"
          bl := borderWidth c "left", minC := minC, maxC := maxC }, ws)

/-- Everything observed on one rendered page. -/
structure PageOut where
  head : PageHead
  box : PageBox
  bleed : PdfBoxes.Bleed
  counters : CState
  margin : List (Placed × List String)
  /-- texts of the page-counter boxes in the page content -/
  body : List String

def pageTypeOf (h : PageHead) : PageType :=
  { side := h.side.toCss, blank := h.blank, name := h.name, index := h.index, groups := [] }

/-- The whole document. -/
def render (d : Doc) : Except PyErr (List PageOut) := do
  let pages := docPages d
  let cascades := pages.map (fun (h, _) => addPageDeclarations d.rules (pageTypeOf h) "")
  let states ← pageStates (cascades.map rawCStyle) initialState
  let total := pages.length
  let st ← collectStrings (pages.zip (states.map (fun cs => setPages cs total)))
  let rec go (ps : List ((PageHead × List Section) × Cascaded Val × CState)) (n : Nat) :
      Except PyErr (List PageOut) :=
    match ps with
    | [] => pure []
    | ((h, secs), c, cs) :: rest => do
      let cs := setPages cs total
      let box := makePageBox (pageStyle c)
      let styled ← allKeywords.mapM (fun kw => marginStyle d st (pageTypeOf h) n secs cs kw)
      let placed ← makeMarginBoxes box.geom (styled.map (·.1))
      -- `margin_box_content_layout` → `block_container_layout` ends with
      -- `height = max(min(height, max_height), min_height)`; margin boxes of the documents have the
      -- initial `min-height: 0`, `max-height: none`, so a negative used height (possible only in a
      -- page margin of negative size) is observed as 0.
      let placed := placed.map (fun p => { p with height := max p.height 0 })
      let withText := placed.map (fun p =>
        (p, match styled.find? (fun s => s.1.kw == p.kw) with | some s => s.2 | none => []))
      -- page-based counters in the content are filled from the state of the page the box is on
      let body ← (secs.filter (·.showCounters)).mapM (fun _ => do
        let p ← counterValue cs "page"
        let ps ← counterValue cs "pages"
        let cc ← counterValue cs "c"
        pure ("p" ++ toString p ++ "of" ++ toString ps ++ "c" ++ toString cc))
      let tail ← go rest (n + 1)
      pure ({ head := h, box := box, bleed := pageBleed c, counters := cs, margin := withText, body := body } :: tail)
  go ((pages.zip (cascades.zip states))) 1

end Wp.PageDoc
