/-
C20 — drawing SVG images (images.py `SVGImage.draw`, svg/images.py `image`, svg/defs.py `get_use_tree`): the fetches
made for `<image>` elements (through `get_image_from_uri`, same cache, forced MIME type `image/*`) and external `<use>`
elements (the fetcher is called directly), for SVG images that contain SVG images at any depth, with the `_drawing`
flag of 9598d29: an `SVGImage` that is already being drawn returns at once ("includes itself").  Whatever is raised
while an SVG is drawn is caught by its `SVGImage.draw`: the rest of that SVG is not drawn.

An `SVGImage` object is identified by the key under which the image cache holds it (a cache hit hands back the same
object).  `fuel` bounds the Python recursion depth; `Props/C20Svg.lean` proves that the bound is never reached once
it exceeds the number of keys the document can produce: the drawing always terminates.  No Mathlib.
-/
import WpModel.Model.Resources

namespace Wp.Res.Doc
open Wp Wp.Res

/-- What drawing an SVG image fetches, in document order of the SVG (svg/images.py `image`,
svg/defs.py `get_use_tree`). -/
inductive SvgItem where
  | image (url : Option String)    -- `<image>`: resolved `href` (`none`: no href — `if not url: return`, nothing fetched)
  | useExternal (url : String)     -- `<use>` of another document: `svg.url_fetcher(url)` called directly, result unused
  deriving Repr, BEq, DecidableEq, Inhabited

end Wp.Res.Doc

namespace Wp.Res.Svg
open Wp Wp.Res Wp.Res.Doc

/-- The result of a drawing: the cache, the fetch events, and whether the depth bound was hit. -/
abbrev DrawOut := Cache × List Ev × Bool

/-- The key under which the image of an SVG `<image href=url>` is cached (`forced_mime_type` is not in the key). -/
def nestedKey (opts : Opts) (url : String) : String := Req.key ⟨url, .fromImage, some "image/*"⟩ opts

/-- The elements of one SVG, in order; `deeper` draws a nested `SVGImage` (by key and content id). -/
def drawItems (fetcher : Fetcher) (opts : Opts) (deeper : Cache → String → Nat → DrawOut) :
    Cache → List SvgItem → DrawOut
  | cache, [] => (cache, [], false)
  | cache, .useExternal u :: rest =>
    let (c, evs, x) := drawItems fetcher opts deeper cache rest
    (c, .call u :: evs, x)
  | cache, .image Option.none :: rest => drawItems fetcher opts deeper cache rest
  | cache, .image (some url) :: rest =>
    if url == "" then drawItems fetcher opts deeper cache rest
    else
      match getImage cache fetcher opts ⟨url, .fromImage, some "image/*"⟩ with
      | (cache', evs, .error _) => (cache', evs, false)     -- swallowed by the enclosing `SVGImage.draw`
      | (cache', evs, .ok (some (.svg c))) =>
        -- `image.draw(…)`: the nested `SVGImage.draw` swallows whatever its own elements raise
        let (c1, e1, x1) := deeper cache' (nestedKey opts url) c
        let (c2, e2, x2) := drawItems fetcher opts deeper c1 rest
        (c2, evs ++ e1 ++ e2, x1 || x2)
      | (cache', evs, .ok _) =>
        let (c2, e2, x2) := drawItems fetcher opts deeper cache' rest
        (c2, evs ++ e2, x2)

/-- `SVGImage.draw` of the object cached under `key`, whose content is `c`; `drawing`: the keys of the objects whose
`_drawing` flag is set. -/
def drawObject (fetcher : Fetcher) (opts : Opts) (info : List (Nat × List SvgItem)) :
    Nat → List String → Cache → String → Nat → DrawOut
  | 0, _, cache, _, _ => (cache, [], true)
  | fuel + 1, drawing, cache, key, c =>
    if drawing.contains key then (cache, [], false)      -- `if self._drawing: LOGGER.error(…); return`
    else drawItems fetcher opts (drawObject fetcher opts info fuel (key :: drawing)) cache ((info.lookup c).getD [])

/-- Every key a nested `<image>` of the document can produce. -/
def nestedKeys (opts : Opts) (info : List (Nat × List SvgItem)) : List String :=
  info.flatMap (fun e => e.2.filterMap (fun it => match it with
    | .image (some u) => some (nestedKey opts u)
    | _ => Option.none))

end Wp.Res.Svg
