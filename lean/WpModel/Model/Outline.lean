/-
Mirror of
  * `weasyprint/anchors.py::make_page_bookmark_tree` (skipped-levels stack, both `assert`s, the
    `last_by_depth` list of aliased children lists) and `weasyprint/document.py::make_bookmark_tree`;
  * `weasyprint/pdf/anchors.py::add_outlines` (object numbers, `Count`, `Prev/Next/First/Last/Parent`);
  * `weasyprint/pdf/anchors.py::resolve_links`;
  * `sorted(pdf_names, key=key_bytes)` of `weasyprint/pdf/__init__.py::generate_pdf` (since 09da5a8 the
    named destinations are ordered by the bytes of the written keys, not by code points).

Python failure points are explicit (`Except PyErr`): `skipped_levels.pop()` on an empty list,
`last_by_depth[depth - 1]`, the two asserts, `pdf.page_references[page]`.
No Mathlib: linked into the driver.
-/
import WpModel.Model.Wire
import WpModel.Model.Anchors
import WpModel.Model.C18PdfString

namespace Wp.Outline
open Wp Wp.Anchors

/-! ## Bookmark tree -/

/-- Target of a bookmark subtree: `(page_number, x, y)`. -/
structure Target where
  page : Int
  x : Rat
  y : Rat
  deriving Repr, BEq, DecidableEq

/-- A bookmark subtree `(label, target, children, state)`. -/
inductive BTree where
  | node (label : String) (target : Target) (children : List BTree) (state : String)
  deriving Repr

/-- One entry of `page.bookmarks` after the page matrix has been applied and the page number attached:
what the loop body of `make_page_bookmark_tree` consumes. -/
structure Entry where
  level : Int
  label : String
  target : Target
  state : String
  deriving Repr, BEq, DecidableEq

/-- An element of `last_by_depth` other than a bare list: the children list of a subtree that has
already been appended to its parent's list.  Python keeps the *same list object* in the parent tuple
and in `last_by_depth`; the zipper keeps the header of the owning subtree next to the list, and the
subtree is materialised when its list leaves `last_by_depth` (`closeOne`). -/
structure Frame where
  label : String
  target : Target
  state : String
  kids : List BTree
  deriving Repr

/-- The mutable state threaded through the pages by `make_bookmark_tree`.
`skipped` has the *top of the Python list first*; `frames` has `last_by_depth[-1]` first and
`last_by_depth[0]` (the root list, header unused) last. -/
structure BState where
  skipped : List Int
  frames : List Frame
  prev : Int
  deriving Repr

def rootFrame : Frame := ⟨"", ⟨0, 0, 0⟩, "", []⟩

/-- `skipped_levels = []; last_by_depth = [root]; previous_level = 0`. -/
def BState.init : BState := ⟨[], [rootFrame], 0⟩

def isum : List Int → Int
  | [] => 0
  | x :: xs => x + isum xs

/-- `while temp < previous_level: temp += 1 + skipped_levels.pop()`. -/
def popLoop (prev : Int) : Int → List Int → Except PyErr (Int × List Int)
  | temp, [] => if temp < prev then .error (.indexError "skipped_levels.pop") else .ok (temp, [])
  | temp, s :: rest =>
    if temp < prev then popLoop prev (temp + (1 + s)) rest else .ok (temp, s :: rest)

/-- The `if level > previous_level: … else: …` statement: the new `skipped_levels`. -/
def adjust (level prev : Int) (skipped : List Int) : Except PyErr (List Int) :=
  if level > prev then
    .ok ((level - prev - 1) :: skipped)
  else
    match popLoop prev level skipped with
    | .error e => .error e
    | .ok (temp, sk) =>
      if temp > prev then .ok ((temp - prev - 1) :: sk) else .ok sk

/-- `depth = level - sum(skipped_levels); assert depth == len(skipped_levels); assert depth >= 1`. -/
def depthOf (level : Int) (skipped : List Int) : Except PyErr Nat :=
  let depth := level - isum skipped
  if depth ≠ (skipped.length : Int) then .error (.assertFailed "depth==len")
  else if depth < 1 then .error (.assertFailed "depth>=1")
  else .ok depth.toNat

/-- The list at `last_by_depth[-1]` leaves `last_by_depth`: its owner (already a member of the list
below, by aliasing) is now final. -/
def closeOne : List Frame → List Frame
  | f :: g :: rest => { g with kids := g.kids ++ [.node f.label f.target f.kids f.state] } :: rest
  | fs => fs

def closeN : Nat → List Frame → List Frame
  | 0, fs => fs
  | n + 1, fs => closeN n (closeOne fs)

/-- `last_by_depth[depth - 1].append(subtree); del last_by_depth[depth:]; last_by_depth.append(children)`
(`depth ≥ 1`). -/
def place (depth : Nat) (e : Entry) (frames : List Frame) : Except PyErr (List Frame) :=
  if depth - 1 ≥ frames.length then .error (.indexError "last_by_depth")
  else .ok (⟨e.label, e.target, e.state, []⟩ :: closeN (frames.length - depth) frames)

/-- One iteration of the loop of `make_page_bookmark_tree`. -/
def stepEntry (st : BState) (e : Entry) : Except PyErr BState :=
  match adjust e.level st.prev st.skipped with
  | .error err => .error err
  | .ok sk =>
    match depthOf e.level sk with
    | .error err => .error err
    | .ok depth =>
      match place depth e st.frames with
      | .error err => .error err
      | .ok frames => .ok ⟨sk, frames, e.level⟩

def runEntries : BState → List Entry → Except PyErr BState
  | st, [] => .ok st
  | st, e :: rest =>
    match stepEntry st e with
    | .error err => .error err
    | .ok st' => runEntries st' rest

/-- `point_x, point_y = matrix.transform_point(point_x, point_y)` and the page number. -/
def toEntry (pageNumber : Int) (m : Matrix) (b : Bookmark) : Entry :=
  let p := m.transformPoint b.x b.y
  ⟨b.level, b.label, ⟨pageNumber, p.1, p.2⟩, b.state⟩

/-- `make_page_bookmark_tree(page, skipped_levels, last_by_depth, previous_level, page_number, matrix)`. -/
def makePageBookmarkTree (bookmarks : List Bookmark) (st : BState) (pageNumber : Int) (m : Matrix) :
    Except PyErr BState :=
  runEntries st (bookmarks.map (toEntry pageNumber m))

/-- The content of the root list: every list still in `last_by_depth` is reachable from it. -/
def rootOf (frames : List Frame) : List BTree :=
  match closeN (frames.length - 1) frames with
  | f :: _ => f.kids
  | [] => []

/-- A page as `make_bookmark_tree` sees it. -/
structure BPage where
  height : Rat
  bookmarks : List Bookmark
  deriving Repr

/-- `Matrix(a=scale, d=-scale, f=page.height * scale)` / `Matrix(a=scale, d=scale)`. -/
def bookmarkMatrix (scale : Rat) (transformPages : Bool) (height : Rat) : Matrix :=
  if transformPages then { a := scale, d := -scale, f := height * scale }
  else { a := scale, d := scale }

def runPages (scale : Rat) (transformPages : Bool) : BState → Nat → List BPage → Except PyErr BState
  | st, _, [] => .ok st
  | st, n, p :: rest =>
    match makePageBookmarkTree p.bookmarks st (n : Int) (bookmarkMatrix scale transformPages p.height) with
    | .error err => .error err
    | .ok st' => runPages scale transformPages st' (n + 1) rest

/-- `Document.make_bookmark_tree(scale, transform_pages)`. -/
def makeBookmarkTree (pages : List BPage) (scale : Rat) (transformPages : Bool) :
    Except PyErr (List BTree) :=
  match runPages scale transformPages BState.init 0 pages with
  | .error err => .error err
  | .ok st => .ok (rootOf st.frames)

/-! ## Outlines -/

/-- One outline dictionary written by `add_outlines` (`num` = its object number). -/
structure Outline where
  num : Nat
  title : String
  pageRef : Nat
  x : Rat
  y : Rat
  count : Int
  prev : Option Nat
  next : Option Nat
  first : Option Nat
  last : Option Nat
  parent : Option Nat
  deriving Repr, BEq, DecidableEq

inductive ONode where
  | mk (o : Outline) (kids : List ONode)
  deriving Repr

def ONode.outline : ONode → Outline
  | .mk o _ => o

/-- `pdf.page_references[page]` (a tuple: negative indices count from the end). -/
def pageReference (refs : List Nat) (page : Int) : Except PyErr Nat :=
  let n : Int := refs.length
  let i := if page < 0 then page + n else page
  if i < 0 ∨ i ≥ n then .error (.indexError "page_references")
  else match refs[i.toNat]? with
    | some r => .ok r
    | none => .error (.indexError "page_references")

def headNum : List ONode → Option Nat
  | [] => none
  | n :: _ => some n.outline.num

def lastNum : List ONode → Option Nat
  | [] => none
  | [n] => some n.outline.num
  | _ :: rest => lastNum rest

mutual
/-- The loop body of `add_outlines` for one bookmark: `next` is `len(pdf.objects)` on entry, `prev` the
reference of `outlines[-1]` if any.  The `Next` field is filled by the caller (it is assigned when
the following sibling is created).  Returns the node, what it adds to the caller's `count`, and the
new `len(pdf.objects)`. -/
def addOutline (refs : List Nat) (parent prev : Option Nat) (next : Nat) :
    BTree → Except PyErr (ONode × Int × Nat)
  | .node title target children state =>
    match pageReference refs target.page with
    | .error e => .error e
    | .ok pref =>
      match addOutlineList refs (some next) none (next + 1) children with
      | .error e => .error e
      | .ok (kids, childrenCount, next') =>
        let closed := state == "closed"
        let o : Outline :=
          { num := next, title := title, pageRef := pref, x := target.x, y := target.y
            count := if closed then childrenCount * -1 else childrenCount
            prev := prev, next := none
            first := headNum kids, last := lastNum kids
            parent := parent }
        .ok (.mk o kids, if closed then 1 else 1 + childrenCount, next')
/-- `for … in bookmarks:` with `count = len(bookmarks)` accumulated as 1 per entry. -/
def addOutlineList (refs : List Nat) (parent prev : Option Nat) (next : Nat) :
    List BTree → Except PyErr (List ONode × Int × Nat)
  | [] => .ok ([], 0, next)
  | t :: rest =>
    match addOutline refs parent prev next t with
    | .error e => .error e
    | .ok (.mk o kids, c, next') =>
      match addOutlineList refs parent (some o.num) next' rest with
      | .error e => .error e
      | .ok (nodes, c', next'') =>
        -- `outlines[-1]['Next'] = outline.reference` when the following sibling is created
        let o := { o with next := headNum nodes }
        .ok (.mk o kids :: nodes, c + c', next'')
end

/-- The outlines dictionary (`Count`, `First`, `Last`) added when `parent is None and outlines`. -/
structure OutlinesDict where
  num : Nat
  count : Int
  first : Nat
  last : Nat
  deriving Repr, BEq, DecidableEq

def setParent (p : Nat) : ONode → ONode
  | .mk o kids => .mk { o with parent := some p } kids

structure OutlinesResult where
  nodes : List ONode
  count : Int
  dict : Option OutlinesDict
  deriving Repr

/-- `add_outlines(pdf, bookmarks, parent)`; `next = len(pdf.objects)`. -/
def addOutlines (refs : List Nat) (next : Nat) (bookmarks : List BTree) (parent : Option Nat) :
    Except PyErr OutlinesResult :=
  match addOutlineList refs parent none next bookmarks with
  | .error e => .error e
  | .ok (nodes, count, next') =>
    match parent, headNum nodes, lastNum nodes with
    | none, some f, some l =>
      .ok ⟨nodes.map (setParent next'), count, some ⟨next', count, f, l⟩⟩
    | _, _, _ => .ok ⟨nodes, count, none⟩

mutual
/-- The outline dictionaries in the order of `pdf.objects`. -/
def flattenNode : ONode → List Outline
  | .mk o kids => o :: flattenNodes kids
def flattenNodes : List ONode → List Outline
  | [] => []
  | n :: rest => flattenNode n ++ flattenNodes rest
end

/-! ## Links -/

/-- `(anchor_name, (point_x, point_y, _, _))` of `page.anchors.items()`. -/
structure Anchor where
  name : String
  x : Rat
  y : Rat
  deriving Repr, BEq, DecidableEq

/-- `(link_type, target, rectangle, box)`; rectangle and box are carried through as `id`. -/
structure Link where
  type : String
  target : String
  id : Nat
  deriving Repr, BEq, DecidableEq

structure LPage where
  anchors : List Anchor
  links : List Link
  deriving Repr

/-- First loop of `resolve_links` for one page: `(paged_anchors[-1], anchors)`. -/
def pageAnchors : List Anchor → List String → List Anchor × List String
  | [], seen => ([], seen)
  | a :: rest, seen =>
    if seen.contains a.name then pageAnchors rest seen
    else
      let r := pageAnchors rest (seen ++ [a.name])
      (a :: r.1, r.2)

def allAnchors : List LPage → List String → List (List Anchor) × List String
  | [], seen => ([], seen)
  | p :: rest, seen =>
    let r := pageAnchors p.anchors seen
    let r' := allAnchors rest r.2
    (r.1 :: r'.1, r'.2)

/-- Second loop for one page. -/
def pageLinks (anchors : List String) : List Link → List Link
  | [] => []
  | l :: rest =>
    if l.type == "internal" then
      if !anchors.contains l.target then pageLinks anchors rest
      else l :: pageLinks anchors rest
    else l :: pageLinks anchors rest

/-- The `LOGGER.error('No anchor #%s for internal URI reference', anchor_name)` calls of one page, in order. -/
def pageErrors (anchors : List String) : List Link → List String
  | [] => []
  | l :: rest =>
    if l.type == "internal" && !anchors.contains l.target then l.target :: pageErrors anchors rest
    else pageErrors anchors rest

/-- All error messages of `list(resolve_links(pages))`: one per dropped link. -/
def resolveErrors (pages : List LPage) : List String :=
  let names := (allAnchors pages []).2
  pages.flatMap fun p => pageErrors names p.links

/-- `list(resolve_links(pages))`. -/
def resolveLinks (pages : List LPage) : List (List Link × List Anchor) :=
  let r := allAnchors pages []
  (pages.map (fun p => pageLinks r.2 p.links)).zip r.1

/-! ## Name tree order -/

/-- Python `bytes.__lt__` (and `str.__lt__`): lexicographic on the elements. -/
def nameLt : List Nat → List Nat → Bool
  | [], [] => false
  | [], _ :: _ => true
  | _ :: _, [] => false
  | a :: as, b :: bs => if a < b then true else if b < a then false else nameLt as bs

/-- `key_bytes(anchor)` of `generate_pdf`: `name.encode('ascii')` when `name.isascii()`, else
`BOM_UTF16_BE + name.encode('utf-16-be')` — the bytes of the string object `pydyf.String(name)`
denotes.  (A lone surrogate cannot come out of the HTML parser; `encode` would raise on it exactly
where `pydyf.String.data` raises when the file is written: `Wp.PdfStr.encode`.) -/
def keyBytes (name : List Nat) : List Nat :=
  if name.all (· < 128) then name else 254 :: 255 :: name.flatMap Wp.PdfStr.utf16be

def insertName (x : List Nat × Nat) : List (List Nat × Nat) → List (List Nat × Nat)
  | [] => [x]
  | y :: ys => if nameLt (keyBytes y.1) (keyBytes x.1) then y :: insertName x ys else x :: y :: ys

/-- `sorted(pdf_names, key=key_bytes)`: only the name is compared; the second component identifies the
destination.  Stable insertion sort (as `sorted` is stable). -/
def sortNames : List (List Nat × Nat) → List (List Nat × Nat)
  | [] => []
  | x :: xs => insertName x (sortNames xs)

end Wp.Outline
