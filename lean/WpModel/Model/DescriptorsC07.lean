/-
C07 — the descriptor funnel `preprocess_descriptors` (weasyprint/css/validation/descriptors.py: @font-face and
@counter-style blocks) and `expand_font_variant` (same file; wrapped generator of the `font-variant` shorthand).
The registry `DESCRIPTORS` and the descriptor `NOT_PRINT_MEDIA` are regenerated (Gen/DescriptorsC07).
No Mathlib, no Std: linked into the driver.
-/
import WpModel.Model.Wire
import WpModel.Model.Declarations
import WpModel.Gen.DescriptorsC07

namespace Wp.Decl
open Wp

/-- What the loop of `preprocess_descriptors` reads of one item. -/
structure Desc where
  kind : ItemKind
  name : String          -- `descriptor.name`, as written (the loop does not lower-case it)
  important : Bool
  noTokens : Bool := false   -- `not remove_whitespace(descriptor.value)`: an empty value
  id : Nat
  deriving Repr, BEq, DecidableEq

/-- `DESCRIPTORS[rule]` (generated). -/
def knownDescriptors (rule : String) : List String := (Gen.DescriptorsC07.descriptors.lookup rule).getD []

/-- One turn of `preprocess_descriptors(rule, base_url, descriptors)`.
`validate name d` = `DESCRIPTORS[rule][name](tokens[, base_url])` (`none` = Python `None`). -/
def preprocessDescriptorOne {β : Type} (rule : String) (validate : String → Desc → R (Option β)) (d : Desc) :
    Except Fail (List (String × β)) :=
  if d.kind ≠ .declaration || d.important then pure []
  else if d.noTokens then pure []            -- `if not tokens: raise InvalidValues('no value')` (fix: d71ddd0)
  else if Gen.DescriptorsC07.notPrintMedia.contains d.name then pure []        -- `continue` inside the try
  else if !(knownDescriptors rule).contains d.name then pure []                -- 'descriptor not supported'
  else match validate d.name d with
    | .ok (some v) => pure [(dashToUnderscore d.name, v)]
    | .ok none => pure []                    -- `if value is None: raise InvalidValues`
    | .error .invalid => pure []
    | .error f => throw f

/-- `list(preprocess_descriptors(rule, base_url, descriptors))`. -/
def preprocessDescriptors {β : Type} (rule : String) (validate : String → Desc → R (Option β)) :
    List Desc → Except Fail (List (String × β))
  | [] => pure []
  | d :: rest => do
    let a ← preprocessDescriptorOne rule validate d
    let b ← preprocessDescriptors rule validate rest
    pure (a ++ b)

/-! ### `expand_font_variant` -/

/-- A token of a `font-variant` value: `get_keyword(token) == 'normal'`, and the first of
alternates / caps / east-asian / ligatures / numeric / position whose validator is truthy on it. -/
structure VariantTok (α : Type) where
  isNormal : Bool
  feature : Option String
  tok : α
  deriving Repr, BEq, DecidableEq

def variantFeatures : List String := ["alternates", "caps", "east-asian", "ligatures", "numeric", "position"]

/-- `for token in tokens:` — `none` = InvalidValues. -/
def variantCollect {α : Type} : List (VariantTok α) → List (String × List α) → Option (List (String × List α))
  | [], acc => some acc
  | t :: rest, acc =>
    if t.isNormal then none
    else match t.feature with
      | none => none
      | some f => variantCollect rest (acc.map fun (k, v) => if k == f then (k, v ++ [t.tok]) else (k, v))

/-- `expand_font_variant(tokens)`. `singleKw`: `get_single_keyword(tokens)`; `normalTok` / `noneTok`: the fake
ident tokens. -/
def fontVariantRaw {α : Type} (singleKw : Option String) (normalTok noneTok : α) (toks : List (VariantTok α)) :
    Raw (List α) :=
  if singleKw == some "normal" || singleKw == some "none" then
    { items := ["-alternates", "-caps", "-east-asian", "-numeric", "-position"].map (fun s => (s, [normalTok])) ++
        [("-ligatures", [if singleKw == some "normal" then normalTok else noneTok])],
      ends := none }
  else
    match variantCollect toks (variantFeatures.map fun f => (f, [])) with
    | none => { items := [], ends := some .invalid }
    | some features =>
      { items := (features.filter fun (_, v) => !v.isEmpty).map fun (k, v) => ("-" ++ k, v), ends := none }

end Wp.Decl
