/-
The sheet of a page — `size`, `marks`, `bleed-*` from declaration tokens to used values: mirror of
  weasyprint/css/utils.py `get_length`, `get_keyword`,
  weasyprint/css/validation/properties.py `size`, `marks`, `bleed` (validators; `None` = invalid),
  weasyprint/css/computed_values.py `length` (absolute units, `em`, `rem`; `ex` / `ch` need font metrics and are
  outside the model), `length_tuple` (for `size`), `bleed`,
with the tables `PAGE_SIZES`, `INITIAL_PAGE_SIZE`, `LENGTHS_TO_PIXELS`, `LENGTH_UNITS` regenerated from the source
(`Gen/PageSizes.lean`).  `Page.width` / `Page.height` are the computed `size` when the page box fills the sheet
(`Props/C14.page_fills_sheet`), `Page.bleed` the computed `bleed-*`.
No Mathlib, no Std: linked into the compiled driver.
-/
import WpModel.Model.Wire
import WpModel.Gen.PageSizes

namespace Wp.PageSheet
open Wp

/-- A component value of a declaration as far as the three validators look. -/
inductive STok where
  | dim (v : Rat) (unit : String)     -- `token.type == 'dimension'` (`token.unit` as written)
  | num (v : Rat)                     -- `token.type == 'number'`
  | pct (v : Rat)                     -- `token.type == 'percentage'`
  | ident (lower : String)            -- `token.type == 'ident'` (`lower_value`)
  | other
  deriving Repr, BEq, DecidableEq, Inhabited

/-- `Dimension(value, unit)`; `unit = none` is Python `None` (the number `0`). -/
structure SDim where
  value : Rat
  unit : Option String
  deriving Repr, BEq, DecidableEq, Inhabited

/-- `LENGTH_UNITS`. -/
def lengthUnits : List String := Gen.absoluteUnits.map (·.1) ++ Gen.relativeUnits

/-- `get_length(token, negative, percentage=False)`. -/
def getLength (negative : Bool) (t : STok) : Option SDim :=
  match t with
  | .dim v u => if lengthUnits.contains u && (negative || v ≥ 0) then some ⟨v, some u⟩ else none
  | .num v => if v = 0 then some ⟨0, none⟩ else none
  | _ => none

/-- `get_keyword(token)`. -/
def getKeyword : STok → Option String
  | .ident l => some l
  | _ => none

/-- `PAGE_SIZES.get(keyword)` as a pair of dimensions. -/
def lookupSize (kw : String) : Option (SDim × SDim) :=
  match Gen.pageSizes.find? (fun r => r.1 == kw) with
  | some (_, w, h, u) => some (⟨w, some u⟩, ⟨h, some u⟩)
  | none => none

/-- `INITIAL_PAGE_SIZE`. -/
def initialPageSize : Option (SDim × SDim) := lookupSize Gen.initialPageSize

def isOrientation (k : Option String) : Bool := k == some "portrait" || k == some "landscape"

/-- The first part of `size(tokens)`: `if all(lengths):` one length → a square, two → `(w, h)`. -/
def sizeByLengths (lengths : List (Option SDim)) : Option (SDim × SDim) :=
  if lengths.all Option.isSome then
    match lengths with
    | [some a] => some (a, a)
    | [some a, some b] => some (a, b)
    | _ => none
  else none

/-- The second part: one keyword (a name, `auto`, `portrait`, `landscape`) or a name and an orientation. -/
def sizeByKeywords (keywords : List (Option String)) : Option (SDim × SDim) :=
  match keywords with
  | [k] =>
    match k with
    | none => none
    | some kw =>
      match lookupSize kw with
      | some sz => some sz
      | none =>
        if kw == "auto" || kw == "portrait" then initialPageSize
        else if kw == "landscape" then initialPageSize.map (fun (w, h) => (h, w))
        else none
  | [k0, k1] =>
    -- (orientation, page_size) = keywords / (page_size, orientation) = keywords / page_size = None
    let (orientation, pageSize) : Option String × Option String :=
      if isOrientation k0 then (k0, k1) else if isOrientation k1 then (k1, k0) else (none, none)
    match pageSize.bind lookupSize with
    | some (w, h) => if orientation == some "portrait" then some (w, h) else some (h, w)
    | none => none
  | _ => none

/-- `size(tokens)` (validation/properties.py); `none` is `return None` (the declaration is invalid). -/
def sizeValidate (toks : List STok) : Option (SDim × SDim) :=
  match sizeByLengths (toks.map (getLength false)) with
  | some r => some r
  | none => sizeByKeywords (toks.map getKeyword)

/-- `marks(tokens)`: the tuple of keywords, `none` = invalid. -/
def marksValidate (toks : List STok) : Option (List String) :=
  match toks with
  | [a, b] =>
    let ks := [getKeyword a, getKeyword b]
    if ks.contains (some "crop") && ks.contains (some "cross") then
      some (ks.filterMap id)
    else none
  | [a] =>
    match getKeyword a with
    | some "crop" => some ["crop"]
    | some "cross" => some ["cross"]
    | some "none" => some []
    | _ => none
  | _ => none

/-- A validated `bleed-*`: `'auto'` or a length. -/
inductive BleedV where
  | auto
  | len (d : SDim)
  deriving Repr, BEq, DecidableEq, Inhabited

/-- `bleed(token)` under `@single_token`. -/
def bleedValidate (toks : List STok) : Option BleedV :=
  match toks with
  | [t] =>
    if getKeyword t == some "auto" then some .auto
    else (getLength true t).map .len
  | _ => none

/-- Outcome of `computed_values.length(…, pixels_only=True)`. -/
inductive Px where
  | px (v : Rat)
  | needsFont          -- `ex` / `ch`: `character_ratio` (Pango), not modelled
  | typeError          -- `Dimension(v ≠ 0, None)` cannot be produced by the validators
  deriving Repr, BEq, DecidableEq, Inhabited

/-- `length(style, name, value, pixels_only=True)` for a `Dimension`: `fontSize` is `style['font_size']`,
`rootFontSize` is `style.root_style['font_size']`. -/
def computeLength (fontSize rootFontSize : Rat) (d : SDim) : Px :=
  if d.value = 0 then .px 0
  else
    match d.unit with
    | none => .typeError
    | some u =>
      if u == "px" then .px d.value
      else
        match Gen.absoluteUnits.find? (fun r => r.1 == u) with
        | some (_, f) => .px (d.value * f)
        | none =>
          if u == "em" then .px (d.value * fontSize)
          else if u == "rem" then .px (d.value * rootFontSize)
          else if u == "ex" || u == "ch" then .needsFont
          else .typeError

/-- `length_tuple` on the validated `size`. -/
def sizeComputed (fontSize rootFontSize : Rat) (sz : SDim × SDim) : Px × Px :=
  (computeLength fontSize rootFontSize sz.1, computeLength fontSize rootFontSize sz.2)

/-- `computed_values.bleed(style, name, value)`: `'auto'` is 8px (6pt) when `marks` contains `crop`, else 0. -/
def bleedComputed (marks : List String) (fontSize rootFontSize : Rat) (v : BleedV) : Px :=
  match v with
  | .auto => .px (if marks.contains "crop" then 8 else 0)
  | .len d => computeLength fontSize rootFontSize d

/-! ## From the declarations of one `@page` rule to the sheet -/

/-- The sheet of a page as `Page` exposes it: `width`, `height`, `bleed` (one value: the `bleed` shorthand). -/
structure Sheet where
  width : Px
  height : Px
  bleed : Px
  marks : List String
  deriving Repr, BEq, DecidableEq, Inhabited

/-- One author `@page { size: …; marks: …; bleed: … }` rule over a user-agent sheet that sets `bleed` to
`uaBleed` (`none`: the initial `auto`): an invalid declaration is dropped, the property then keeps the
user-agent / initial value (`size`: `INITIAL_PAGE_SIZE`; `marks`: `none`). -/
def sheetOf (fontSize rootFontSize : Rat) (uaBleed : Option Rat) (size marks bleed : Option (List STok)) : Sheet :=
  let sz := match size.bind sizeValidate with
    | some s => some s
    | none => initialPageSize
  let (w, h) := match sz with
    | some s => sizeComputed fontSize rootFontSize s
    | none => (.typeError, .typeError)
  let mk := match marks.bind marksValidate with
    | some m => m
    | none => []
  let bl := match bleed.bind bleedValidate with
    | some b => bleedComputed mk fontSize rootFontSize b
    | none => match uaBleed with
      | some q => .px q
      | none => bleedComputed mk fontSize rootFontSize .auto
  { width := w, height := h, bleed := bl, marks := mk }

end Wp.PageSheet
