/-
The "table height algorithm" of `group_layout` (`weasyprint/layout/table.py`) for the rows of one row
group, *given* each cell's box after its content was laid out (border/padding top and bottom, content
height, `vertical-align` class, baseline): baseline alignment of the cells of a row (extra top
padding), `ending_cells_by_row` (a row-spanning cell ends in a later row), the row height (auto or
specified), the extra padding that makes every ending cell reach the row bottom according to
`vertical-align`, and the stacking of the rows (`next_position_y`).
No Mathlib: linked into `driver_c10`.
-/
import WpModel.Model.Wire

namespace Wp.RowHeights
open Wp

inductive VAlign where
  | top | middle | bottom | baseline
  deriving Repr, DecidableEq

/-- A cell as `block_container_layout` left it. -/
structure HCell where
  rowspan : Nat
  borderTop : Rat
  padTop : Rat
  height : Rat        -- content height (`max(cell.height, cell.computed_height)`)
  padBottom : Rat
  borderBottom : Rat
  valign : VAlign
  baseline : Rat      -- `cell_baseline(cell)`, read only for `baseline` cells
  deriving Repr

structure HRow where
  height : Len        -- `row.height` after `resolve_percentages`: `'auto'` or a length
  cells : List HCell
  deriving Repr

/-- A cell once placed: its row's `position_y` and the paddings so far. -/
structure Placed where
  y : Rat
  cell : HCell
  padTop : Rat
  padBottom : Rat
  deriving Repr

def Placed.borderHeight (p : Placed) : Rat :=
  p.cell.borderTop + p.padTop + p.cell.height + p.padBottom + p.cell.borderBottom

def maxList : List Rat → Option Rat
  | [] => none
  | x :: xs => match maxList xs with
    | none => some x
    | some m => some (if m > x then m else x)

/-- "Set row baseline with cells with vertical-align: baseline": the row baseline and the cells with
the extra top padding `row.baseline - cell.baseline` (added when it is not zero). -/
def alignBaselines (y : Rat) (cells : List HCell) : Option Rat × List Placed :=
  let bl := maxList ((cells.filter (fun c => c.valign = .baseline)).map (·.baseline))
  (bl, cells.map (fun c =>
    match bl with
    | some b =>
      if c.valign = .baseline ∧ c.baseline ≠ b then ⟨y, c, c.padTop + (b - c.baseline), c.padBottom⟩
      else ⟨y, c, c.padTop, c.padBottom⟩
    | none => ⟨y, c, c.padTop, c.padBottom⟩))

/-- "Add extra padding to make the cells the same height as the row and honor vertical-align". -/
def stretch (rowBottom : Rat) (p : Placed) : Placed :=
  let extra := rowBottom - (p.y + p.borderHeight)
  if extra = 0 then p
  else match p.cell.valign with
    | .bottom => { p with padTop := p.padTop + extra }
    | .middle => { p with padTop := p.padTop + extra / 2, padBottom := p.padBottom + extra / 2 }
    | _ => { p with padBottom := p.padBottom + extra }

structure RowOut where
  y : Rat
  height : Rat
  baseline : Option Rat     -- from the baseline-aligned cells, relative to the row top
  fallback : Rat            -- `row.baseline = row_bottom_y` without such cells: an *absolute* y
  ending : List Placed      -- the cells ending in this row, stretched
  deriving Repr

/-- One row: `pending` = cells of earlier rows still spanning, with the number of rows left (1 = ends
here). Returns the row, and the cells still pending afterwards. -/
def rowStep (y : Rat) (row : HRow) (pending : List (Nat × Placed)) :
    Except PyErr (RowOut × List (Nat × Placed)) :=
  let (bl, placed) := alignBaselines y row.cells
  -- `ending_cells_by_row[cell.rowspan - 1].append(cell)`: rowspan 0 would index -1 (the last row)
  if placed.any (fun p => p.cell.rowspan = 0) then .error (.indexError "ending_cells_by_row")
  else
    let all := pending ++ placed.map (fun p => (p.cell.rowspan, p))
    let ending := (all.filter (fun q => q.1 = 1)).map (·.2)
    let later := (all.filter (fun q => q.1 ≠ 1)).map (fun q => (q.1 - 1, q.2))
    match maxList (ending.map (fun p => p.y + p.borderHeight)), maxList (ending.map (·.borderHeight)) with
    | some bottom, some tallest =>
      let (height, rowBottom) := match row.height with
        | none => (if bottom - y > 0 then bottom - y else 0, bottom)
        | some h => let h' := if tallest > h then tallest else h; (h', y + h')
      .ok (⟨y, height, bl, rowBottom, ending.map (stretch rowBottom)⟩, later)
    | _, _ =>
      -- no cell ends in this row
      .ok (⟨y, 0, bl, y, []⟩, later)

/-- All rows of a group from `y`, `sp` apart. -/
def rowsFrom (sp : Rat) : Rat → List HRow → List (Nat × Placed) → Except PyErr (List RowOut)
  | _, [], _ => .ok []
  | y, row :: rest, pending =>
    match rowStep y row pending with
    | .error e => .error e
    | .ok (out, later) =>
      match rowsFrom sp (y + out.height + sp) rest later with
      | .error e => .error e
      | .ok outs => .ok (out :: outs)

end Wp.RowHeights
