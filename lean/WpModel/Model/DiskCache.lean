/-
C19 — `weasyprint/document.py::DiskCache`, the dict-like object a caller may pass as `options['cache']`:
```
def __getitem__(self, key):
    if key in self._memory_cache: return self._memory_cache[key]
    else: return self._path_from_key(key).read_bytes()            # FileNotFoundError
def __setitem__(self, key, value):
    if isinstance(value, bytes): path = self._path_from_key(key); self._disk_paths.add(path); path.write_bytes(value)
    else: self._memory_cache[key] = value
def __contains__(self, key):
    return key in self._memory_cache or self._path_from_key(key).exists()
```
The folder is a map from keys to byte strings (`_path_from_key` = md5 of the key: assumed injective).  Values are the
entries of the image cache model.  No Mathlib.
-/
import WpModel.Model.ImageCache

namespace Wp.DiskCache
open Wp Wp.ImageCache

structure Disk where
  /-- `_memory_cache` -/
  memory : Cache
  /-- the files of the folder -/
  files : Cache
  deriving Repr, Inhabited

def empty : Disk := ⟨[], []⟩

def isBytes : Entry → Bool
  | .bytes _ => true
  | .image _ => false

/-- `cache[key]` -/
def getItem (d : Disk) (k : String) : Except PyErr Entry :=
  match lookup d.memory k with
  | some v => .ok v
  | none =>
    match lookup d.files k with
    | some v => .ok v
    | none => .error (.valueError "FileNotFoundError:read_bytes")

/-- `cache[key] = value` -/
def setItem (d : Disk) (k : String) (v : Entry) : Disk :=
  if isBytes v then { d with files := insert d.files k v } else { d with memory := insert d.memory k v }

/-- `key in cache` -/
def contains (d : Disk) (k : String) : Bool :=
  (lookup d.memory k).isSome || (lookup d.files k).isSome

/-- What a `dict` answers for the same requests: `get` of a missing key is a `KeyError`. -/
def dictGet (c : Cache) (k : String) : Except PyErr Entry :=
  match lookup c k with
  | some v => .ok v
  | none => .error (.indexError "KeyError:cache[key]")

inductive Op where
  | set (k : String) (v : Entry)
  | get (k : String)
  | has (k : String)
  deriving Repr, Inhabited

def showEntry : Entry → String
  | .bytes (.orig n) => "bytes:" ++ toString n
  | .image (some (.svg _ n)) => "object:" ++ toString n
  | .image none => "none"
  | _ => "other"

/-- Observable answers of a sequence of operations on a `DiskCache` (`set` answers nothing). -/
def runDisk : Disk → List Op → List String
  | _, [] => []
  | d, .set k v :: rest => runDisk (setItem d k v) rest
  | d, .get k :: rest =>
    (match getItem d k with
      | .ok e => showEntry e | .error _ => "err:FileNotFoundError") :: runDisk d rest
  | d, .has k :: rest => (if contains d k then "true" else "false") :: runDisk d rest

end Wp.DiskCache
