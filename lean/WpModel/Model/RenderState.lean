/-
C19 — control-flow model of `HTML.render` → `Document._render` → `Document._build_layout_context`
(weasyprint/__init__.py, weasyprint/document.py) and the head of `css.get_all_computed_styles`: which objects are
created per call, which are the caller's, which module-level objects are read.

Objects are identities (`Nat`): the caller's objects carry the ids the caller chose; every object the code creates
takes the next id of an allocation counter threaded through successive renders.  Module-level objects
(`HTML5_UA_STYLESHEET`, `HTML5_UA_COUNTER_STYLE`, `DEFAULT_OPTIONS`) are only read (`.copy()` / iteration): the model
has no event that writes one — its tie to the source is `Gen.moduleState` (every store into a module-level name found
in the source) plus the deep snapshots of the history harness.  No Mathlib.
-/
import WpModel.Model.Wire

namespace Wp.RenderState
open Wp

/-- `options['cache']`. -/
inductive CacheOpt where
  | none
  | dict (id : Nat)
  | diskCache (id : Nat)
  /-- anything else: a folder name, wrapped in a new `DiskCache` -/
  | folder
  deriving Repr, DecidableEq, BEq, Inhabited

/-- An element of `options['stylesheets']`: a `CSS` object (has `matcher`) or something to `guess`. -/
inductive Sheet where
  | css (id : Nat)
  | raw
  deriving Repr, DecidableEq, BEq, Inhabited

structure RenderIn where
  fontConfig : Option Nat
  counterStyle : Option Nat
  cache : CacheOpt
  stylesheets : Option (List Sheet)
  /-- the document's own style sheets contain an `@font-face` rule (`find_stylesheets` → `preprocess_stylesheet` →
  `font_config.add_font_face`) -/
  docFontFaces : Bool
  deriving Repr, DecidableEq, BEq, Inhabited

inductive Kind where
  | options | fontConfig | counterStyle | targetCollector | pageRules | cacheDict | diskCache | css
  | uaCounterCopy | styleFor | imagePartial | layoutContext | metadata | document
  deriving Repr, DecidableEq, BEq, Inhabited

def Kind.name : Kind → String
  | .options => "options" | .fontConfig => "FontConfiguration" | .counterStyle => "CounterStyle"
  | .targetCollector => "TargetCollector" | .pageRules => "page_rules" | .cacheDict => "dict"
  | .diskCache => "DiskCache" | .css => "CSS" | .uaCounterCopy => "ua_counter_style_copy"
  | .styleFor => "StyleFor" | .imagePartial => "partial" | .layoutContext => "LayoutContext"
  | .metadata => "DocumentMetadata" | .document => "Document"

inductive Global where
  | defaultOptions | uaCounterStyle | uaStylesheet
  deriving Repr, DecidableEq, BEq, Inhabited

inductive Ev where
  /-- an object is created by this call -/
  | alloc (k : Kind) (id : Nat)
  /-- a module-level object is read (copied / iterated) -/
  | readGlobal (g : Global)
  /-- the counter style in use is written to (`counter_style[key] = value`) -/
  | writeObj (id : Nat)
  /-- the font configuration in use is written to (`font_config.add_font_face(…)` for the document's `@font-face`) -/
  | writeFont (id : Nat)
  deriving Repr, DecidableEq, BEq, Inhabited

/-- What `LayoutContext(style_for, get_image_from_uri, font_config, counter_style, target_collector)` and the final
`Document` hold. -/
structure RenderOut where
  events : List Ev
  next : Nat
  fontConfig : Nat
  counterStyle : Nat
  cache : Nat
  targetCollector : Nat
  styleFor : Nat
  context : Nat
  userSheets : List Nat
  document : Nat
  deriving Repr, DecidableEq, BEq, Inhabited

/-- `for css in options['stylesheets'] or []: if not hasattr(css, 'matcher'): css = CSS(guess=css, …)`. -/
def userSheets (next : Nat) : List Sheet → List Ev × List Nat × Nat
  | [] => ([], [], next)
  | .css id :: rest =>
    let r := userSheets next rest
    (r.1, id :: r.2.1, r.2.2)
  | .raw :: rest =>
    let r := userSheets (next + 1) rest
    (.alloc .css next :: r.1, next :: r.2.1, r.2.2)

/-- `if x is None: x = Cls()`: events, the object used, the next unused identity. -/
def orNew (k : Kind) (next : Nat) : Option Nat → List Ev × Nat × Nat
  | some id => ([], id, next)
  | none => ([.alloc k next], next, next + 1)

/-- `cache = options['cache']; if cache is None: cache = {} elif not isinstance(cache, (dict, DiskCache)):
cache = DiskCache(cache)`. -/
def cacheStep (next : Nat) : CacheOpt → List Ev × Nat × Nat
  | .none => ([.alloc .cacheDict next], next, next + 1)
  | .dict id => ([], id, next)
  | .diskCache id => ([], id, next)
  | .folder => ([.alloc .diskCache next], next, next + 1)

/-- One `HTML.render(font_config, counter_style, **options)`; `next` = first unused identity.
Order of the source:
* HTML.render: `new_options = DEFAULT_OPTIONS.copy(); new_options.update(options)`
* Document._render: `if font_config is None: font_config = FontConfiguration()`, same for `counter_style`
* _build_layout_context: `target_collector = TargetCollector(); page_rules = []`, cache, user stylesheets
* get_all_computed_styles: `for style in html._ua_counter_style(): … counter_style[key] = value`, UA sheets,
  `find_stylesheets` (parses the document's sheets: `@font-face` → `font_config.add_font_face`), `StyleFor`
* `functools.partial(original_get_image_from_uri, cache=cache, …)`, `LayoutContext(…)`
* `cls([Page(…)…], DocumentMetadata(**get_html_metadata(html)), html.url_fetcher, font_config)` -/
def render (next : Nat) (i : RenderIn) : RenderOut :=
  let n0 := next + 1
  let f := orNew .fontConfig n0 i.fontConfig
  let c := orNew .counterStyle f.2.2 i.counterStyle
  let n1 := c.2.2
  let k := cacheStep (n1 + 2) i.cache
  let us := userSheets k.2.2 (i.stylesheets.getD [])
  let n2 := us.2.2
  { events :=
      [Ev.readGlobal .defaultOptions, Ev.alloc .options next] ++ f.1 ++ c.1 ++
      [Ev.alloc .targetCollector n1, Ev.alloc .pageRules (n1 + 1)] ++ k.1 ++ us.1 ++
      [Ev.readGlobal .uaCounterStyle, Ev.alloc .uaCounterCopy n2, Ev.writeObj c.2.1,
       Ev.readGlobal .uaStylesheet] ++ (if i.docFontFaces then [Ev.writeFont f.2.1] else []) ++
      [Ev.alloc .styleFor (n2 + 1), Ev.alloc .imagePartial (n2 + 2), Ev.alloc .layoutContext (n2 + 3),
       Ev.alloc .metadata (n2 + 4), Ev.alloc .document (n2 + 5)],
    next := n2 + 6, fontConfig := f.2.1, counterStyle := c.2.1, cache := k.2.1,
    targetCollector := n1, styleFor := n2 + 1, context := n2 + 3, userSheets := us.2.1,
    document := n2 + 5 }

/-- Identities created by a call. -/
def allocated : List Ev → List Nat
  | [] => []
  | .alloc _ id :: rest => id :: allocated rest
  | _ :: rest => allocated rest

/-- Identities the caller handed in. -/
def callerObjects (i : RenderIn) : List Nat :=
  i.fontConfig.toList ++ i.counterStyle.toList ++
  (match i.cache with | .dict id => [id] | .diskCache id => [id] | _ => []) ++
  (i.stylesheets.getD []).filterMap (fun s => match s with | .css id => some id | .raw => none)

/-- Everything the layout of a call can reach through its `LayoutContext` and its `Document`. -/
def reachable (o : RenderOut) : List Nat :=
  [o.fontConfig, o.counterStyle, o.cache, o.targetCollector, o.styleFor, o.context, o.document] ++ o.userSheets

/-- A history of renders in one process: the allocation counter is threaded. -/
def renderAll (next : Nat) : List RenderIn → List RenderOut
  | [] => []
  | i :: rest =>
    let o := render next i
    o :: renderAll o.next rest

end Wp.RenderState
