/-
Model of `weasyprint/draw/__init__.py::draw_background_image(stream, layer, image_rendering)` on the multi-stream
`World` of Model/PdfStream: which groups and patterns it creates on which stream, which names its `Do` / `scn`
operators use, and the `stacked` bracket around the raw Pattern colour setters.

  `if layer.image is None or 0 in layer.size: return`
  both repeats `no-repeat`:
      `if not layer.unbounded: stream.rectangle(painting area); stream.clip(); stream.end()`
      `group = stream.add_group(*stream.page_rectangle)`            -- registered `x{len}` in `stream`'s dictionary
      `group.transform(e=…, f=…)`
      `layer.image.draw(group, …)`                                   -- opaque: recorded calls and `Gradient.draw`s
      `stream.draw_x_object(group.id)`
  otherwise (the repeat sizes only feed the pattern dictionary, not stream calls):
      `pattern = stream.add_pattern(…)`                              -- `p{len}` in `stream`'s dictionary
      `group = pattern.add_group(0, 0, repeat_width, repeat_height)`  -- `x{len}` in the *pattern's* dictionary
      `with stacked(stream):`
          `layer.image.draw(group, …)`
          `pattern.draw_x_object(group.id)`
          `stream.set_color_space('Pattern'); stream.set_color_special(pattern.id)`
          `stream.rectangle(page rectangle | painting area); stream.fill()`

Python failure points: the two `assert repeat == 'space'` are on validated keywords (outside this model).  No Mathlib.
-/
import WpModel.Model.GradientDraw

namespace Wp.Pdf

/-- What `draw_background_image` reads of the layer to decide its own calls. -/
structure BgProps where
  skip : Bool                  -- `layer.image is None or 0 in layer.size`
  noRepeat : Bool              -- `repeat_x == 'no-repeat' and repeat_y == 'no-repeat'`
  unbounded : Bool             -- `layer.unbounded`
  rect : String                -- the `re` item written (painting area or page rectangle)
  tx : Num                     -- `position_x + positioning_x` (the `e` of `group.transform`)
  ty : Num
  deriving Repr

/-- `len(stream._resources['Pattern'])`: the number `add_pattern` puts in the pattern id. -/
def patternCount (w : World) (h : Nat) : Option Nat :=
  match w.streams[h]? with
  | none => none
  | some s => match w.res[s.res]? with
    | none => none
    | some r => some r.pattern.length

/-- `draw_background_image` with `stream` = handle `h`; `img` is what `layer.image.draw(group, …)` does (the handle of
`group` is the number of streams when it is created). -/
def drawBackgroundImage (w : World) (h : Nat) (p : BgProps) (img : List GItem) : Except PyErr World :=
  if p.skip then .ok w
  else if p.noRepeat then
    stageIf (!p.unbounded) (fun w => w.onCall h (.rawTok .path p.rect) |>> clipEnd h) w |>> fun w =>
    match nextGroupKey w h with
    | none => .error badHandle
    | some key =>
      let g := w.streams.length            -- the group stream `add_group` is about to create
      w.addGroup h |>> fun w1 =>
      w1.onCall g (.transform (.int 1) (.int 0) (.int 0) (.int 1) p.tx p.ty) |>>
      fun w2 => runItems w2 img |>> fun w3 => w3.onCall h (.drawX key)
  else
    match patternCount w h with
    | none => .error badHandle
    | some pid =>
      let pat := w.streams.length          -- the pattern stream `add_pattern` is about to create
      w.step (.addPattern h) |>> fun w1 =>
      match nextGroupKey w1 pat with
      | none => .error badHandle
      | some key =>
        w1.addGroup pat |>> fun w2 => w2.onCall h .push |>> fun w3 => runItems w3 img |>>
        fun w4 => w4.onCall pat (.drawX key) |>>
        fun w5 => w5.onCall h (.setColorSpace "Pattern" false) |>>
        fun w6 => w6.onCall h (.setColorSpecial (some pid) false []) |>>
        fun w7 => w7.onCall h (.rawTok .path p.rect) |>> fun w8 => w8.onCall h (.rawTok .paint "f") |>>
        fun w9 => w9.onCall h .pop

/-- The calls the pattern branch makes on `stream` itself, around the image. -/
def bgPatternCalls (pid : Nat) (rect : String) : List Call :=
  [.push, .setColorSpace "Pattern" false, .setColorSpecial (some pid) false [], .rawTok .path rect,
   .rawTok .paint "f", .pop]

/-- A recorded `write_pdf` as the `docbg` correspondence replays it. -/
inductive BItem where
  | call (c : WCall)
  | grad (h : Nat) (p : GradProps)
  | bg (h : Nat) (p : BgProps) (img : List GItem)

def runBItems (w : World) : List BItem → Except PyErr World
  | [] => .ok w
  | .call c :: rest => match w.step c with
    | .ok w' => runBItems w' rest
    | .error e => .error e
  | .grad h p :: rest => match drawGradient w h p with
    | .ok w' => runBItems w' rest
    | .error e => .error e
  | .bg h p img :: rest => match drawBackgroundImage w h p img with
    | .ok w' => runBItems w' rest
    | .error e => .error e

end Wp.Pdf
