/-
Mirror of `ComputedStyle.__missing__`, `AnonymousStyle.__missing__`, `text_decoration`,
`computed_from_cascaded`, `StyleFor.set_computed_styles` (parent / root style selection) of
`weasyprint/css/__init__.py`, on top of `Model/Cascade` (which value is cascaded) and
`Model/Computed` (computed values).

The real style is a memoising dict; the model is the function it memoises.  A style is looked up
along the chain `element :: parent :: … :: root`.
No Mathlib, no Std.
-/
import WpModel.Model.Cascade
import WpModel.Model.Computed

namespace Wp.Style
open Wp Wp.Cascade Wp.Computed Wp.Gen.Units

/-- A cascaded value: a validated value, or a `Pending` object (a declaration containing `var()`),
for which the model is told what `value.solve(…)` gives once variables are substituted
(`none` = `InvalidValues`). -/
inductive Casc where
  | val (v : Val)
  | pending (solved : Option Val)
  deriving Repr, DecidableEq, Inhabited

/-- What `__missing__` reads of one element. -/
structure Elem where
  /-- `cascaded`: property key ↦ cascaded value (weights dropped) -/
  cascaded : List (String × Casc)
  /-- `pseudo_type` -/
  pseudo : Option String
  /-- attributes of `element` (`element.get(name)`), as far as computing functions read them -/
  attrs : List (String × Val) := []
  /-- `character_ratio(style, 'x')`, `character_ratio(style, '0')` for *this* style (Pango's
  measurement of its own font properties); `none` = the defaults given to the chain functions -/
  ratios : Option (Rat × Rat) := none
  deriving Repr, Inhabited

/-- `parent_style[key]`; `none` when `parent_style is None`. -/
abbrev ParentGet := Option (String → Except CErr Val)

/-- `key[:2] == '__'` -/
def isCustom (key : String) : Bool := "__".toList.isPrefixOf key.toList
def isInherited (key : String) : Bool := inherited.contains key
/-- `key[:16] == 'text_decoration_'` -/
def isTextDecoration (key : String) : Bool := "text_decoration_".toList.isPrefixOf key.toList

/-- `INITIAL_VALUES[key]`. -/
def initialValue (key : String) : Except CErr Val :=
  match lookup key initialValues with
  | some v => .ok v
  | none =>
    if initialKeys.contains key then .error (.unsupported ("initial value shape of " ++ key))
    else .error (.keyError "INITIAL_VALUES[key]")

/-- `parent_style[key]` where the code does not test `parent_style` first. -/
def parentValue (parent : ParentGet) (key : String) : Except CErr Val :=
  match parent with
  | some get => get key
  | none => .error (.typeError "parent_style[key]: 'NoneType' object is not subscriptable")

def insertStr (x : String) : List String → List String
  | [] => [x]
  | y :: rest => if x < y then x :: y :: rest else if x == y then y :: rest else y :: insertStr x rest

/-- `value | parent_value` on sets of keywords (kept sorted). -/
def unionStrs (a b : List String) : List String := (a ++ b).foldr insertStr []

/-- `text_decoration(key, value, parent_value, cascaded)`. -/
def textDecoration (key : String) (value parentValue : Val) (cascaded : Bool) : Except CErr Val :=
  if key == "text_decoration_color" || key == "text_decoration_style" ||
      key == "text_decoration_thickness" then
    .ok (if !cascaded then parentValue else value)
  else if key == "text_decoration_line" then
    if !(parentValue.isKw "none") then
      if value.isKw "none" then .ok parentValue
      else
        match value, parentValue with
        | .strs a, .strs b => .ok (.strs (unionStrs a b))
        | _, _ => .error (.typeError "text_decoration: value | parent_value")
    else .ok value
  else .ok value

/-- Steps of `ComputedStyle.__missing__` up to and including `if value == 'initial' … elif value ==
'inherit' …`: the value and what `self[key]` holds at that point. -/
def specified123 (e : Elem) (parent : ParentGet) (key : String) : Except CErr (Val × Option Val) := do
  let casc := lookup key e.cascaded
  let (value0, pending) : Val × Option (Option Val) := match casc with
    | some (.val v) => (v, none)
    | some (.pending r) => (.kw "<pending>", some r)
    | none => (if isInherited key || isCustom key then .kw "inherit" else .kw "initial", none)
  let (value1, stored2) : Val × Option Val ← match pending with
    | none => pure (value0, none)
    | some (some v) => pure (v, none)
    | some none =>
      if isInherited key && parent.isSome then do
        let v ← parentValue parent key
        pure (v, some v)
      else do
        let v ← initialValue key
        pure (v, if initialNotComputed.contains key then none else some v)
  -- since commit 582f36b the root test comes *after* the pending values are solved:
  -- `if value == 'inherit' and parent_style is None: value = 'initial'`
  let value2 := if value1.isKw "inherit" && parent.isNone then Val.kw "initial" else value1
  if value2.isKw "initial" then do
    let v ← if isCustom key then pure (Val.strs []) else initialValue key
    pure (v, if initialNotComputed.contains key then stored2 else some v)
  else if value2.isKw "inherit" then do
    let v ← parentValue parent key
    pure (v, some v)
  else pure (value2, stored2)

/-- The rest of `__missing__` before the computing function: text decorations, `page`
(both `del self[key]`), and the early return `if key in self: return self[key]`. -/
def specified4 (e : Elem) (parent : ParentGet) (key : String) (value3 : Val) (stored3 : Option Val) :
    Except CErr (Val × Bool) := do
  let (value4, stored4) : Val × Option Val ←
    if isTextDecoration key && parent.isSome then do
      let pv ← parentValue parent key
      let v ← textDecoration key value3 pv (lookup key e.cascaded).isSome
      pure (v, none)
    else if key == "page" && value3.isKw "auto" then do
      let v ← match parent with
        | none => pure (Val.kw "")
        | some get => get "page"
      pure (v, none)
    else pure (value3, stored3)
  match stored4 with
  | some s => pure (s, true)
  | none => pure (value4, false)

/-- The part of `ComputedStyle.__missing__` before the computing function is applied.
Result: the value, and whether `self[key]` was already stored (then the function returns it as it
is, without calling `COMPUTER_FUNCTIONS[key]`). -/
def specified (e : Elem) (parent : ParentGet) (key : String) : Except CErr (Val × Bool) := do
  let (value3, stored3) ← specified123 e parent key
  specified4 e parent key value3 stored3

def numOf (v : Val) : Except CErr Rat :=
  match v with
  | .num q => .ok q
  | _ => .error (.unsupported "font_size is not a number")

/-- The style as the computing function of `font-size` itself sees it: it reads the parent's and
the root's font size, never `style['font_size']`. -/
def fontEnv (e : Elem) (parent : ParentGet) (rootFontSize : Unit → Except CErr Rat)
    (exRatio chRatio : Rat) : Env := {
  fontSize := fun _ => .error (.unsupported "font_size read while computing font_size"),
  rootFontSize := rootFontSize,
  parentFontSize := parent.map (fun get => fun _ => do numOf (← get "font_size")),
  parentFontWeight := parent.map (fun get => fun _ => get "font_weight"),
  -- `character_ratio` depends on the style's own font properties only
  exRatio := match e.ratios with | some r => r.1 | none => exRatio,
  chRatio := match e.ratios with | some r => r.2 | none => chRatio,
  get := fun _ => .error (.unsupported "style[key] read while computing font_size"),
  specified := fun _ => .error (.unsupported "specified read while computing font_size"),
  isRoot := parent.isNone, pseudo := e.pseudo.isSome,
  attr := fun k => lookup k e.attrs }

/-- `style['font_size']`: `__missing__('font_size')`. -/
def ownFontSize (e : Elem) (parent : ParentGet) (rootFontSize : Unit → Except CErr Rat)
    (exRatio chRatio : Rat) : Unit → Except CErr Rat := fun _ => do
  let (v, st) ← specified e parent "font_size"
  if st then numOf v else numOf (← fontSize (fontEnv e parent rootFontSize exRatio chRatio) v)

/-- The style as every other computing function sees it. -/
def fullEnv (e : Elem) (parent : ParentGet) (rootFontSize : Unit → Except CErr Rat)
    (exRatio chRatio : Rat) : Env :=
  { fontEnv e parent rootFontSize exRatio chRatio with
    fontSize := ownFontSize e parent rootFontSize exRatio chRatio,
    -- keys read through style[...] by the modelled functions have no computing function
    get := fun k => do
      match lookup k computerFunctions with
      | none => pure (← specified e parent k).1
      | some _ => .error (.unsupported ("style[" ++ k ++ "] read by a computing function")),
    -- style.specified[k]: the value `__missing__(k)` has before computing
    specified := fun k => do pure (← specified e parent k).1 }

/-- `ComputedStyle.__missing__(key)` after its first lines (`self['position']` / `self['float']`). -/
def computedKeyCore (e : Elem) (parent : ParentGet) (rootFontSize : Unit → Except CErr Rat)
    (exRatio chRatio : Rat) (key : String) : Except CErr Val := do
  let (value, stored) ← specified e parent key
  if stored then pure value
  else compute (fullEnv e parent rootFontSize exRatio chRatio) key value

/-- `ComputedStyle.__missing__(key)` for an element with cascaded style `e`:
```
if key == 'float':   self['position']     # set specified value for position
elif key == 'display':   self['float']    # set specified value for float
```
(the reads matter to the model only through the failures they propagate). -/
def computedKey (e : Elem) (parent : ParentGet) (rootFontSize : Unit → Except CErr Rat)
    (exRatio chRatio : Rat) (key : String) : Except CErr Val :=
  let core := computedKeyCore e parent rootFontSize exRatio chRatio
  if key == "float" then do
    let _ ← core "position"
    core "float"
  else if key == "display" then do
    let _ ← core "position"
    let _ ← core "float"
    core "display"
  else core key

/-- `AnonymousStyle.__missing__(key)` (`computed_from_cascaded` returns an `AnonymousStyle` for an
element without any cascaded declaration that has a parent). -/
def anonymousKey (parentGet : String → Except CErr Val) (key : String) : Except CErr Val :=
  -- the five keys set by AnonymousStyle.__init__
  if ["border_top_width", "border_bottom_width", "border_left_width", "border_right_width",
      "outline_width"].contains key then .ok (.num 0)
  else if isInherited key || isCustom key then parentGet key
  else if key == "page" then parentGet key
  else if isTextDecoration key then do
    let iv ← initialValue key
    let pv ← parentGet key
    textDecoration key iv pv false
  else initialValue key

/-- `computed_from_cascaded(element, cascaded, parent_style, pseudo_type, root_style, …)[key]`. -/
def styleKey (e : Elem) (parent : ParentGet) (rootFontSize : Unit → Except CErr Rat)
    (exRatio chRatio : Rat) (key : String) : Except CErr Val :=
  match parent with
  | some get => if e.cascaded.isEmpty then anonymousKey get key
                else computedKey e parent rootFontSize exRatio chRatio key
  | none => computedKey e parent rootFontSize exRatio chRatio key

/-- Style of the head of `chain` (the element, then its ancestors up to the root), given the
root's computed font size. -/
def styleAtWith (rootFontSize : Unit → Except CErr Rat) (exRatio chRatio : Rat) :
    List Elem → String → Except CErr Val
  | [] => fun _ => .error (.unsupported "empty chain")
  | [e] =>
    -- root element: `root_style = {'font_size': INITIAL_VALUES['font_size']}`
    styleKey e none (fun _ => .ok initialFontSize) exRatio chRatio
  | e :: p :: rest =>
    styleKey e (some (styleAtWith rootFontSize exRatio chRatio (p :: rest))) rootFontSize exRatio chRatio

/-- `computed_styles[root, None]['font_size']`. -/
def rootFontSizeOf (exRatio chRatio : Rat) (chain : List Elem) : Unit → Except CErr Rat := fun _ =>
  match chain.getLast? with
  | none => .error (.unsupported "empty chain")
  | some r => do
    match ← styleKey r none (fun _ => .ok initialFontSize) exRatio chRatio "font_size" with
    | .num q => pure q
    | _ => .error (.unsupported "font_size is not a number")

/-- `style_for(element, pseudo)[key]` for the element at the head of the chain. -/
def styleAt (exRatio chRatio : Rat) (chain : List Elem) (key : String) : Except CErr Val :=
  styleAtWith (rootFontSizeOf exRatio chRatio chain) exRatio chRatio chain key

end Wp.Style
