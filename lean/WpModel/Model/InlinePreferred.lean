/-
C09 — `layout/preferred.py`, inline part: `inline_line_widths` (the generator of line widths of a line
box / inline box made of text boxes and inline boxes), `inline_min_content_width`,
`inline_max_content_width`, `trailing_whitespace_size`, `adjust` / `margin_width` / `min_max` for
inline boxes with px spacing and `auto` min/max widths.  These are the preferred widths from which
shrink-to-fit containers get the available width that `split_first_line` is then given.

Mirrors the code, quirks included: `minimum=True` is passed to `split_first_line` also for the
max-content pass; with `first_line` an inline child contributes only its first line and the loop goes
on with the following children; a text ending with a space adds an empty line in the minimum pass.
No Mathlib: linked into the driver.
-/
import WpModel.Model.InlineRun

namespace Wp.IP
open Wp Wp.Py Wp.Pango Wp.LB Wp.IR

/-- the `while new_resume_index is not None` loop on one text box: widths of its lines, and whether
the loop was left by `first_line` with text remaining (`first_line and new_resume_index`) -/
def textLines (st : Style) (minimum isLineStart firstLine : Bool) : Nat → Text → Except PyErr (List Rat × Bool)
  | 0, _ => .error (.recursion "inline_line_widths")
  | fuel + 1, t =>
    (splitFirstLine st t (if minimum then .fin 0 else .none) isLineStart true).bind fun r =>
      if firstLine then .ok ([r.width], match r.resume with
        | some k => k ≠ 0
        | none => false)
      else
        match r.resume with
        | none => .ok ([r.width], false)
        | some k =>
          if k = 0 then .error (.assertFailed "resume_index != 0")   -- would loop forever
          else (textLines st minimum isLineStart firstLine fuel (t.drop k)).map fun rest => (r.width :: rest.1, rest.2)

/-- `adjust(child, outer, width, left, right)` for an inline box with `auto` min / max widths and px
spacing: `min_max` (a negative width becomes 0), then `margin_width` when `outer` -/
def adjust (outer : Bool) (ls rs : Rat) (width : Rat) (left right : Bool) : Rat :=
  -- min_max: max(min_width = 0, min(width, max_width = inf))
  let fixed := if width < 0 then 0 else width
  if outer then fixed + (if left then ls else 0) + (if right then rs else 0) else fixed

/-- result of the children loop: the yielded widths so far (reversed), the current line -/
structure Acc where
  yielded : List Rat
  current : Rat
  indent : Rat
  deriving Repr

/-- the recursive call on an inline child: `(children, is_line_start, skip_stack) ↦ yielded widths` -/
abbrev Rec := List Node → Bool → Option Skip → Except PyErr (List Rat)

/-- the text that `inline_line_widths` measures for a text child, and whether a break may follow it -/
def childText (st : Style) (s : Text) (isLineStart : Bool) (sub : Option Skip) : Text :=
  let k := match sub with
    | some (.mk k _) => k
    | none => 0
  let t0 := s.drop k
  if isLineStart && st.ws.prefCollapse then lstripSp t0 else t0

/-- `current_line += lines[0]`, the forced line breaks, `current_line = lines[-1]` -/
def pushLines (acc : Acc) (lines : List Rat) : Except PyErr (Acc × Bool) :=
  match lines with
  | [] => .error (.indexError "lines[0]")
  | l0 :: more =>
    let current := acc.current + l0
    match more.getLast? with
    | none => .ok ({ acc with current := current }, l0 == 0)
    | some lastLine =>
      .ok ({ yielded := more.dropLast.reverse ++ (current + acc.indent) :: acc.yielded,
             current := lastLine, indent := 0 }, lastLine == 0)

/-- the box under its `trailing_collapsible_space` flags (`inline_line_widths` does not read the flag) -/
def unwrap : Node → Node
  | .flagged n => unwrap n
  | n => n

/-- `lines = [next(lines)]` / `list(lines)` and the two `adjust` calls on an inline child -/
def boxLines (outer firstLine : Bool) (ls rs : Rat) (ls0 : List Rat) : Except PyErr (List Rat) :=
  let lines := if firstLine then ls0.take 1 else ls0
  match lines with
  | [] => .error (.indexError "next(lines)")
  | [only] => .ok [adjust outer ls rs only true true]
  | first :: more =>
    .ok (adjust outer ls rs first true false :: more.dropLast ++
      [adjust outer ls rs (more.getLast?.getD 0) false true])

/-- the `for child in box.children[skip:]` loop of `inline_line_widths` -/
def widthsLoop (st : Style) (minimum outer firstLine : Bool) (rec : Rec) :
    List Node → Acc → Bool → Option Skip → Except PyErr (List Rat)
  | [], acc, _, _ => .ok (acc.yielded.reverse ++ [acc.current + acc.indent])
  | .box ls rs _ ckids :: rest', acc, isLineStart, sub =>
    (rec ckids isLineStart sub).bind fun ls0 =>
      let lines := if firstLine then ls0.take 1 else ls0
      let adjusted : Except PyErr (List Rat) := match lines with
        | [] => .error (.indexError "next(lines)")
        | [only] => .ok [adjust outer ls rs only true true]
        | first :: more =>
          .ok (adjust outer ls rs first true false :: more.dropLast ++
            [adjust outer ls rs (more.getLast?.getD 0) false true])
      adjusted.bind fun lines' =>
        (pushLines acc lines').bind fun r =>
          widthsLoop st minimum outer firstLine rec rest' r.1 r.2 none
  | .flagged n :: rest', acc, isLineStart, sub =>
    match unwrap n with
    | .box ls rs _ ckids =>
      (rec ckids isLineStart sub).bind fun ls0 =>
        (boxLines outer firstLine ls rs ls0).bind fun lines' =>
          (pushLines acc lines').bind fun r =>
            widthsLoop st minimum outer firstLine rec rest' r.1 r.2 none
    | _ => .error (.assertFailed "trailing_collapsible_space on a text box")
  | .text s :: rest', acc, isLineStart, sub =>
    match sub with
    | some (.mk _ (some _)) => .error (.assertFailed "skip_stack is None")
    | _ =>
      let t := childText st s isLineStart sub
      (textLines st minimum isLineStart firstLine (t.length + 2) t).bind fun tl =>
        if firstLine && tl.2 then
          -- `current_line += lines[0]; break`
          .ok (acc.yielded.reverse ++ [acc.current + (tl.1.headD 0) + acc.indent])
        else
          let canBreak := t.getLast? == some ' ' || t.getLast? == some '\n'
          let lines := if minimum && st.ws.prefWrap && canBreak then tl.1 ++ [0] else tl.1
          (pushLines acc lines).bind fun r =>
            widthsLoop st minimum outer firstLine rec rest' r.1 r.2 none

/-- `inline_line_widths(context, box, outer, is_line_start, minimum, skip_stack, first_line)` as the list
of the values the generator yields.  `indent`: the px `text-indent` when `box` is the line box. -/
def lineWidths (st : Style) (minimum outer firstLine : Bool) :
    Nat → List Node → Bool → Option Skip → Rat → Except PyErr (List Rat)
  | 0, _, _, _, _ => .error (.recursion "inline_line_widths")
  | fuel + 1, kids, isLineStart, skip, indent =>
    let skipIdx := match skip with
      | some s => s.idx
      | none => 0
    widthsLoop st minimum outer firstLine
      (fun ckids ils sub => lineWidths st minimum outer firstLine fuel ckids ils sub 0)
      (kids.drop skipIdx) { yielded := [], current := 0, indent := indent } isLineStart (skip.bind Skip.sub)

def maxOf : List Rat → Option Rat
  | [] => none
  | x :: xs => some (xs.foldl (fun m v => if v > m then v else m) x)

/-- `inline_min_content_width(context, linebox, outer, skip_stack, first_line, is_line_start)` -/
def minContentWidth (st : Style) (kids : List Node) (indent : Rat) (outer firstLine isLineStart : Bool)
    (skip : Option Skip) : Except PyErr Rat :=
  (lineWidths st true outer firstLine depthBound kids isLineStart skip indent).bind fun ws =>
    -- `adjust(box, outer, width)` on the line box: no spacing, `min_max` only
    if firstLine then
      match ws.head? with
      | some w => .ok (adjust false 0 0 w true true)
      | none => .error (.valueError "StopIteration")
    else
      match maxOf ws with
      | some w => .ok (adjust false 0 0 w true true)
      | none => .error (.valueError "max() arg is an empty sequence")

mutual
/-- the last text box of the chain of last children (`trailing_whitespace_size`) -/
def lastText : Node → Option Text
  | .text s => some s
  | .box _ _ _ kids => lastTextL kids
  | .flagged n => lastText n
def lastTextL : List Node → Option Text
  | [] => none
  | [n] => lastText n
  | _ :: n :: ns => lastTextL (n :: ns)
end

/-- the `while resume is not None` loop of `trailing_whitespace_size`: the last line of the text box
and the offset it starts at -/
def lastLine (st : Style) : Nat → Text → Nat → Except PyErr (Option Child × Nat)
  | 0, _, _ => .error (.recursion "trailing_whitespace_size")
  | fuel + 1, text, resume =>
    (splitTextBox st text .none resume true).bind fun r =>
      match r.resume with
      | none => .ok (r.child, resume)
      | some k => lastLine st fuel text k

/-- `trailing_whitespace_size(context, box)` for a line box -/
def trailingWhitespaceSize (st : Style) (kids : List Node) : Except PyErr Rat :=
  match lastTextL kids with
  | none => .ok 0
  | some s =>
    if s = [] ∨ !st.ws.spaceCollapse then .ok 0 else
    let stripped := rstripSp s
    if st.fs = 0 ∨ stripped.length = s.length then .ok 0 else
    if stripped ≠ [] then
      (lastLine st (s.length + 2) s 0).bind fun old =>
        match old.1 with
        | none => .error (.assertFailed "old_box")
        | some oldBox =>
          (splitTextBox st stripped .none old.2 true).bind fun r =>
            match r.child with
            | none => .ok oldBox.width
            | some sb => if r.resume.isSome then .error (.assertFailed "resume is None") else .ok (oldBox.width - sb.width)
    else
      (splitFirstLine st s .none true false).map (·.width)

/-- `inline_max_content_width(context, linebox, outer, is_line_start)` -/
def maxContentWidth (st : Style) (kids : List Node) (indent : Rat) (outer isLineStart : Bool) : Except PyErr Rat :=
  (lineWidths st false outer false depthBound kids isLineStart none indent).bind fun ws =>
    (trailingWhitespaceSize st kids).bind fun tw =>
      match ws.getLast? with
      | none => .error (.indexError "widths[-1]")
      | some lastW =>
        match maxOf (ws.dropLast ++ [lastW - tw]) with
        | some w => .ok (adjust false 0 0 w true true)
        | none => .error (.valueError "max()")

end Wp.IP
