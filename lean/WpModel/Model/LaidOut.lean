/-
C17 — from the computed style to what the drawing code reads: the two layout steps that stand between
the style of a box and the attributes `box.background` / `box.transformation_matrix` / `page.canvas_background`
consumed by `draw_page` (Model/PaintOrder.lean).

  layout_box_backgrounds (layout/background.py)   ↔ `boxBackground`   (is there a Background, and its colour)
  layout_backgrounds     (layout/background.py)   ↔ `layoutBackgrounds` (`chosenBody`, `Box.clearBg`): the canvas
                                                      background taken from the root element or from its <body>
                                                      child, and `chosen_box.background = None`
  gather_anchors         (anchors.py), the guard  ↔ `boxMatrix`  (`style['transform'] and not isinstance(box, InlineBox)`,
                                                      class test from Gen/StackKinds `gaTransformable`), the matrix
                                                      itself = `Transform.transformationMatrix`, classified by
                                                      `matOf` the way `draw_stacking_context` reads it
                                                      (`None` / determinant 0 / applied)
  Page.paint → draw_page on the laid-out page     ↔ `drawDocument`

No Mathlib.
-/
import WpModel.Model.PaintOrder
import WpModel.Model.Transform

namespace Wp.Stacking
open Wp Wp.Gen

/-- `style['visibility']`. -/
inductive Visibility where
  | visible | hidden | collapse
  deriving Repr, DecidableEq, Inhabited

/-- The part of the computed style `layout_box_backgrounds` reads: `visibility`, the colour of
`background-color` (`none` = alpha 0) and how many entries of `background-image` are images. -/
structure StyleBg where
  visibility : Visibility
  colour : Option Nat
  images : Nat
  deriving Repr, DecidableEq, Inhabited

/-- `style['visibility'] != 'visible'` — the test of `layout_box_backgrounds` (since af29a5d the same test as
every other reader of `visibility` in the drawing code; `Attrs.visible` is its negation). -/
def StyleBg.hidden (s : StyleBg) : Bool := s.visibility != .visible

/-- `layout_box_backgrounds`: `box.background`.  A hidden box has no images and a transparent colour;
a transparent colour without image is `None` — except on the page box ("Pages need a background for
bleed box"). -/
def boxBackground (isPage : Bool) (s : StyleBg) : Option (Option Nat) :=
  let colour := if s.hidden then none else s.colour      -- parse_color('transparent')
  let images := if s.hidden then 0 else s.images         -- images = []
  if colour.isNone && images == 0 then
    (if isPage then some none else none)                  -- `if box != page: box.background = None; return`
  else some colour

/-- How `draw_stacking_context` reads `box.transformation_matrix`: falsy, determinant 0 (nothing of the
subtree is painted) or applied; a regular matrix is tagged by its rounded x translation, which is what the
display list of the harness shows for the translations the scenes use. -/
def matOf : Option Transform.M → Mat
  | none => .none
  | some m => if m.det = 0 then .singular else .regular ((m.e + 1 / 2).floor.toNat)

/-- What `gather_anchors` needs to build the matrix of a box. -/
structure StyleTransform where
  bbx : Rat            -- box.border_box_x()
  bby : Rat            -- box.border_box_y()
  bw : Rat             -- box.border_width()
  bh : Rat             -- box.border_height()
  ox : Rounded.Dim     -- style['transform_origin']
  oy : Rounded.Dim
  fns : List Transform.Fn   -- style['transform']
  deriving Repr, Inhabited

/-- `gather_anchors`: `box.transformation_matrix` stays `None` unless the `transform` list is non-empty
and the box is not an `InlineBox` (class test: generated table). -/
def gatherMatrix (k : Kind) (t : StyleTransform) : Option Transform.M :=
  if !t.fns.isEmpty && k.gaTransformable then
    some (Transform.transformationMatrix t.bbx t.bby t.bw t.bh t.ox t.oy t.fns)
  else none

def boxMatrix (k : Kind) (t : StyleTransform) : Mat := matOf (gatherMatrix k t)

/-- `box.background = None` through a placeholder (attribute writes are forwarded to the box). -/
def Box.clearBg : Box → Box
  | .leaf a => .leaf { a with bg := none }
  | .node a kids => .node { a with bg := none } kids
  | .ph b => .ph b.clearBg

/-- `box.children` as `layout_backgrounds` sees it (a non-parent has none; a placeholder forwards). -/
def Box.kids : Box → List Box
  | .leaf _ => []
  | .node _ kids => kids
  | .ph b => b.kids

def Box.withKids : Box → List Box → Box
  | .leaf a, _ => .leaf a
  | .node a _, kids => .node a kids
  | .ph b, kids => .ph (b.withKids kids)

/-- `for child in root_box.children: if child.element_tag.lower() == 'body': chosen_box = child; break`
— the position of the first `body` child (`flags` = that test on every child). -/
def firstBody : List Bool → Option Nat
  | [] => none
  | true :: _ => some 0
  | false :: rest => (firstBody rest).map (· + 1)

/-- `chosen_box`: `none` = the root box itself, `some i` = its `i`-th child. -/
def chosenBody (rootHtml : Bool) (root : Box) (bodyFlags : List Bool) : Option Nat :=
  if rootHtml && root.attrs.bg == none then
    match firstBody bodyFlags with
    | some i => if i < root.kids.length then some i else none
    | none => none
  else none

def clearAt : Nat → List Box → List Box
  | _, [] => []
  | 0, b :: bs => b.clearBg :: bs
  | i + 1, b :: bs => b :: clearAt i bs

/-- `layout_backgrounds(page, …)` after every box got its own background: the canvas background
(`page.canvas_background`: the chosen box's colour and images on the page's area) and the children of
the page with `chosen_box.background = None`.  `kids` = `page.children` (root box first, then the margin
boxes); an empty page is `page.children[0]` → IndexError. -/
def layoutBackgrounds (rootHtml : Bool) (bodyFlags : List Bool) (kids : List Box) :
    Except PyErr (Option (Option Nat) × List Box) :=
  match kids with
  | [] => .error (.indexError "layout_backgrounds.page.children[0]")
  | root :: margins =>
    match chosenBody rootHtml root bodyFlags with
    | none =>
      match root.attrs.bg with
      | some bg => .ok (some bg, root.clearBg :: margins)      -- `if chosen_box.background:`
      | none => .ok (none, root :: margins)                    -- `page.canvas_background = None`
    | some i =>
      match (root.kids[i]?).map (·.attrs.bg) with
      | some (some bg) => .ok (some bg, root.withKids (clearAt i root.kids) :: margins)
      | _ => .ok (none, root :: margins)

/-- `Page.paint`: the page as laid out from the styles (`kids` carry `boxBackground` / `boxMatrix`),
`layout_backgrounds`, then `draw_page`. -/
def drawDocument (page : Attrs) (rootHtml : Bool) (bodyFlags : List Bool) (kids : List Box) : List Item :=
  match layoutBackgrounds rootHtml bodyFlags kids with
  | .error e => [.raise e]
  | .ok (canvas, kids') => drawPage page canvas kids'

end Wp.Stacking
