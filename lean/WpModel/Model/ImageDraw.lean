/-
Model of `weasyprint/images.py::RasterImage.draw` and of `weasyprint/draw/__init__.py::draw_replacedbox`:
which operators reach the content stream and with which matrices.
PDF `cm` with `[a b c d e f]` maps `(u, v)` to `(a·u + c·v + e, b·u + d·v + f)`; WeasyPrint's page
coordinate system is y-down (the page stream starts with `1 0 0 -1 0 H cm`).
No Mathlib: linked into `driver_c13`.
-/
import WpModel.Model.Replaced
import WpModel.Model.ImageDedupe

namespace Wp.Replaced
open Wp

/-- The six numbers of a `cm` operator. -/
structure Cm where
  a : Rat
  b : Rat
  c : Rat
  d : Rat
  e : Rat
  f : Rat
  deriving Repr, BEq

def Cm.apply (m : Cm) (u v : Rat) : Rat × Rat := (m.a * u + m.c * v + m.e, m.b * u + m.d * v + m.f)

/-- `first` then `second` in stream order: a point of the innermost system goes through `second`
first (`Matrix(second) @ ctm`). -/
def Cm.andThen (first second : Cm) : Cm :=
  { a := second.a * first.a + second.b * first.c
    b := second.a * first.b + second.b * first.d
    c := second.c * first.a + second.d * first.c
    d := second.c * first.b + second.d * first.d
    e := second.e * first.a + second.f * first.c + first.e
    f := second.e * first.b + second.f * first.d + first.f }

/-- What `RasterImage.draw` does. -/
structure ImageOps where
  name : String        -- returned by `stream.add_image`
  interpolate : Bool
  ratio : Rat          -- dpi ratio registered for the image
  cm : Cm              -- `stream.transform(w, 0, 0, -h, 0, h)`; then `/name Do`
  deriving Repr, BEq

def absRat (q : Rat) : Rat := if q < 0 then -q else q

/-- The dpi ratio registered by `RasterImage.draw` (`ratio = 1`, lowered when `options['dpi']` is set
and the image would be embedded at a higher resolution). -/
def dpiRatio (pw ph : Rat) (dpi : Option Rat) (cw ch ctm00 ctm11 : Rat) : Except Err Rat :=
  match dpi with
  | none => .ok 1
  | some target =>
    if target = 0 then .ok 1 else do           -- `if self._dpi:` truthiness
      let wi := absRat (cw * ctm00 * Gen.ptToIn)
      let hi := absRat (ch * ctm11 * Gen.ptToIn)
      let a ← pyDiv "RasterImage.draw.width_inches" pw wi
      let b ← pyDiv "RasterImage.draw.height_inches" ph hi
      let d := max a b
      if d > target then pyDiv "RasterImage.draw.dpi" target d else pure 1

/-- `RasterImage.draw(stream, concrete_width, concrete_height, image_rendering)` for an image of
`pw × ph` pixels; `dpi` is `options['dpi']` (`None` → `none`), `ctm00` / `ctm11` are
`stream.ctm[0][0]` / `stream.ctm[1][1]`; `none` = nothing drawn. -/
def rasterDraw (id : String) (pw ph : Rat) (dpi : Option Rat) (cw ch : Rat) (ctm00 ctm11 : Rat)
    (renderingAuto : Bool) : Except Err (Option ImageOps) :=
  if pw ≤ 0 || ph ≤ 0 then .ok none else do
    let ratio ← dpiRatio pw ph dpi cw ch ctm00 ctm11
    pure (some ⟨ImageDedupe.imageName id renderingAuto, renderingAuto, ratio, ⟨cw, 0, 0, -ch, 0, ch⟩⟩)

/-- Operators of `draw_replacedbox` around the image. -/
structure ReplacedOps where
  translate : Cm       -- `stream.transform(e=draw_x, f=draw_y)`
  image : ImageOps
  deriving Repr, BEq

/-- `draw_replacedbox(stream, box)` for a raster image of `pw × ph` pixels with
`image-resolution: res` (`ratio`: see `rasterIntrinsic`): `none` = returns without drawing. -/
def drawReplacedbox (visible : Bool) (g : Geom) (fit : ObjectFit) (pos : Position) (res ratio : Rat)
    (id : String) (pw ph : Rat) (dpi : Option Rat) (ctm00 ctm11 : Rat) (renderingAuto : Bool) :
    Except Err (Option ReplacedOps) := do
  -- `not box.width or not box.height`
  if !visible || g.width = 0 || g.height = 0 then return none
  let i ← rasterIntrinsic pw ph res ratio
  let r ← replacedboxLayout g fit pos i
  if r.w ≤ 0 || r.h ≤ 0 then return none
  -- inside `stacked`: set_alpha(1), transform(e=x, f=y), `stacked`: image.draw
  let t : Cm := ⟨1, 0, 0, 1, r.x, r.y⟩
  let ops ← rasterDraw id pw ph dpi r.w r.h ctm00 ctm11 renderingAuto
  match ops with
  | none => pure none
  | some o => pure (some ⟨t, o⟩)

end Wp.Replaced
