/-
C17 — painting area and clip of the backgrounds of table parts: the `TableRowGroupBox`, `TableRowBox`
and `TableColumnGroupBox / TableColumnBox` branches of `layout_background_layer`
(weasyprint/layout/background.py), branch for branch.

  rows:     clipped_boxes = the rounded border boxes of the row's cells,
            painting_area = [row.border_box_x, row.border_box_y, row.border_width, max cell border height]
            (nothing when the row has no cell: area (0, 0, 0, 0), no clip box)
  groups:   clipped_boxes = the cells of every row that has cells, total_height = the **maximum** over those
            rows of the maximum cell border height (`total_height = max(total_height, max(...))`),
            painting_area = [group.border_box_x, group.border_box_y, group.border_width, total_height]
  columns:  clipped_boxes = `get_cells()`, painting_area = [min cell x, column.border_box_y,
            max cell right edge − min cell x, column.border_height] (nothing without cells)

No Mathlib.
-/
import WpModel.Model.RoundedBox

namespace Wp.TablePart
open Wp Wp.Rounded

abbrev Rect := Rat × Rat × Rat × Rat

/-- Python `max(values)` for a non-empty list, seeded with the first element by the callers. -/
def maxOf (seed : Rat) (l : List Rat) : Rat := l.foldl (fun m v => if m < v then v else m) seed

def minOf (seed : Rat) (l : List Rat) : Rat := l.foldl (fun m v => if v < m then v else m) seed

/-- `max(cell.border_height() for cell in cells)`; `none` for no cell (the code does not ask then). -/
def maxCellHeight : List Geo → Option Rat
  | [] => none
  | c :: cs => some (maxOf c.borderHeight (cs.map Geo.borderHeight))

/-- `TableRowBox` branch: (painting area, clipped boxes). -/
def rowLayer (row : Geo) (cells : List Geo) : Rect × List RBox :=
  match maxCellHeight cells with
  | none => ((0, 0, 0, 0), [])                                         -- `if box.children:` not taken
  | some h => ((row.borderBoxX, row.borderBoxY, row.borderWidth, h), cells.map roundedBorderBox)

/-- The loop of the `TableRowGroupBox` branch: `total_height` and `clipped_boxes`. -/
def groupLoop : List (List Geo) → Rat × List RBox → Rat × List RBox
  | [], acc => acc
  | cells :: rows, (total, clipped) =>
    match maxCellHeight cells with
    | none => groupLoop rows (total, clipped)                            -- `if row.children:` not taken
    | some h => groupLoop rows ((if total < h then h else total), clipped ++ cells.map roundedBorderBox)

/-- `TableRowGroupBox` branch. -/
def groupLayer (group : Geo) (rows : List (List Geo)) : Rect × List RBox :=
  let r := groupLoop rows (0, [])
  ((group.borderBoxX, group.borderBoxY, group.borderWidth, r.1), r.2)

/-- `TableColumnGroupBox` / `TableColumnBox` branch. -/
def columnLayer (col : Geo) (cells : List Geo) : Rect × List RBox :=
  match cells with
  | [] => ((0, 0, 0, 0), [])
  | c :: cs =>
    let minX := minOf c.borderBoxX (cs.map Geo.borderBoxX)
    let maxX := maxOf (c.borderBoxX + c.borderWidth) (cs.map (fun g => g.borderBoxX + g.borderWidth))
    ((minX, col.borderBoxY, maxX - minX, col.borderHeight), (c :: cs).map roundedBorderBox)

/-- Does the rectangle `(x, y, w, h)` contain the border box of `g`? -/
def covers (r : Rect) (g : Geo) : Prop :=
  r.1 ≤ g.borderBoxX ∧ g.borderBoxX + g.borderWidth ≤ r.1 + r.2.2.1 ∧
  r.2.1 ≤ g.borderBoxY ∧ g.borderBoxY + g.borderHeight ≤ r.2.1 + r.2.2.2

instance (r : Rect) (g : Geo) : Decidable (covers r g) := by unfold covers; infer_instance

end Wp.TablePart
