/-
Document-level assembly: from the stylesheets of a document (as rule trees), the facts "selector s
of rule r matches element e with specificity (a, b, c) and pseudo-element p" (cssselect2's part,
given), and the `style` attributes, to `style_for(element, pseudo)[key]`.

Mirrors `get_all_computed_styles` (sheet order and origins), `find_stylesheets` (media attribute),
`preprocess_stylesheet` (through `Cascade.preprocess`), `Matcher.match` (sort), the loops of
`StyleFor.__init__` (through `Cascade.elementCascade`) and `set_computed_styles` /
`ComputedStyle.__missing__` (through `Style.styleAt`).
No Mathlib, no Std.
-/
import WpModel.Model.Style

namespace Wp.StyleDoc
open Wp Wp.Cascade Wp.Style

/-- Where a sheet comes from in `get_all_computed_styles`. -/
inductive SheetKind where
  | ua      -- html._ua_stylesheets()          ('user agent', None)
  | ph      -- html._ph_stylesheets()          ('author', (0, 0, 0, 0)) when presentational_hints
  | author  -- find_stylesheets(...)           ('author', None)
  | user    -- user_stylesheets                ('user', None)
  deriving Repr, DecidableEq

/-- What `find_stylesheets` reads of a `<style>` / `<link>` element besides `media`. -/
structure SheetElem where
  /-- `element.get('type', 'text/css').split(';', 1)[0].strip()` -/
  mime : String := "text/css"
  /-- `element.tag == 'link'` (else `'style'`) -/
  isLink : Bool := false
  /-- `element.get('href')` is non-empty and resolves to a URL -/
  hasHref : Bool := true
  /-- whitespace-separated tokens of the `rel` attribute -/
  rels : List String := ["stylesheet"]
  /-- the fetch did not raise `URLFetchingError` -/
  fetchOk : Bool := true
  deriving Repr

structure DocSheet where
  kind : SheetKind
  /-- `media` attribute of the `<style>` / `<link>` element, split on commas (author sheets);
      `none` = no such test (other kinds) -/
  media : Option (List String)
  rules : List SRule
  elem : SheetElem := {}
  deriving Repr

/-! ### the `media` attribute of `<style>` / `<link>` (three lines of `find_stylesheets`) -/

/-- The ASCII characters `str.strip()` removes (the harness draws attribute texts from ASCII). -/
def pyIsSpace (c : Char) : Bool :=
  c == ' ' || c == '\t' || c == '\n' || c == '\r' || c.toNat == 0x0b || c.toNat == 0x0c ||
  (0x1c ≤ c.toNat && c.toNat ≤ 0x1f)

/-- `str.strip()`. -/
def pyStrip (s : List Char) : List Char :=
  ((s.dropWhile pyIsSpace).reverse.dropWhile pyIsSpace).reverse

/-- `str.split(sep)` for a one-character separator (always at least one part). -/
def pySplitOn (sep : Char) : List Char → List (List Char)
  | [] => [[]]
  | c :: rest =>
    if c == sep then [] :: pySplitOn sep rest
    else match pySplitOn sep rest with
      | [] => [[c]]          -- unreachable: the result is never empty
      | p :: ps => (c :: p) :: ps

/-- `str.lower()` on ASCII text. -/
def pyLower (s : List Char) : List Char := s.map Char.toLower

/-- ```
media_attr = element.get('media', '').strip() or 'all'
media = [media_type.strip().lower() for media_type in media_attr.split(',')]
```
(`.lower()` since commit b7ca8f6: `media="PRINT"` was compared case-sensitively before). -/
def attrMedia (text : String) : List String :=
  let stripped := pyStrip text.toList
  let mediaAttr := if stripped.isEmpty then "all".toList else stripped
  (pySplitOn ',' mediaAttr).map (fun part => String.ofList (pyLower (pyStrip part)))

/-- `element_has_link_type(element, link_type)`. -/
def hasLinkType (rels : List String) (linkType : String) : Bool :=
  rels.any (fun token => String.ofList (token.toList.map Char.toLower) == linkType)

/-- The tests of `find_stylesheets` on one `<style>` / `<link>` element, in the code's order. -/
def sheetFound (device : String) (s : DocSheet) : Bool :=
  if s.elem.mime != "text/css" then false
  else if !(match s.media with
            | none => true
            | some m => evaluateMediaQuery m device) then false
  else if !s.elem.isLink then true
  else if !s.elem.hasHref then false
  else if !hasLinkType s.elem.rels "stylesheet" || hasLinkType s.elem.rels "alternate" then false
  else s.elem.fetchOk

/-- "selector `sel` of rule `rule` of sheet `sheet` matches this element" (given by construction). -/
structure MatchRef where
  sheet : Nat
  rule : Nat
  sel : Nat
  spec : List Nat
  pseudo : Option String
  deriving Repr

structure DocElem where
  attrs : List (AttrBlock Casc)
  hits : List MatchRef
  /-- attributes of the element (`element.get`) -/
  elemAttrs : List (String × Val) := []
  /-- `character_ratio` of the element's own style (`none` = the defaults of `styleFor`) -/
  ratios : Option (Rat × Rat) := none
  deriving Repr

structure Doc where
  device : String
  presentationalHints : Bool
  sheets : List DocSheet
  /-- declarations of the style rules, by rule id -/
  ruleDecls : List (Nat × List (Decl Casc))
  deriving Repr

def originOf : SheetKind → String
  | .ua => "user agent" | .ph => "author" | .author => "author" | .user => "user"

def sheetSpecOf : SheetKind → Option (List Nat)
  | .ph => some [0, 0, 0, 0]
  | _ => none

/-- Indices (into `doc.sheets`) of the sheets that end up in `sheets`, in the order
`get_all_computed_styles` appends them. -/
def sheetOrder (doc : Doc) : List Nat :=
  let idx := (List.range doc.sheets.length).zip doc.sheets
  let pick (k : SheetKind) : List Nat := (idx.filter (fun p => p.2.kind == k)).map (·.1)
  let authorOk : List Nat := (idx.filter (fun p => p.2.kind == .author && sheetFound doc.device p.2)).map (·.1)
  pick .ua ++ (if doc.presentationalHints then pick .ph else []) ++ authorOk ++ pick .user

def declsOf (doc : Doc) (rule : Nat) : List (Decl Casc) :=
  match doc.ruleDecls.find? (fun p => p.1 == rule) with
  | some p => p.2
  | none => []

/-- `sheet.matcher.match(element)` for sheet number `i`. -/
def matchedFor (doc : Doc) (e : DocElem) (i : Nat) (sheet : DocSheet) : List (Matched Casc) :=
  let added := preprocess doc.device false sheet.rules
  let numbered := (List.range added.length).zip added
  let hits : List (Matched Casc) := numbered.flatMap (fun (pos, (id, sel)) =>
    (e.hits.filter (fun m => m.sheet == i && m.rule == id && m.sel == sel)).map (fun m =>
      { spec := m.spec, order := pos + 1, pseudo := m.pseudo, decls := declsOf doc id }))
  sortMatched hits

def sheetMatches (doc : Doc) (e : DocElem) : List (SheetMatches Casc) :=
  (sheetOrder doc).filterMap (fun i =>
    match doc.sheets[i]? with
    | none => none
    | some sheet => some {
        origin := originOf sheet.kind, sheetSpec := sheetSpecOf sheet.kind,
        matched := matchedFor doc e i sheet })

/-- `cascaded_styles.get((element, pseudo), {})` with the weights dropped. -/
def elemOf (doc : Doc) (e : DocElem) (pseudo : Option String) : Except CErr Elem := do
  let st ← elementCascade e.attrs (sheetMatches doc e) pseudo
  -- a pseudo-element has its own font properties: its ratios are the defaults of `styleFor`
  pure { cascaded := st.map (fun p => (p.1, p.2.1)), pseudo := pseudo, attrs := e.elemAttrs,
         ratios := if pseudo.isSome then none else e.ratios }

def chainOf (doc : Doc) : List DocElem → Except CErr (List Elem)
  | [] => .ok []
  | e :: rest => do
    let h ← elemOf doc e none
    let t ← chainOf doc rest
    pure (h :: t)

/-- `style_for(element, pseudo)[key]`, `path` = the element followed by its ancestors. -/
def styleFor (doc : Doc) (exRatio chRatio : Rat) (path : List DocElem) (pseudo : Option String)
    (key : String) : Except CErr Val := do
  let chain ← chainOf doc path
  match pseudo, path with
  | none, _ => styleAt exRatio chRatio chain key
  | some p, e :: _ => do
    let pe ← elemOf doc e (some p)
    styleAt exRatio chRatio (pe :: chain) key
  | some _, [] => .error (.unsupported "empty path")

end Wp.StyleDoc
