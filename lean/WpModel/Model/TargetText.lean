/-
`target-text()`: mirror of
  `extract_text`, `box_text` (weasyprint/formatting_structure/build.py),
  the `target-text()` branch of `compute_content_list`,
  `TargetCollector.collect_anchor` / `lookup_target` / `store_target` / `check_pending_targets`
  (weasyprint/css/targets.py) as far as the order of evaluation decides the printed text:
  a target whose box is still being built (the element itself or an ancestor) has no children yet,
  a target met later is `pending` (the content is cut there and recomputed after the tree walk, in the
  order of `target_lookup_items` × `parse_again_functions`), an anchor that no displayed element
  carries stays `pending`, an anchor no element carries is `undefined`.
Texts are those of documents with `white-space: pre` and no text transformation (C08 covers those).
No Mathlib, no Std: linked into the compiled driver.
-/
import WpModel.Model.Wire
import WpModel.Gen.FirstLetterPunct

namespace Wp.TargetText

inductive Mode where
  | content | before | after | firstLetter
  deriving Repr, DecidableEq

inductive TItem where
  | str (s : String)
  | ref (anchor : String) (mode : Mode)
  deriving Repr, DecidableEq

/-- An element: preorder number `id`, `display` not `none`, the `anchor` computed value, `element.text`,
the text of its `::before` box, the content of its `::after` box, children, `element.tail`. -/
inductive TElem where
  | mk (id : Nat) (displayed : Bool) (anchor : Option String) (text : String) (before : Option String)
      (after : Option (List TItem)) (kids : List TElem) (tail : String)
  deriving Repr

def TElem.id : TElem → Nat | .mk i .. => i
def TElem.tail : TElem → String | .mk _ _ _ _ _ _ _ t => t

mutual
/-- `box_text(box)` of a finished element box: the text nodes of its displayed descendants, generated
content excluded. -/
def boxText : TElem → String
  | .mk _ disp _ text _ _ kids _ => if disp then text ++ kidsText kids else ""
def kidsText : List TElem → String
  | [] => ""
  | k :: rest => boxText k ++ k.tail ++ kidsText rest
end

mutual
/-- The `::before` texts of the subtree in box order (`extract_text(…, 'before')` looks at every
descendant whose tag ends with `::before`). -/
def beforeTexts : TElem → String
  | .mk _ disp _ _ before _ kids _ => if disp then before.getD "" ++ kidsBefore kids else ""
def kidsBefore : List TElem → String
  | [] => ""
  | k :: rest => beforeTexts k ++ kidsBefore rest
end

/-- Current text of the `::after` boxes, by element id. -/
abbrev AfterMap := List (Nat × String)

def aget (m : AfterMap) (i : Nat) : String :=
  match m with
  | [] => ""
  | (k, s) :: rest => if k = i then s else aget rest i

def aset (m : AfterMap) (i : Nat) (s : String) : AfterMap :=
  match m with
  | [] => [(i, s)]
  | (k, x) :: rest => if k = i then (k, s) :: rest else (k, x) :: aset rest i s

mutual
def afterTexts (m : AfterMap) : TElem → String
  | .mk i disp _ _ _ after kids _ =>
    if disp then kidsAfter m kids ++ (if after.isSome then aget m i else "") else ""
def kidsAfter (m : AfterMap) : List TElem → String
  | [] => ""
  | k :: rest => afterTexts m k ++ kidsAfter m rest
end

def isPunct (c : Char) : Bool := Gen.firstLetterPunct.contains c.toNat

/-- The loop of `extract_text(…, 'first-letter')`. -/
def firstLetterLoop : List Char → Bool → List Char → List Char
  | [], _, acc => acc
  | c :: rest, found, acc =>
    if !isPunct c then
      if found then acc else firstLetterLoop rest true (acc ++ [c])
    else firstLetterLoop rest found (acc ++ [c])

def firstLetter (s : String) : String := String.ofList (firstLetterLoop s.toList false [])

/-- `str.strip()` for texts whose only white space is U+0020. -/
def strip (s : String) : String :=
  String.ofList ((s.toList.dropWhile (· = ' ')).reverse.dropWhile (· = ' ')).reverse

/-- `extract_text(mode, target_box)` then `.strip()`; `complete = false`: the box has no children yet. -/
def extract (m : AfterMap) (mode : Mode) (complete : Bool) (t : TElem) : String :=
  if !complete then ""
  else match mode with
    | .content => strip (boxText t)
    | .before => strip (beforeTexts t)
    | .after => strip (afterTexts m t)
    | .firstLetter => strip (firstLetter (boxText t))

/-- What `lookup_target` finds. -/
inductive Found where
  | undefined
  | pending
  | upToDate (t : TElem) (complete : Bool)

/-- Evaluate one content list; returns the text and the anchor the evaluation stopped on when it was
`pending` (`break` after registering `parse_again`). -/
def evalItems (lookup : String → Found) (m : AfterMap) : List TItem → String → String × Option String
  | [], acc => (acc, none)
  | .str s :: rest, acc => evalItems lookup m rest (acc ++ s)
  | .ref a mode :: rest, acc =>
    match lookup a with
    | .undefined => (acc, none)
    | .pending => (acc, some a)
    | .upToDate t complete => evalItems lookup m rest (acc ++ extract m mode complete t)

structure WalkState where
  after : AfterMap
  stored : List (String × TElem)                 -- up-to-date targets (first displayed element wins)
  waiting : List (String × Nat × List TItem)     -- parse_again_functions: anchor, source id, its content
  deriving Repr

def sget (s : List (String × TElem)) (a : String) : Option TElem :=
  match s with
  | [] => none
  | (k, t) :: rest => if k = a then some t else sget rest a

mutual
/-- All anchors `collect_anchor` saw (every element, displayed or not), in document order. -/
def anchorsOf : TElem → List String
  | .mk _ _ anchor _ _ _ kids _ => (match anchor with | some a => [a] | none => []) ++ kidsAnchors kids
def kidsAnchors : List TElem → List String
  | [] => []
  | k :: rest => anchorsOf k ++ kidsAnchors rest
end

def lookupFn (collected : List String) (stored : List (String × TElem)) (openIds : List Nat) (a : String) : Found :=
  if !collected.contains a then .undefined
  else match sget stored a with
    | none => .pending
    | some t => .upToDate t (!openIds.contains t.id)

/-- `parse_again_functions.setdefault((source_box, 'content'), …)`: one function per source and anchor. -/
def register (w : List (String × Nat × List TItem)) (a : String) (src : Nat) (items : List TItem) :
    List (String × Nat × List TItem) :=
  if w.any (fun x => x.1 = a && x.2.1 = src) then w else w ++ [(a, src, items)]

mutual
/-- The tree walk of `element_to_box`: `store_target` after `::before`, children, then `::after`. -/
def walk (collected : List String) (openIds : List Nat) : TElem → WalkState → WalkState
  | .mk i disp anchor text before after kids tail, st =>
    if !disp then st
    else
      let self := TElem.mk i disp anchor text before after kids tail
      let openIds := i :: openIds
      let st := match anchor with
        | some a => if a ≠ "" && (sget st.stored a).isNone then { st with stored := st.stored ++ [(a, self)] } else st
        | none => st
      let st := walkKids collected openIds kids st
      match after with
      | none => st
      | some items =>
        let r := evalItems (lookupFn collected st.stored openIds) st.after items ""
        let st := { st with after := aset st.after i r.1 }
        match r.2 with
        | some a => { st with waiting := register st.waiting a i items }
        | none => st
def walkKids (collected : List String) (openIds : List Nat) : List TElem → WalkState → WalkState
  | [], st => st
  | k :: rest, st => walkKids collected openIds rest (walk collected openIds k st)
end

/-- `check_pending_targets`: for every anchor in collection order, every waiting function in
registration order; a function may register itself again under an anchor that is still pending (the
functions of an anchor processed later are called when its turn comes). Fuel: the number of calls. -/
def recompute (collected : List String) (st : WalkState) (src : Nat) (items : List TItem) : WalkState :=
  let r := evalItems (lookupFn collected st.stored []) st.after items ""
  let st := { st with after := aset st.after src r.1 }
  match r.2 with
  | some a => { st with waiting := register st.waiting a src items }
  | none => st

/-- The functions registered under `a`, in order, by position (the dict may grow while later anchors are
processed, never the one being iterated: a function re-registers under another anchor only). -/
def runAnchor (collected : List String) (a : String) : Nat → Nat → WalkState → WalkState
  | 0, _, st => st
  | fuel + 1, pos, st =>
    match (st.waiting.filter (·.1 = a))[pos]? with
    | none => st
    | some (_, src, items) => runAnchor collected a fuel (pos + 1) (recompute collected st src items)

def dedup : List String → List String
  | [] => []
  | a :: rest => a :: (dedup rest).filter (· ≠ a)

def checkPending (collected : List String) : List String → WalkState → WalkState
  | [], st => st
  | a :: rest, st => checkPending collected rest (runAnchor collected a (st.waiting.length + 1) 0 st)

/-- Final texts of the `::after` boxes. -/
def afterBoxes (root : TElem) : AfterMap :=
  let collected := anchorsOf root
  let st := walk collected [] root ⟨[], [], []⟩
  let st := if st.waiting.isEmpty then st else checkPending collected (dedup (collected.filter (· ≠ ""))) st
  st.after

end Wp.TargetText
