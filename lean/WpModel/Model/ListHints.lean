/-
List numbering from HTML attributes: mirror of
  the `ol` / `li` branches of `find_style_attributes` (weasyprint/css/__init__.py; generated table
  `Gen/ListHints.lean`: which attribute, which counter property its raw text is pasted into, the constant
  declarations of the same style text),
  `counter()` (weasyprint/css/validation/properties.py: the validator of counter-reset / -set / -increment) on
  the tokens of that text,
  and the cascade of the three counter properties for list elements without author declarations (a valid
  hint declaration wins over the user-agent one; an invalid one is dropped alone).
`toElem` maps a list tree (`ol` / `ul` / `li` / `div` with raw attributes) to the element tree of
`Model/CounterScope.lean`; `listTexts` is `build_formatting_structure` as far as markers and `li::after`
boxes are printed.
No Mathlib, no Std: linked into the compiled driver.
-/
import WpModel.Model.ListHintTypes
import WpModel.Gen.ListHints

namespace Wp.ListHints
open Wp.Counters

/-- `counter_name in ('none', 'initial', 'inherit')` → `InvalidValues`. -/
def badName (n : String) : Bool := n = "none" || n = "initial" || n = "inherit"

/-- The `while token is not None` loop of `counter(tokens, default_integer)`; `none`: invalid value. -/
def counterLoop (dflt : Int) : List HTok → List (String × Int) → Option (List (String × Int))
  | [], acc => some acc
  | .ident name :: .int n :: rest, acc =>
    if badName name then none else counterLoop dflt rest (acc ++ [(name, n)])
  | .ident name :: rest, acc =>
    if badName name then none else counterLoop dflt rest (acc ++ [(name, dflt)])
  | _ :: _, _ => none

def lowerAscii (s : String) : String := String.ofList (s.toList.map Char.toLower)

/-- `counter(tokens, default_integer)`.  An empty token list never reaches it (`preprocess_declarations`
drops empty values; the hints always paste the attribute after `pre ≠ []`): `none`. -/
def counterProp (dflt : Int) (tokens : List HTok) : Option (List (String × Int)) :=
  match tokens with
  | [] => none
  | [.ident k] => if lowerAscii k = "none" then some [] else counterLoop dflt tokens []
  | _ => counterLoop dflt tokens []

/-- `default_integer` of the three validators. -/
def defaultOf (prop : String) : Int := if prop = "counter_increment" then 1 else 0

/-- The computed counter declarations of an element carrying the hint `h`, raw attribute tokens `v`
(`none`: the attribute is absent or the empty string — `if element.get(attr)`), user-agent declarations
`ua`, no author declaration: every *valid* declaration of the hint's style text wins over `ua`. -/
def applyHint (h : AttrHint) (ua : Ops) (v : Option (List HTok)) : Ops :=
  match v with
  | none => ua
  | some toks =>
    let own := counterProp (defaultOf h.prop) (h.pre ++ toks)
    let reset := if h.prop = "counter_reset" then own else h.constReset
    let set := if h.prop = "counter_set" then own else h.constSet
    let incr := if h.prop = "counter_increment" then own else h.constIncr
    { disp := ua.disp
      reset := reset.getD ua.reset
      set := set.getD ua.set
      incr := match incr with
        | some l => some l
        | none => ua.incr }

/-- A list document: `<ol start=…>`, `<ul>`, `<li value=…>` (with its inherited `list-style-type`, the
content of its `::marker` when it is not `normal`, the content of its `::after` box), `<div>`. -/
inductive LNode where
  | ol (start : Option (List HTok)) (kids : List LNode)
  | ul (kids : List LNode)
  | li (value : Option (List HTok)) (style : Option CName) (marker after : Option (List Item)) (kids : List LNode)
  | div (kids : List LNode)
  deriving Repr

/-- Counter declarations of a generated `::after` box without declarations of its own. -/
def plainOps : Ops := ⟨.other, [], [], none⟩

mutual
def toElem : LNode → Elem
  | .ol start kids => .mk (applyHint Gen.olHint Gen.uaOl start) none none none none none (toElems kids)
  | .ul kids => .mk Gen.uaUl none none none none none (toElems kids)
  | .li value style marker after kids =>
    .mk (applyHint Gen.liHint Gen.uaLi value) style marker none none (after.map fun items => ⟨plainOps, items⟩)
      (toElems kids)
  | .div kids => .mk Gen.uaDiv none none none none none (toElems kids)
def toElems : List LNode → List Elem
  | [] => []
  | k :: rest => toElem k :: toElems rest
end

/-- The texts of the markers and `li::after` boxes of a list document (its root is the `body`). -/
def listTexts (cs : Styles) (body : List LNode) : Except CErr (List Obs) :=
  buildTexts cs (.mk plainOps none none none none none (toElems body))

end Wp.ListHints
