/-
Model of `weasyprint/layout/block.py` `collapse_margin` (C05 clause (h), also used by C03/PM).

```python
def collapse_margin(adjoining_margins):
    margins = [0]  # add 0 to make sure that max/min don't get an empty list
    margins.extend(adjoining_margins)
    positives = (m for m in margins if m >= 0)
    negatives = (m for m in margins if m <= 0)
    return max(positives) + min(negatives)
```
Python's `max` / `min` of an empty iterable raise `ValueError`: that failure point is explicit here
(`pyMax?` / `pyMin?` return `none` on `[]`), and that it is never reached is a theorem of Props/C05.
No Mathlib: linked into the driver.
-/
import WpModel.Model.Wire

namespace Wp.Margins
open Wp

/-- Python `max(iterable)`: left fold keeping the current item unless a later one is strictly greater. -/
def pyMax? : List Rat → Option Rat
  | [] => none
  | x :: xs => some (xs.foldl (fun a b => if b > a then b else a) x)

/-- Python `min(iterable)`: left fold keeping the current item unless a later one is strictly smaller. -/
def pyMin? : List Rat → Option Rat
  | [] => none
  | x :: xs => some (xs.foldl (fun a b => if b < a then b else a) x)

/-- `collapse_margin`, line for line. -/
def collapseMargin (adjoining : List Rat) : Except PyErr Rat :=
  let margins := (0 : Rat) :: adjoining
  let positives := margins.filter (fun m => m ≥ 0)
  let negatives := margins.filter (fun m => m ≤ 0)
  match pyMax? positives, pyMin? negatives with
  | some p, some n => .ok (p + n)
  | none, _ => .error (.valueError "collapse_margin:max")
  | _, none => .error (.valueError "collapse_margin:min")

/-- The largest non-negative margin (0 when there is none): reference for clause (h). -/
def maxPos (ms : List Rat) : Rat := ms.foldl (fun a m => max a m) 0

/-- The most negative margin (0 when there is none). -/
def minNeg (ms : List Rat) : Rat := ms.foldl (fun a m => min a m) 0

end Wp.Margins
