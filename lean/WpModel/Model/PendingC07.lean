/-
C07 — which value `ComputedStyle.__missing__` (weasyprint/css/__init__.py) selects for a key, before the
computer functions run: the cascaded value, the parent's computed value, or the initial value; with the
`Pending` (var()-containing) path: substitution, validation, fallback when the substituted value is invalid.
The `INHERITED` set is regenerated from weasyprint/css/properties.py (Gen/InheritedC07).
No Mathlib, no Std: linked into the driver.
-/
import WpModel.Model.Wire
import WpModel.Model.Declarations
import WpModel.Gen.InheritedC07

namespace Wp.Pending
open Wp Wp.Decl

/-- What `value.solve(solved_tokens, original_key)` gives for a pending value once `var()` is substituted:
a validated value, one of the CSS-wide keywords, or `InvalidValues`. -/
inductive Solved (β : Type) where
  | valid (v : β)
  | inheritKw
  | initialKw
  | invalid
  deriving Repr, BEq, DecidableEq

/-- `self.cascaded.get(key)`: absent, a CSS-wide keyword, a validated value, or a pending one. -/
inductive Casc (β : Type) where
  | absent
  | inheritKw
  | initialKw
  | value (v : β)
  | pending (s : Solved β)
  deriving Repr, BEq, DecidableEq

/-- The value the property gets (before its computer function). -/
inductive Sel (β : Type) where
  | specified (v : β)
  | parent            -- `parent_style[key]`, already computed
  | initial           -- `INITIAL_VALUES[key]` (`[]` for a custom property)
  deriving Repr, BEq, DecidableEq

/-- `key in INHERITED` (underscore form). -/
def isInherited (key : String) : Bool := Gen.InheritedC07.inherited.contains key

/-- `key[:2] == '__'`: a custom property. -/
def isCustom (key : String) : Bool := startsWith key "__"

/-- `ComputedStyle.__missing__(key)` up to the computer function. `hasParent` = `parent_style is not None`. -/
def select {β : Type} (key : String) (hasParent : Bool) (c : Casc β) : R (Sel β) :=
  -- value / pending from the cascade, else 'inherit' or 'initial'
  let start : Casc β :=
    match c with
    | .absent => if isInherited key || isCustom key then .inheritKw else .initialKw
    | c => c
  -- `if value == 'inherit' and parent_style is None: value = 'initial'`
  let start : Casc β :=
    match start with
    | .inheritKw => if hasParent then .inheritKw else .initialKw
    | c => c
  match start with
  | .absent => pure .initial            -- unreachable
  | .initialKw => pure .initial
  | .inheritKw => pure .parent
  | .value v => pure (.specified v)
  | .pending s =>
    match s with
    | .valid v => pure (.specified v)
    | .initialKw => pure .initial
    | .inheritKw =>
      -- `elif value == 'inherit': parent_style[key]` — the root test above came too early
      if hasParent then pure .parent else throw .typeError
    | .invalid =>
      if isInherited key && hasParent then pure .parent else pure .initial

end Wp.Pending
