/-
C07 — which value `ComputedStyle.__missing__` (weasyprint/css/__init__.py) selects for a key, before the
computer functions run: the cascaded value, the parent's computed value, or the initial value; with the
`Pending` (var()-containing) path: substitution, validation, fallback when the substituted value is invalid.
The `INHERITED` set is regenerated from weasyprint/css/properties.py (Gen/InheritedC07).
No Mathlib, no Std: linked into the driver.
-/
import WpModel.Model.Wire
import WpModel.Model.Declarations
import WpModel.Gen.InheritedC07

namespace Wp.Pending
open Wp Wp.Decl

/-- What `value.solve(solved_tokens, original_key)` gives for a pending value once `var()` is substituted:
a validated value, one of the CSS-wide keywords, or `InvalidValues`. -/
inductive Solved (β : Type) where
  | valid (v : β)
  | inheritKw
  | initialKw
  | invalid
  deriving Repr, BEq, DecidableEq

/-- `self.cascaded.get(key)`: absent, a CSS-wide keyword, a validated value, or a pending one. -/
inductive Casc (β : Type) where
  | absent
  | inheritKw
  | initialKw
  | value (v : β)
  | pending (s : Solved β)
  deriving Repr, BEq, DecidableEq

/-- The value the property gets (before its computer function). -/
inductive Sel (β : Type) where
  | specified (v : β)
  | parent            -- `parent_style[key]`, already computed
  | initial           -- `INITIAL_VALUES[key]` (`[]` for a custom property)
  deriving Repr, BEq, DecidableEq

/-- `key in INHERITED` (underscore form). -/
def isInherited (key : String) : Bool := Gen.InheritedC07.inherited.contains key

/-- `key[:2] == '__'`: a custom property. -/
def isCustom (key : String) : Bool := startsWith key "__"

/-- `ComputedStyle.__missing__(key)` up to the computer function. `hasParent` = `parent_style is not None`.
Order of the tests as in the source (since `fix:` 582f36b the root test for 'inherit' comes *after* the pending
value is solved). -/
def select {β : Type} (key : String) (hasParent : Bool) (c : Casc β) : R (Sel β) :=
  -- value / pending from the cascade, else 'inherit' or 'initial'
  let start : Casc β :=
    match c with
    | .absent => if isInherited key || isCustom key then .inheritKw else .initialKw
    | c => c
  -- `if pending:` … `value = value.solve(solved_tokens, original_key)`; `except InvalidValues:` the parent's
  -- computed value (inherited property with a parent) or the initial value, stored at once
  let solved : Casc β ⊕ Sel β :=
    match start with
    | .pending (.valid v) => .inl (.value v)
    | .pending .inheritKw => .inl .inheritKw
    | .pending .initialKw => .inl .initialKw
    | .pending .invalid => .inr (if isInherited key && hasParent then .parent else .initial)
    | c => .inl c
  match solved with
  | .inr sel => pure sel
  | .inl value =>
    -- `if value == 'inherit' and parent_style is None: value = 'initial'`
    let value : Casc β :=
      match value with
      | .inheritKw => if hasParent then .inheritKw else .initialKw
      | c => c
    match value with
    | .initialKw => pure .initial
    | .inheritKw => pure .parent          -- `parent_style[key]`: a parent exists here
    | .value v => pure (.specified v)
    | .absent => pure .initial            -- unreachable
    | .pending _ => pure .initial         -- unreachable

/-! ### `Pending.solve`: one object per declaration, shared by every element (and longhand) it applies to -/

/-- One call of `Pending.solve(tokens, wanted_key)` (weasyprint/css/utils.py) on an object whose
`_reported_error` flag is `reported`: the outcome, the flag afterwards, and whether a warning was logged. -/
structure SolveOut (β : Type) where
  result : R β
  reported : Bool
  warned : Bool

/-- `noTokens`: `not tokens` (substitution left nothing); `validate`: what `self.validate(tokens, wanted_key)`
does on these tokens (evaluated only when there are tokens).  Only `InvalidValues` is caught; it is logged the
first time (`_reported_error`), and raised again every time. -/
def solve {β : Type} (reported noTokens : Bool) (validate : R β) : SolveOut β :=
  let r : R β := if noTokens then .error .invalid else validate
  match r with
  | .error .invalid => { result := .error .invalid, reported := true, warned := !reported }
  | r => { result := r, reported := reported, warned := false }

/-- The successive calls on one `Pending` object (one per element the rule matches, per longhand), from a flag. -/
def solveSeq {β : Type} : Bool → List (Bool × R β) → List (SolveOut β)
  | _, [] => []
  | reported, (nt, v) :: rest =>
    let o := solve reported nt v
    o :: solveSeq o.reported rest

end Wp.Pending
