/-
Break-value resolution: mirror of `block_level_page_break`, `avoid_page_break`, `force_page_break`
(weasyprint/layout/block.py).  The tables come from `Gen/BreakTable.lean`, regenerated from the
source on every run.
-/
import WpModel.Gen.BreakTable

namespace Wp

/-- One iteration of the fold `for value in values: if value in SIDES or (value, result) in PAIRS`. -/
def step (r v : Brk) : Brk :=
  if Gen.sideSet.contains v || Gen.pairTable.contains (v, r) then v else r

/-- `result = 'auto'; for value in values: …; return result`. -/
def resolve (vs : List Brk) : Brk := vs.foldl step .auto

def avoids (inColumn : Bool) (v : Brk) : Bool :=
  if inColumn then Gen.avoidInColumn.contains v else Gen.avoidInPage.contains v

def forces (inColumn : Bool) (v : Brk) : Bool :=
  if inColumn then Gen.forceInColumn.contains v else Gen.forceInPage.contains v

/-- The part of a box the break resolution looks at: is it an instance of
`(BlockLevelBox, TableRowGroupBox, TableRowBox)`, its `break-before` / `break-after`, children. -/
inductive BBox where
  | mk (parallel : Bool) (before after : Brk) (kids : List BBox)
  deriving Repr, Inhabited

mutual
/-- `while isinstance(box, types): values.append(box.style['break_after']); box = box.children[-1]` -/
def afterChain : BBox → List Brk
  | .mk par _ a kids => if par then a :: afterChainLast kids else []
def afterChainLast : List BBox → List Brk
  | [] => []
  | b :: rest => match rest with
    | [] => afterChain b
    | _ :: _ => afterChainLast rest
end

mutual
/-- `while isinstance(box, types): values.append(box.style['break_before']); box = box.children[0]` -/
def beforeChain : BBox → List Brk
  | .mk par b _ kids => if par then b :: beforeChainFirst kids else []
def beforeChainFirst : List BBox → List Brk
  | [] => []
  | b :: _ => beforeChain b
end

/-- The values meeting between two siblings, in tree order. -/
def meetingValues (a b : BBox) : List Brk := (afterChain a).reverse ++ beforeChain b

/-- `block_level_page_break(sibling_before, sibling_after)`. -/
def pageBreakBetween (a b : BBox) : Brk := resolve (meetingValues a b)

end Wp
