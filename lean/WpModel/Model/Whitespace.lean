/-
White-space processing of one text: mirror of the `TextBox` branch of `build.process_whitespace`
and of `build.capitalize` (weasyprint/formatting_structure/build.py).

Texts are lists of code points.  The three regular expressions of the source are mirrored by three
scanners; `Gen/BoxKinds.lean` carries the pattern strings read from the source, and `Props/C08.lean`
checks that they are still the patterns these scanners were written for.
  LINE_FEED_RE = '\r\n?'          → `lineFeed`
  TAB_RE       = '[\t ]*\n[\t ]*' → `tabSub`
  SPACE_RE     = '[\t ]+'         → `spaceSub`
No Mathlib.
-/
import WpModel.Gen.BoxKinds
import WpModel.Gen.CharTable

namespace Wp.Bx

abbrev Text := List Nat

namespace Ch
def tab : Nat := 9
def lf : Nat := 10
def cr : Nat := 13
def sp : Nat := 32
end Ch

/-- `[\t ]` -/
def isSpTab (c : Nat) : Bool := c == Ch.sp || c == Ch.tab

/-- `LINE_FEED_RE.sub('\n', text)`: every `\r\n` or lone `\r` becomes `\n`.
`afterCr`: the previous character was a `\r` (its `\n` is already emitted; a `\n` now belongs to
the same match). -/
def lineFeedGo : Text → Bool → Text
  | [], _ => []
  | c :: rest, afterCr =>
    if c == Ch.cr then Ch.lf :: lineFeedGo rest true
    else if c == Ch.lf && afterCr then lineFeedGo rest false
    else c :: lineFeedGo rest false

def lineFeed (t : Text) : Text := lineFeedGo t false

/-- `TAB_RE.sub('\n', text)`, leftmost greedy matches of `[\t ]*\n[\t ]*`.
`pend`: the run of spaces/tabs read so far (reversed) that is dropped if a newline follows;
`skip`: a newline was just emitted, following spaces/tabs belong to the same match. -/
def tabSubGo : Text → List Nat → Bool → Text
  | [], pend, _ => pend.reverse
  | c :: cs, pend, skip =>
    if isSpTab c then
      if skip then tabSubGo cs [] true else tabSubGo cs (c :: pend) false
    else if c == Ch.lf then Ch.lf :: tabSubGo cs [] true
    else pend.reverse ++ c :: tabSubGo cs [] false

def tabSub (t : Text) : Text := tabSubGo t [] false

/-- `text.replace('\n', ' ')` -/
def nlToSpace (t : Text) : Text := t.map (fun c => if c == Ch.lf then Ch.sp else c)

/-- `SPACE_RE.sub(' ', text)`: every maximal run of spaces/tabs becomes one space.
`inRun`: the previous character belonged to a run (its single space is already emitted). -/
def spaceSubGo : Text → Bool → Text
  | [], _ => []
  | c :: cs, inRun =>
    if isSpTab c then (if inRun then spaceSubGo cs true else Ch.sp :: spaceSubGo cs true)
    else c :: spaceSubGo cs false

def spaceSub (t : Text) : Text := spaceSubGo t false

def newLineCollapse (ws : WS) : Bool := Gen.newLineCollapseWs.contains ws
def spaceCollapse (ws : WS) : Bool := Gen.spaceCollapseWs.contains ws

/-- `text.startswith(' ')` -/
def startsWithSp : Text → Bool
  | c :: _ => c == Ch.sp
  | [] => false

/-- `text.endswith(' ')` -/
def endsWithSp : Text → Bool
  | [] => false
  | [c] => c == Ch.sp
  | _ :: rest => endsWithSp rest

/-- Result of the `TextBox` branch: the new text, whether `leading_collapsible_space` was set, and
the value of `following_collapsible_space` after the box (before the final `and not is_running`). -/
structure TextResult where
  text : Text
  setLeading : Bool
  following : Bool
  deriving Repr, BEq, DecidableEq

/-- The `TextBox` branch of `process_whitespace` for a non-empty text. -/
def processText (ws : WS) (text : Text) (following : Bool) : TextResult :=
  let t1 := lineFeed text
  let t2 := if spaceCollapse ws then tabSub t1 else t1
  let t3 := if newLineCollapse ws then nlToSpace t2 else t2
  if spaceCollapse ws then
    let prev := spaceSub t3
    if following && startsWithSp prev then
      { text := prev.drop 1, setLeading := true, following := endsWithSp prev }
    else
      { text := prev, setLeading := false, following := endsWithSp prev }
  else
    { text := t3, setLeading := false, following := false }

/-! `capitalize` -/

/-- `capitalize(text)`: loop state `letter_found`. -/
def capitalizeGo : Text → Bool → Text
  | [], _ => []
  | c :: cs, found =>
    let cat := Gen.ucatCp c
    if !found && (cat == .L || cat == .N) then Gen.upperCp c ++ capitalizeGo cs true
    else if cat == .Z then c :: capitalizeGo cs false
    else c :: capitalizeGo cs found

def capitalize (t : Text) : Text := capitalizeGo t false

/-- `text.upper()`, `text.lower()`, `text.translate(ASCII_TO_WIDE)` over the tabulated alphabet. -/
def upperText (t : Text) : Text := t.flatMap Gen.upperCp
def lowerText (t : Text) : Text := t.flatMap Gen.lowerCp
def wideText (t : Text) : Text := t.flatMap Gen.wideCp

/-- The dict of `process_text_transform`. -/
def applyTT (tt : TT) (t : Text) : Text :=
  match tt with
  | .none => t
  | .uppercase => upperText t
  | .lowercase => lowerText t
  | .capitalize => capitalize t
  | .fullWidth => wideText t

/-- `text.replace('\u00AD', '')` -/
def dropSoftHyphens (t : Text) : Text := t.filter (fun c => c != 173)

/-- `is_whitespace` on the text of a `TextBox`: no character outside the class of its regular
expression (`Gen.reSpaceCp`: the graph of the real function; `Gen.isWhitespaceRe` is the pattern). -/
def allReSpace (t : Text) : Bool := t.all Gen.reSpaceCp

/-- `not text.strip(' ')` -/
def allPlainSpaces (t : Text) : Bool := t.all (fun c => c == Ch.sp)

end Wp.Bx
