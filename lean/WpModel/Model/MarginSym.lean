/-
Symbolic names used by the side / corner tables of `make_margin_boxes`
(weasyprint/layout/page.py).  Hand-written; `Gen/MarginBoxes.lean` (regenerated from the source on
every run) is stated over this type, `Model/PageBoxes.lean` evaluates it on a page geometry.
No Mathlib, no Std: linked into the compiled driver.
-/
namespace Wp

/-- The local variables of `make_margin_boxes` that the two loop tables mention. -/
inductive MSym where
  | zero
  | marginTop | marginBottom | marginLeft | marginRight
  | maxBoxWidth | maxBoxHeight
  | pageEndX | pageEndY
  deriving Repr, DecidableEq, BEq, Inhabited

/-- One row of the side loop:
`(prefix, vertical, (containing_block[0], containing_block[1]), position_x, position_y)`. -/
structure SideRow where
  pre : String
  vertical : Bool
  cb0 : MSym
  cb1 : MSym
  posX : MSym
  posY : MSym
  deriving Repr, DecidableEq, BEq, Inhabited

/-- One row of the corner loop: `(at_keyword, cb_width, cb_height, position_x, position_y)` together
with the two tests `'top' in at_keyword`, `'left' in at_keyword` evaluated by the extractor. -/
structure CornerRow where
  kw : String
  cbW : MSym
  cbH : MSym
  posX : MSym
  posY : MSym
  isTop : Bool
  isLeft : Bool
  deriving Repr, DecidableEq, BEq, Inhabited

end Wp
