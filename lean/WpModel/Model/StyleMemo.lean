/-
The memoising dict behind `ComputedStyle`: `style[key]` returns the stored value when there is one
(`dict.__getitem__`), else runs `__missing__(key)`, which stores what it computes (`self[key] = …`)
— and, on three paths, stores *before* it has finished (`self[key] = value` for `inherit`, `initial`
and a failed `var()`), so that an exception raised afterwards (in the text-decoration / `page`
post-processing, which reads the parent) leaves that early value in the dict.

`Style.computedKey` is the function the dict memoises; this file models the dict (`Memo`) and the
reads through it, so that "lazy per-key evaluation in any order = the eager function" is a theorem
(`Props/C06Memo.lean`) and its failure mode a witness.
No Mathlib, no Std.
-/
import WpModel.Model.Style

namespace Wp.StyleMemo
open Wp Wp.Cascade Wp.Computed Wp.Style Wp.Gen.Units

/-- What an exception raised after an early `self[key] = value` leaves in the dict. -/
def staleAfterFailure (e : Elem) (parent : ParentGet) (key : String) : Option Val :=
  match specified123 e parent key with
  | .ok (v3, some s) =>
    match specified4 e parent key v3 (some s) with
    | .error _ => some s
    | .ok _ => none
  | _ => none

/-- The dict: later entries shadow earlier ones. -/
abbrev Memo := List (String × Val)

structure Ctx where
  e : Elem
  parent : ParentGet
  root : Unit → Except CErr Rat
  ex : Rat
  ch : Rat

/-- The function the dict memoises. -/
def pure' (c : Ctx) (key : String) : Except CErr Val := computedKey c.e c.parent c.root c.ex c.ch key

/-- `style[k]` as a computing function reads it: the stored value if any, else `__missing__(k)`
(whose own stores are not tracked here: they are entries of the same kind). -/
def peek (c : Ctx) (m : Memo) (k : String) : Except CErr Val :=
  match lookup k m with
  | some v => .ok v
  | none => pure' c k

/-- The environment of the computing functions, reading through the dict. -/
def envM (c : Ctx) (m : Memo) : Env :=
  { fontEnv c.e c.parent c.root c.ex c.ch with
    fontSize := fun _ => (peek c m "font_size").bind numOf,
    get := fun k =>
      match lookup k computerFunctions with
      | none => peek c m k
      | some _ => .error (.unsupported ("style[" ++ k ++ "] read by a computing function")),
    specified := fun k => do pure (← specified c.e c.parent k).1 }

/-- `__missing__(key)` after its first lines, with its effect on the dict. -/
def missingCoreM (c : Ctx) (m : Memo) (key : String) : Except CErr Val × Memo :=
  match specified123 c.e c.parent key with
  | .error err => (.error err, m)
  | .ok (v3, st3) =>
    match specified4 c.e c.parent key v3 st3 with
    | .error err =>
      (.error err, match st3 with
        | some s => (key, s) :: m      -- stored early, never deleted
        | none => m)
    | .ok (v, true) => (.ok v, (key, v) :: m)
    | .ok (v, false) =>
      match compute (envM c m) key v with
      | .ok r => (.ok r, (key, r) :: m)
      | .error err => (.error err, m)

def readCoreM (c : Ctx) (m : Memo) (key : String) : Except CErr Val × Memo :=
  match lookup key m with
  | some v => (.ok v, m)
  | none => missingCoreM c m key

/-- `__missing__('float')`: `self['position']` first. -/
def missingFloatM (c : Ctx) (m : Memo) : Except CErr Val × Memo :=
  match readCoreM c m "position" with
  | (.error err, m1) => (.error err, m1)
  | (.ok _, m1) => missingCoreM c m1 "float"

/-- `self['float']`. -/
def readFloatM (c : Ctx) (m : Memo) : Except CErr Val × Memo :=
  match lookup "float" m with
  | some v => (.ok v, m)
  | none => missingFloatM c m

/-- `ComputedStyle.__missing__(key)`. -/
def missingM (c : Ctx) (m : Memo) (key : String) : Except CErr Val × Memo :=
  if key == "float" then missingFloatM c m
  else if key == "display" then
    match readFloatM c m with
    | (.error err, m1) => (.error err, m1)
    | (.ok _, m1) => missingCoreM c m1 "display"
  else missingCoreM c m key

/-- `style[key]`. -/
def readM (c : Ctx) (m : Memo) (key : String) : Except CErr Val × Memo :=
  match lookup key m with
  | some v => (.ok v, m)
  | none => missingM c m key

/-- Reading a sequence of keys on one style object, in that order (repeats allowed). -/
def readSeq (c : Ctx) : Memo → List String → List (Except CErr Val)
  | _, [] => []
  | m, k :: ks =>
    let r := readM c m k
    r.1 :: readSeq c r.2 ks

/-- The successful reads (`none` = the read raised). -/
def okVal (r : Except CErr Val) : Option Val :=
  match r with
  | .ok v => some v
  | .error _ => none

/-- The context of the element at the head of a chain (its ancestors are already-computed, pure
styles: "parents have computed styles before their children"). -/
def ctxOf (ex ch : Rat) : List Elem → Option Ctx
  | [] => none
  | [e] => some ⟨e, none, fun _ => .ok initialFontSize, ex, ch⟩
  | e :: p :: rest =>
    let root := rootFontSizeOf ex ch (e :: p :: rest)
    some ⟨e, some (styleAtWith root ex ch (p :: rest)), root, ex, ch⟩

end Wp.StyleMemo
