/-
`draw_collapsed_borders` of `weasyprint/draw/__init__.py`, mirrored branch for branch: which border
segments are painted for one table *fragment* (a page of a possibly split table) in the collapsing
model, in which order, from the border grids that `collapse_table_borders` resolved for the whole
table.

* `rowNumber`     ↔ `row_number(y, horizontal)`: the row / grid line of the *original* grid that line
                     `y` of the fragment shows: the repeated header keeps its own rows **and the line
                     under it** (`y < header_rows + int(horizontal)`), the repeated footer its rows and
                     the lines from its top edge down (`y >= grid_height - footer_rows`, for rows and
                     for lines alike since the repair 4d1447f), the body rows are shifted by
                     `skipped_rows − header_rows`
* `halfMaxWidth`  ↔ `half_max_width(border_list, yx_pairs, vertical)`
* `addVertical`, `addHorizontal` ↔ `add_vertical(x, y)`, `add_horizontal(x, y)` (skipped for width 0,
                     transparent colour, and for the first / last line of a fragment whose first / last
                     row is cut: `skip_cell_border_top/bottom`)
* `segments`      ↔ the generation order of the three loops, then `segments.sort(key=score)` (stable)

Python indexing with negative indices is modelled literally (`Borders.pyIndex`); colours are opaque ids
(0 = alpha 0).  No Mathlib: linked into `driver_c10`.
-/
import WpModel.Model.Wire
import WpModel.Model.TableBorders

namespace Wp.BorderDraw
open Wp Wp.Borders

structure DrawIn where
  rowHeights : List Rat         -- `row.height` of the fragment's rows
  rowPositions : List Rat       -- `row.position_y`
  colWidths : List Rat          -- `table.column_widths` (visual order)
  colPositions : List Rat       -- `table.column_positions`
  headerRows : Nat              -- rows of `table.children[0]` when it is the header, else 0
  footerRows : Nat
  skippedRows : Nat             -- `table.skipped_rows`
  skipTop : Bool                -- `table.skip_cell_border_top`
  skipBottom : Bool             -- `table.skip_cell_border_bottom`
  vertical : Grid               -- `table.collapsed_border_grid` (of the whole table)
  horizontal : Grid
  deriving Repr

inductive Side where
  | left | top
  deriving Repr, DecidableEq

/-- One painted line: `draw_line(stream, x, y, x + w, y + h, width, style, styled_color(style, color, side))`. -/
structure Segment where
  score : Score
  style : BStyle
  width : Rat
  color : Nat
  side : Side
  x : Rat
  y : Rat
  w : Rat
  h : Rat
  deriving Repr, DecidableEq

def gridHeight (d : DrawIn) : Nat := d.rowHeights.length
def gridWidth (d : DrawIn) : Nat := d.colWidths.length

/-- `body_rows_offset = skipped_rows - header_rows if skipped_rows else 0`. -/
def bodyOffset (d : DrawIn) : Int :=
  if d.skippedRows ≠ 0 then (d.skippedRows : Int) - (d.headerRows : Int) else 0

/-- `footer_rows_offset = len(vertical_borders) - grid_height`. -/
def footerOffset (d : DrawIn) : Int := (d.vertical.length : Int) - (gridHeight d : Int)

def b2i (b : Bool) : Int := if b then 1 else 0

/-- `row_number(y, horizontal)`. -/
def rowNumber (d : DrawIn) (y : Int) (horizontal : Bool) : Int :=
  if d.headerRows ≠ 0 ∧ y < (d.headerRows : Int) + b2i horizontal then y
  else if d.footerRows ≠ 0 ∧ y ≥ (gridHeight d : Int) - (d.footerRows : Int) then
    y + footerOffset d
  else y + bodyOffset d

/-- `border_list[yy][x]` with Python's index rules. -/
def gridAt (g : Grid) (yy x : Int) : Except PyErr Edge :=
  match pyIndex g.length yy with
  | none => .error (.indexError "border_list[yy]")
  | some yi =>
    match g[yi]? with
    | none => .error (.indexError "border_list[yy]")
    | some row =>
      match pyIndex row.length x with
      | none => .error (.indexError "border_list[yy][x]")
      | some xi =>
        match row[xi]? with
        | none => .error (.indexError "border_list[yy][x]")
        | some e => .ok e

def maxR (a b : Rat) : Rat := if b > a then b else a

/-- `half_max_width(border_list, yx_pairs, vertical)`. -/
def halfMaxWidth (d : DrawIn) (g : Grid) (pairs : List (Int × Int)) (vertical : Bool) : Except PyErr Rat :=
  let gh : Int := gridHeight d
  let gw : Int := gridWidth d
  let step := fun (acc : Except PyErr Rat) (p : Int × Int) =>
    match acc with
    | .error e => .error e
    | .ok r =>
      let inside := if vertical then decide (0 ≤ p.1 ∧ p.1 < gh ∧ 0 ≤ p.2 ∧ p.2 ≤ gw)
                    else decide (0 ≤ p.1 ∧ p.1 ≤ gh ∧ 0 ≤ p.2 ∧ p.2 < gw)
      if inside then
        match gridAt g (rowNumber d p.1 (!vertical)) p.2 with
        | .error e => .error e
        | .ok e => .ok (maxR r e.border.width)
      else .ok r
  match pairs.foldl step (.ok 0) with
  | .error e => .error e
  | .ok r => .ok (r / 2)

def nth (l : List Rat) (i : Nat) (site : String) : Except PyErr Rat :=
  match l[i]? with
  | some v => .ok v
  | none => .error (.indexError site)

/-- `column_positions.append(column_positions[-1] + column_widths[-1])`. -/
def withEnd (pos sizes : List Rat) : List Rat :=
  match pos.getLast?, sizes.getLast? with
  | some p, some s => pos ++ [p + s]
  | _, _ => pos

/-- `add_vertical(x, y)`: the segment, if one is painted. -/
def addVertical (d : DrawIn) (x y : Nat) : Except PyErr (Option Segment) := do
  let e ← gridAt d.vertical (rowNumber d y false) x
  if e.border.width = 0 ∨ e.border.color = 0 then return none
  let colPos := withEnd d.colPositions d.colWidths
  let rowPos := withEnd d.rowPositions d.rowHeights
  let posX ← nth colPos x "column_positions[x]"
  let y1 ← nth rowPos y "row_positions[y]"
  let y1 ← if y ≠ 0 ∨ !d.skipTop then do
      let s ← halfMaxWidth d d.horizontal [((y : Int), (x : Int) - 1), ((y : Int), (x : Int))] false
      pure (y1 - s)
    else pure y1
  let y2 ← nth rowPos (y + 1) "row_positions[y + 1]"
  let y2 ← if y ≠ gridHeight d - 1 ∨ !d.skipBottom then do
      let s ← halfMaxWidth d d.horizontal [((y : Int) + 1, (x : Int) - 1), ((y : Int) + 1, (x : Int))] false
      pure (y2 + s)
    else pure y2
  return some ⟨e.score, e.border.style, e.border.width, e.border.color, .left, posX, y1, 0, y2 - y1⟩

/-- `add_horizontal(x, y)`. -/
def addHorizontal (d : DrawIn) (x y : Nat) : Except PyErr (Option Segment) := do
  if y = 0 ∧ d.skipTop then return none
  if y = gridHeight d ∧ d.skipBottom then return none
  let e ← gridAt d.horizontal (rowNumber d y true) x
  if e.border.width = 0 ∨ e.border.color = 0 then return none
  let colPos := withEnd d.colPositions d.colWidths
  let rowPos := withEnd d.rowPositions d.rowHeights
  let posY ← nth rowPos y "row_positions[y]"
  let before ← halfMaxWidth d d.vertical [((y : Int) - 1, (x : Int)), ((y : Int), (x : Int))] true
  let after ← halfMaxWidth d d.vertical [((y : Int) - 1, (x : Int) + 1), ((y : Int), (x : Int) + 1)] true
  let x1 ← nth colPos x "column_positions[x]"
  let x2 ← nth colPos (x + 1) "column_positions[x + 1]"
  return some ⟨e.score, e.border.style, e.border.width, e.border.color, .top, x1 - before, posY,
               (x2 + after) - (x1 - before), 0⟩

/-- The calls of the three loops, in order: `(horizontal?, x, y)`. -/
def callOrder (gw gh : Nat) : List (Bool × Nat × Nat) :=
  (List.range gw).map (fun x => (true, x, 0)) ++
  (List.range gh).flatMap (fun y =>
    (false, 0, y) :: (List.range gw).flatMap (fun x => [(false, x + 1, y), (true, x, y + 1)]))

def Score.le (a b : Score) : Bool := !(b.lt a)

/-- Insertion keeping equal scores in arrival order (Python's `list.sort` is stable). -/
def insertByScore (s : Segment) : List Segment → List Segment
  | [] => [s]
  | t :: ts => if Score.le t.score s.score then t :: insertByScore s ts else s :: t :: ts

def sortByScore (l : List Segment) : List Segment := l.foldl (fun acc s => insertByScore s acc) []

/-- One call of `add_horizontal` / `add_vertical` appended to the list of segments. -/
def segStep (d : DrawIn) (acc : Except PyErr (List Segment)) (c : Bool × Nat × Nat) :
    Except PyErr (List Segment) :=
  match acc with
  | .error e => .error e
  | .ok segs =>
    match (if c.1 then addHorizontal d c.2.1 c.2.2 else addVertical d c.2.1 c.2.2) with
    | .error e => .error e
    | .ok none => .ok segs
    | .ok (some s) => .ok (segs ++ [s])

/-- Segments before sorting. -/
def rawSegments (d : DrawIn) : Except PyErr (List Segment) :=
  (callOrder (gridWidth d) (gridHeight d)).foldl (segStep d) (.ok [])

/-- `draw_collapsed_borders(stream, table)`: the painted lines, in painting order. -/
def segments (d : DrawIn) : Except PyErr (List Segment) :=
  if d.rowHeights.isEmpty ∨ d.colWidths.isEmpty then .ok []
  else if gridWidth d ≠ d.colPositions.length then .error (.assertFailed "grid_width == len(column_positions)")
  else
    match rawSegments d with
    | .error e => .error e
    | .ok segs => .ok (sortByScore segs)

end Wp.BorderDraw
