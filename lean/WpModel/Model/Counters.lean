/-
Counter styles: mirror of `weasyprint/css/counters.py`
  `symbol`, `CounterStyle.resolve_counter`, `CounterStyle.render_value`, `CounterStyle.render_marker`
branch for branch, quirks included (shared mutable `previous_types`, the second `extends` loop of
`render_value`, `(counter_value - 1) % length` on non-positive values, …).  Since 1bdaf16 the decimal
fallbacks of the four sign-using systems receive `original_value` and the numeric system tests its
symbol count first; since 5be1d36 the validator stores `range: auto` as the string `'auto'`
(`RangeDesc.auto`), so `RangeEntry.autoKw` (an element `'auto'` inside a range tuple, on which
`for min_range, max_range in …` raises ValueError) is no longer produced by any validator.

Python failure points are explicit (`CErr`).  The two unbounded Python constructs (the recursion of
`render_value` through fallbacks and the `while extends` loops) take explicit fuel; running out of fuel
is the observable outcome `err:RecursionError` (never a default value).  `Props/C15.lean` proves that
the fuel chosen by `renderValueTop` is never exhausted on well-formed style tables.

No Mathlib, no Std: this file is linked into the compiled driver.
-/
import WpModel.Model.Wire

namespace Wp.Counters

/-- Python exceptions that exist in the mirrored code. -/
inductive CErr where
  | valueError     -- `for min_range, max_range in counter_ranges` on the element `'auto'`
  | typeError      -- `len(None)`, `None[0]`, `for … in None`, `int - None`
  | indexError     -- `counter['symbols'][0]` on an empty tuple
  | assertion      -- `assert initial is not None`
  | recursion      -- fuel exhausted (Python: RecursionError / endless `while extends`)
  | keyError       -- `counter_values[name]` on a missing key (build.py)
  deriving Repr, DecidableEq

def CErr.render : CErr → String
  | .valueError => "err:ValueError"
  | .typeError => "err:TypeError"
  | .indexError => "err:IndexError"
  | .assertion => "err:AssertionError"
  | .recursion => "err:RecursionError"
  | .keyError => "err:KeyError"

instance exceptDecEq {α : Type} [DecidableEq α] : DecidableEq (Except CErr α) := fun a b =>
  match a, b with
  | .ok x, .ok y => if h : x = y then isTrue (by rw [h]) else isFalse (by intro e; cases e; exact h rfl)
  | .error x, .error y => if h : x = y then isTrue (by rw [h]) else isFalse (by intro e; cases e; exact h rfl)
  | .ok _, .error _ => isFalse (by intro e; cases e)
  | .error _, .ok _ => isFalse (by intro e; cases e)

/-- A symbol `('string', value)` or `('url', …)`. -/
inductive Sym where
  | str (s : String)
  | url
  deriving Repr, DecidableEq

/-- `symbol(string_or_url)`: the string, or `''` for images. -/
def Sym.text : Sym → String
  | .str s => s
  | .url => ""

/-- The `system` descriptor `(extends, system, fixed_number)`; `ext = true` is the keyword
`'extends'` (then `name` is the extended style's name), `false` is `None`. -/
structure Sys where
  ext : Bool
  name : String
  fixed : Option Int
  deriving Repr, DecidableEq

/-- `-inf`, an integer, `inf`. -/
inductive Bound where
  | negInf
  | fin (i : Int)
  | posInf
  deriving Repr, DecidableEq

/-- `bound <= v`. -/
def Bound.leInt : Bound → Int → Bool
  | .negInf, _ => true
  | .fin i, v => decide (i ≤ v)
  | .posInf, _ => false

/-- `v <= bound`. -/
def Bound.geInt : Bound → Int → Bool
  | .negInf, _ => false
  | .fin i, v => decide (v ≤ i)
  | .posInf, _ => true

/-- One element of a `range` tuple: a `(min, max)` pair, or anything that is not a pair (`autoKw`: the
string `'auto'`, which the validator wrapped in a tuple before 5be1d36; no validator produces it any more,
`C15.validated_range_is_pairs`; `render_value` handed such a tuple still raises ValueError). -/
inductive RangeEntry where
  | autoKw
  | pair (lo hi : Bound)
  deriving Repr, DecidableEq

/-- The `range` value: the plain string `'auto'` (`range: auto`, and the anonymous styles of
`resolve_counter`) or a tuple. -/
inductive RangeDesc where
  | auto
  | entries (l : List RangeEntry)
  deriving Repr, DecidableEq

/-- A counter style dictionary entry (`None` = `none`). -/
structure Desc where
  system : Option Sys := none
  negative : Option (Sym × Sym) := none
  pfx : Option Sym := none
  sfx : Option Sym := none
  range : Option RangeDesc := none
  pad : Option (Nat × Sym) := none
  fallback : Option String := none
  symbols : Option (List Sym) := none
  additive : Option (List (Nat × Sym)) := none
  deriving Repr, DecidableEq

/-- What is passed as `counter_name`: an identifier, `('string', s)` or `('symbols()', (system, …))`. -/
inductive CName where
  | named (s : String)
  | str (s : String)
  | symbols (sys : String) (args : List String)
  deriving Repr, DecidableEq

/-- The `CounterStyle` dict. -/
abbrev Styles := List (String × Desc)

def lookup (cs : Styles) (n : String) : Option Desc :=
  match cs with
  | [] => none
  | (k, d) :: rest => if k = n then some d else lookup rest n

/-- `for name, value in extended_counter.items(): if counter[name] is None and value is not None:
counter[name] = value`. -/
def merge (c e : Desc) : Desc :=
  { system := c.system.orElse fun _ => e.system
    negative := c.negative.orElse fun _ => e.negative
    pfx := c.pfx.orElse fun _ => e.pfx
    sfx := c.sfx.orElse fun _ => e.sfx
    range := c.range.orElse fun _ => e.range
    pad := c.pad.orElse fun _ => e.pad
    fallback := c.fallback.orElse fun _ => e.fallback
    symbols := c.symbols.orElse fun _ => e.symbols
    additive := c.additive.orElse fun _ => e.additive }

/-- `if counter['system']: extends, system, fixed = counter['system'] else: None, 'symbolic', None`. -/
def sysOf (d : Desc) : Bool × String × Option Int :=
  match d.system with
  | some s => (s.ext, s.name, s.fixed)
  | none => (false, "symbolic", none)

/-- The anonymous style built by `resolve_counter` for `('string', s)` and `symbols()`.
`pad` is `(0, '')` in the source: its second component is never read (the difference is ≤ 0). -/
def anonDesc (sys : Sys) (symbols : List Sym) (suffix : Sym) : Desc :=
  { system := some sys
    negative := some (.str "-", .str "")
    pfx := some (.str "")
    sfx := some suffix
    range := some .auto
    pad := some (0, .str "")
    fallback := some "decimal"
    symbols := some symbols
    additive := some [] }

/-- The `while extends:` loop of `resolve_counter` (state: counter, extends, system, previous_types). -/
def resolveLoop (cs : Styles) : Nat → Desc → Bool → String → List CName → Except CErr (Desc × List CName)
  | 0, _, _, _, _ => .error .recursion
  | fuel + 1, counter, ext, system, prev =>
    if !ext then .ok (counter, prev)
    else match lookup cs system with
      | none => .ok (counter, prev)
      | some e =>
        let counter := { counter with system := e.system }
        let prev := prev ++ [.named system]
        let (ext', system', _) := sysOf counter
        if ext' && prev.contains (.named system') then
          resolveLoop cs fuel counter true "decimal" prev
        else
          resolveLoop cs fuel (merge counter e) ext' system' prev

/-- Fuel for the `extends` loops: every iteration but the first and the forced `decimal` one appends
a name of the table that was not yet in `previous_types`. -/
def loopFuel (cs : Styles) : Nat := 2 * cs.length + 4

/-- `resolve_counter(counter_name, previous_types)`: the resolved dict or `None`, and the caller's
`previous_types` after the call (it is mutated when it is a list; a `None` stays `None`). -/
def resolveCounter (cs : Styles) (name : CName) (prev : Option (List CName)) :
    Except CErr (Option Desc × Option (List CName)) :=
  match name with
  | .str s =>
    .ok (some (anonDesc ⟨false, "cyclic", none⟩ [.str s] (.str "")), prev)
  | .symbols sys args =>
    .ok (some (anonDesc ⟨false, sys, if sys = "fixed" then some 1 else none⟩
      (args.map .str) (.str " ")), prev)
  | .named n =>
    match lookup cs n with
    | none => .ok (none, prev)
    | some d =>
      let run (p : List CName) : Except CErr (Desc × List CName) :=
        let (ext, system, _) := sysOf d
        resolveLoop cs (loopFuel cs) d ext system (p ++ [name])
      match prev with
      | none => do
        let (c, _) ← run []
        pure (some c, none)
      | some p =>
        if p.contains name then .ok (none, prev)
        else do
          let (c, p') ← run p
          pure (some c, some p')

/-- Outcome of the `while extends:` loop of `render_value`. -/
inductive ExtOut where
  | decimal                                                    -- `return self.render_value(value, 'decimal')`
  | go (counter : Desc) (system : String) (fixed : Option Int) (prev : List CName)

/-- The `while extends:` loop of `render_value`. -/
def renderExtLoop (cs : Styles) : Nat → Desc → Bool → String → Option Int → List CName → Except CErr ExtOut
  | 0, _, _, _, _, _ => .error .recursion
  | fuel + 1, counter, ext, system, fixed, prev =>
    if !ext then .ok (.go counter system fixed prev)
    else match lookup cs system with
      | none => .ok .decimal
      | some e =>
        let counter := { counter with system := e.system }
        let (ext', system', fixed') := sysOf counter
        if prev.contains (.named system') then .ok .decimal
        else renderExtLoop cs fuel (merge counter e) ext' system' fixed' (prev ++ [.named system'])

/-- Step 2: is the value inside the range?  (`none` on the Python `ValueError`.) -/
def inRanges (v : Int) : List RangeEntry → Except CErr Bool
  | [] => .ok false
  | .autoKw :: _ => .error .valueError
  | .pair lo hi :: rest => if lo.leInt v && hi.geInt v then .ok true else inRanges v rest

/-- The automatic range of a system. -/
def autoRange (system : String) : Bound × Bound :=
  if system = "alphabetic" || system = "symbolic" then (.fin 1, .posInf)
  else if system = "additive" then (.fin 0, .posInf)
  else (.negInf, .posInf)

def inRange (counter : Desc) (system : String) (v : Int) : Except CErr Bool :=
  match counter.range with
  | none | some .auto =>
    let (lo, hi) := autoRange system
    .ok (lo.leInt v && hi.geInt v)
  | some (.entries l) => inRanges v l

/-- `s * n` for a Python int `n` (empty when `n ≤ 0`). -/
def repeatStr (s : String) (n : Int) : String :=
  String.join (List.replicate n.toNat s)

def symAt (syms : List Sym) (i : Nat) : String :=
  match syms[i]? with
  | some s => s.text
  | none => ""

/-- Alphabetic system loop (bijective base `k`): indices of the symbols, most significant first.
`while value != 0: value -= 1; parts.append(value % k); value //= k`, then reversed. -/
def alphaDigitsAux (k : Nat) : Nat → Nat → List Nat → List Nat
  | 0, _, acc => acc
  | fuel + 1, n, acc =>
    if n = 0 then acc else alphaDigitsAux k fuel ((n - 1) / k) ((n - 1) % k :: acc)

def alphaDigits (k n : Nat) : List Nat := alphaDigitsAux k n n []

/-- Numeric system loop (base `k`), most significant first; `[]` for 0. -/
def numDigitsAux (k : Nat) : Nat → Nat → List Nat → List Nat
  | 0, _, acc => acc
  | fuel + 1, n, acc =>
    if n = 0 then acc else numDigitsAux k fuel (n / k) (n % k :: acc)

def numDigits (k n : Nat) : List Nat := numDigitsAux k n n []

/-- Additive system, non-zero value: the greedy loop.  Returns the parts when the remainder reaches 0
(`initial = ''.join(parts); break`), `none` when the tuples are exhausted first. Zero weights are
skipped. -/
def additiveLoop : List (Nat × Sym) → Nat → List (Nat × Sym) → Option (List (Nat × Sym))
  | [], _, _ => none
  | (w, s) :: rest, remaining, parts =>
    if w = 0 then additiveLoop rest remaining parts
    else
      let reps := remaining / w
      let parts := parts ++ List.replicate reps (w, s)
      let remaining := remaining - w * reps
      if remaining = 0 then some parts else additiveLoop rest remaining parts

/-- Additive system, value 0: `for weight, s in tuples: if weight == 0: initial = symbol(s)`
(the last zero-weight tuple wins). -/
def additiveZero : List (Nat × Sym) → Option String → Option String
  | [], acc => acc
  | (w, s) :: rest, acc => additiveZero rest (if w = 0 then some s.text else acc)

def joinSyms (syms : List Sym) (idx : List Nat) : String :=
  String.join (idx.map (symAt syms))

/-- Outcome of step 3. -/
inductive Step3 where
  | initial (s : String)
  | decimal (v : Int)        -- `return self.render_value(original_value | counter_value, 'decimal')`
  | fallback (v : Int)       -- `return self.render_value(v, counter['fallback'] or 'decimal', previous_types)`
  | err (e : CErr)
  deriving Repr, DecidableEq

/-- Step 3 for the (possibly `abs()`-ed) value `v`; `isNeg` is `counter_value < 0` of the original.
`orig` is `original_value` for the four systems that `abs()` the value (`-counter_value if is_negative else
counter_value` of the additive fallback is the same number); cyclic and fixed never change `counter_value`
and pass it on as it is. -/
def step3 (counter : Desc) (system : String) (fixed : Option Int) (v : Int) (isNeg : Bool) : Step3 :=
  let orig : Int := if isNeg then -v else v
  if system = "cyclic" then
    match counter.symbols with
    | none => .err .typeError
    | some syms =>
      if syms.length < 1 then .decimal v
      else .initial (symAt syms ((v - 1) % (syms.length : Int)).toNat)
  else if system = "fixed" then
    match counter.symbols with
    | none => .err .typeError
    | some syms =>
      if syms.length < 1 then .decimal v
      else match fixed with
        | none => .err .typeError
        | some f =>
          let index := v - f
          if 0 ≤ index && index < (syms.length : Int) then .initial (symAt syms index.toNat)
          else .fallback v
  else if system = "symbolic" then
    match counter.symbols with
    | none => .err .typeError
    | some syms =>
      if syms.length < 1 then .decimal orig
      else
        let index := (v - 1) % (syms.length : Int)
        let rep := (v - 1) / (syms.length : Int) + 1
        .initial (repeatStr (symAt syms index.toNat) rep)
  else if system = "alphabetic" then
    match counter.symbols with
    | none => .err .typeError
    | some syms =>
      if syms.length < 2 then .decimal orig
      else .initial (joinSyms syms (alphaDigits syms.length v.toNat))
  else if system = "numeric" then
    match counter.symbols with
    | none => .err .typeError
    | some syms =>
      if syms.length < 2 then .decimal orig
      else if v = 0 then .initial (symAt syms 0)
      else .initial (joinSyms syms (numDigits syms.length v.natAbs))
  else if system = "additive" then
    match counter.additive with
    | none => .err .typeError
    | some tuples =>
      if v = 0 then
        match additiveZero tuples none with
        | some s => .initial s
        | none => .fallback orig
      else if tuples.length < 1 then .decimal orig
      else match additiveLoop tuples v.toNat [] with
        | some parts => .initial (String.join (parts.map fun p => p.2.text))
        | none => .fallback orig
  else .err .assertion

/-- Does the system use the `negative` descriptor? -/
def usesNegative (system : String) : Bool :=
  system = "symbolic" || system = "alphabetic" || system = "numeric" || system = "additive"

/-- Steps 4 and 5: padding and the negative sign. -/
def padNeg (counter : Desc) (useNeg : Bool) (initial : String) : String :=
  let pad : Nat × Sym := counter.pad.getD (0, .str "")
  let (negPre, negSuf) : Sym × Sym := counter.negative.getD (.str "-", .str "")
  let diff : Int := (pad.1 : Int) - (initial.length : Int)
  let diff := if useNeg then diff - ((negPre.text.length : Int) + (negSuf.text.length : Int)) else diff
  let initial := if diff > 0 then repeatStr pad.2.text diff ++ initial else initial
  if useNeg then negPre.text ++ initial ++ negSuf.text else initial

/-- "Avoid circular fallbacks": `previous_types is not None and system in previous_types`. -/
def isCircular (prev : Option (List CName)) (system : String) : Bool :=
  match prev with
  | none => false
  | some p => p.contains (.named system)

/-- The value step 3 works on: `abs()` for the four systems that use the negative sign. -/
def step3Value (system : String) (value : Int) : Int :=
  if decide (value < 0) && usesNegative system then -value else value

/-- Steps 2–6 of `render_value` once the style is resolved to a non-`extends` system; `recur` is
`self.render_value` (the three recursive calls: fallback on range, decimal on a wrong symbol count,
fallback on an unrepresentable value). -/
def renderTail (recur : Int → CName → Option (List CName) → Except CErr String)
    (value : Int) (counter : Desc) (system : String) (fixed : Option Int) (prev : List CName) :
    Except CErr String :=
  let fallbackName := CName.named (counter.fallback.getD "decimal")
  match inRange counter system value with
  | .error e => .error e
  | .ok false => recur value fallbackName (some prev)
  | .ok true =>
    match step3 counter system fixed (step3Value system value) (decide (value < 0)) with
    | .err e => .error e
    | .decimal v => recur v (.named "decimal") none
    | .fallback v => recur v fallbackName (some prev)
    | .initial s => .ok (padNeg counter (decide (value < 0) && usesNegative system) s)

/-- `render_value(counter_value, counter_name, previous_types=…)`. -/
def renderValue (cs : Styles) : Nat → Int → CName → Option (List CName) → Except CErr String
  | 0, _, _, _ => .error .recursion
  | fuel + 1, value, name, prev =>
    let decimal (v : Int) : Except CErr String := renderValue cs fuel v (.named "decimal") none
    match resolveCounter cs name prev with
    | .error e => .error e
    | .ok (none, _) =>
      if (lookup cs "decimal").isSome then decimal value else .ok ""
    | .ok (some counter, prev) =>
      -- Avoid circular fallbacks
      if isCircular prev (sysOf counter).2.1 then decimal value
      else
        match renderExtLoop cs (loopFuel cs) counter (sysOf counter).1 (sysOf counter).2.1 (sysOf counter).2.2
            ((prev.getD []) ++ [name]) with
        | .error e => .error e
        | .ok .decimal => decimal value
        | .ok (.go counter system fixed prev) => renderTail (renderValue cs fuel) value counter system fixed prev

/-- Which exit a top-level `render_value` call takes (evidence only: branch histogram of the
correspondence inputs). -/
def topBranch (cs : Styles) (value : Int) (name : CName) : String :=
  match resolveCounter cs name none with
  | .error _ => "resolve-error"
  | .ok (none, _) => if (lookup cs "decimal").isSome then "unknown-style->decimal" else "unknown-style->empty"
  | .ok (some counter, _) =>
    match renderExtLoop cs (loopFuel cs) counter (sysOf counter).1 (sysOf counter).2.1 (sysOf counter).2.2 [name] with
    | .error _ => "extends-error"
    | .ok .decimal => "extends-unresolved->decimal"
    | .ok (.go counter system fixed _) =>
      let ext := if (sysOf counter).1 then "extends+" else ""
      match inRange counter system value with
      | .error _ => ext ++ system ++ ":range-ValueError"
      | .ok false => ext ++ system ++ ":out-of-range->fallback"
      | .ok true =>
        match step3 counter system fixed (step3Value system value) (decide (value < 0)) with
        | .err e => ext ++ system ++ ":" ++ e.render
        | .decimal _ => ext ++ system ++ ":too-few-symbols->decimal"
        | .fallback _ => ext ++ system ++ ":unrepresentable->fallback"
        | .initial _ =>
          ext ++ system ++ ":initial" ++ (if decide (value < 0) && usesNegative system then "+negative" else "") ++
            (if counter.pad.isSome then "+pad" else "")

/-- Recursion fuel of a top-level call (see `Props/C15.lean`, `render_fuel_enough`). -/
def topFuel (cs : Styles) : Nat := 2 * cs.length + 8

def renderValueTop (cs : Styles) (value : Int) (name : CName) : Except CErr String :=
  renderValue cs (topFuel cs) value name none

/-- `render_marker(counter_name, counter_value)`. -/
def renderMarker (cs : Styles) (name : CName) (value : Int) : Except CErr String := do
  let (counter?, _) ← resolveCounter cs name none
  match counter? with
  | none =>
    if (lookup cs "decimal").isSome then
      -- `self.render_marker('decimal', counter_value)`: 'decimal' is in the table, one level only
      let (c?, _) ← resolveCounter cs (.named "decimal") none
      match c? with
      | none => pure ""
      | some c =>
        let v ← renderValueTop cs value (.named "decimal")
        pure ((c.pfx.getD (.str "")).text ++ v ++ (c.sfx.getD (.str ". ")).text)
    else pure ""
  | some c =>
    let v ← renderValueTop cs value name
    pure ((c.pfx.getD (.str "")).text ++ v ++ (c.sfx.getD (.str ". ")).text)

end Wp.Counters
