/-
Re-pagination for page-based counters: mirror of the control flow of
  `layout_document` (weasyprint/layout/__init__.py): `for loop in range(max_loops)` with
      `initial_total_pages`, `actual_total_pages`, `reloop_content`, `reloop_pages`, the `break`;
  `make_all_pages` (weasyprint/layout/page.py): the rule deciding whether page `i` is re-made or reused.
Pagination itself (`remake_page` / `make_page`) is abstract: one pass is a function
`step : σ → σ × PassObs` returning what `layout_document` reads after the pass (the number of pages and
the `remake_state` flags of every `page_maker` entry).

No Mathlib, no Std: linked into the compiled driver.
-/
import WpModel.Model.Wire

namespace Wp.Repaginate

/-- `remake_state['content_changed']`, `remake_state['pages_wanted']` of one `page_maker` entry. -/
structure Flags where
  contentChanged : Bool
  pagesWanted : Bool
  deriving Repr, DecidableEq

/-- `make_all_pages`: `if len(pages) == 0 or remake_state['content_changed'] or
remake_state['pages_wanted']:` re-make page `i`, else reuse `pages[i]`. -/
def mustRemake (pagesEmpty : Bool) (f : Flags) : Bool :=
  pagesEmpty || f.contentChanged || f.pagesWanted

/-- What `layout_document` reads after `pages = list(make_all_pages(…))`. -/
structure PassObs where
  pages : Nat
  flags : List Flags
  deriving Repr, DecidableEq

/-- `reloop_content`: some entry has `content_changed`. -/
def reloopContent (o : PassObs) : Bool := o.flags.any (·.contentChanged)

/-- `reloop_pages`: assigned `initial_total_pages != actual_total_pages` for every entry with
`pages_wanted` (so: some entry wants `pages` and the total changed during this pass). -/
def reloopPages (initial : Nat) (o : PassObs) : Bool :=
  o.flags.any (·.pagesWanted) && initial != o.pages

/-- `not (not reloop_content and not reloop_pages)`. -/
def reloop (initial : Nat) (o : PassObs) : Bool := reloopContent o || reloopPages initial o

structure LoopOut (σ : Type) where
  state : σ
  passes : Nat
  converged : Bool                    -- left by `break` (false: `range(max_loops)` exhausted)
  pages : Nat                         -- `actual_total_pages` when the loop is left
  last : Option (Nat × PassObs)       -- `initial_total_pages` and the observation of the last pass

/-- The `for loop in range(max_loops)` of `layout_document`, entered with `actual_total_pages = total`
and `remaining` iterations left. -/
def loopFrom {σ : Type} (step : σ → σ × PassObs) : Nat → Nat → Option (Nat × PassObs) → σ → LoopOut σ
  | 0, total, last, s => ⟨s, 0, false, total, last⟩
  | k + 1, total, _, s =>
    let r := step s
    if reloop total r.2 then
      let out := loopFrom step k r.2.pages (some (total, r.2)) r.1
      { out with passes := out.passes + 1 }
    else ⟨r.1, 1, true, r.2.pages, some (total, r.2)⟩

/-- `layout_document(…, max_loops=8)`: `actual_total_pages = 0` before the first pass. -/
def layoutLoop {σ : Type} (step : σ → σ × PassObs) (maxLoops : Nat := 8) (s : σ) : LoopOut σ :=
  loopFrom step maxLoops 0 none s

/-- Replay of a recorded run: the passes are taken from a list; past its end a pass reports no page
and no flag. -/
def traceStep : List PassObs → List PassObs × PassObs
  | [] => ([], ⟨0, []⟩)
  | o :: rest => (rest, o)

def replayTrace (maxLoops : Nat) (trace : List PassObs) : LoopOut (List PassObs) :=
  layoutLoop traceStep maxLoops trace

end Wp.Repaginate
