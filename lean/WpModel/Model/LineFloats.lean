/-
C09 — "the width left between floats": `get_next_linebox` when `context.excluded_shapes` is not
empty, for a line box holding one text box (ltr): the line box is first given the min-content width
of its first line (`inline_min_content_width(…, first_line=True)`) and the strut height, placed by
`avoid_collisions` (C11's model, imported unchanged), the text is split in the width left there, a
second `avoid_collisions` with the width of the line gives the width `text_align` works in, and the
next line starts under this one.
No Mathlib: linked into the driver.
-/
import WpModel.Model.Floats
import WpModel.Model.InlinePreferred

namespace Wp.LF
open Wp Wp.Py Wp.LB Wp.Floats

/-- the line box as `avoid_collisions` sees it (`outer=False`, no margin) -/
def lineABox (y w h : Rat) : ABox :=
  { px := 0, py := y, mt := 0, mb := 0, ml := 0, mr := 0, bw := w, bh := h, float := .none, clear := .none,
    kind := .line }

/-- used line-height of the strut: 0 when the font size is 0 -/
def strutHeight (p : Para) : Rat := if p.st.fs = 0 then 0 else p.lineHeight

/-- One `get_next_linebox` next to floats (ltr). -/
def nextLine (shapes : List Shape) (p : Para) (skip : Option Nat) (y : Rat) (first : Bool) :
    Except PyErr (Option OutLine) :=
  match skipFirstWhitespace p.st.ws p.text (skip.getD 0) with
  | none => .ok none
  | some index =>
    let cb : CB := { cx := p.cbx, w := p.width, rtl := false }
    let skipStack : Option IR.Skip := if index = 0 then none else some (.mk 0 (some (.mk index none)))
    -- width and height must be calculated to avoid floats
    (if shapes.isEmpty then .ok ((0 : Rat), (0 : Rat))
      else (IP.minContentWidth p.st [.text p.text] p.indent true true false skipStack).map
        fun w => (w, strutHeight p)).bind fun wh =>
    (avoidCollisions shapes (lineABox y wh.1 wh.2) cb false).bind fun place =>
      let indent := if first then p.indent else 0
      let lineX := place.x
      let maxX := (lineX + place.avail) * Gen.LineBreak.fudge
      let posX := lineX + indent
      (splitTextBox p.st p.text (.fin (maxX - posX)) index true).bind fun s =>
        let lineW : Rat := match s.child with
          | some c => posX + c.width - lineX
          | none => 0
        if s.child.isNone && !s.preserved then
          -- phantom line box
          .ok (some { x := lineX, y := place.y, w := 0, h := 0, child := none, resume := s.resume })
        else
          (avoidCollisions shapes (lineABox place.y lineW p.st.fs) cb false).bind fun place2 =>
            let p' := { p with width := place2.avail }
            (match s.child with
             | none => emptyLine p' lineX place.y s
             | some c => textLine p' lineX posX place.y s c).map some

def iterLines (shapes : List Shape) (p : Para) : Nat → Option Nat → Rat → Bool → Option (Except PyErr (List OutLine))
  | 0, _, _, _ => none
  | fuel + 1, skip, y, first =>
    match nextLine shapes p skip y first with
    | .error e => some (.error e)
    | .ok none => some (.ok [])
    | .ok (some line) =>
      match line.resume with
      | none => some (.ok [line])
      | some r => (iterLines shapes p fuel (some r) (line.y + line.h) false).map (·.map (line :: ·))

def paragraph (shapes : List Shape) (p : Para) : Except PyErr (List OutLine) :=
  match iterLines shapes p (p.text.length + 2) none p.y true with
  | some r => r
  | none => .error (.recursion "iter_line_boxes")

end Wp.LF
