/-
Model of the box-model arithmetic of WeasyPrint (C05 clauses (a)–(f)), function by function:

  weasyprint/layout/percent.py   percentage, resolve_one_percentage, resolve_percentages, adjust_box_sizing
  weasyprint/layout/min_max.py   handle_min_max_width, handle_min_max_height        (higher-order wrappers)
  weasyprint/layout/block.py     block_level_width                                   (CSS 2.1 §10.3.3)
  weasyprint/layout/page.py      page_width_or_height (the function wrapped by handle_min_max_height)

Lengths are `Rat`; `'auto'` is `none : Len`.  Only `max-*` (computed `none` = `inf px`) and the reference
of `max-height` against an auto-height containing block (`inf`) can be infinite in the Python code, so
those two positions use `Ext` (a float that may be `inf`, `-inf` or `nan`: `inf * 0` is `nan` in Python
and the code does reach it, see `resolvePercentages`).
Python failure points are explicit (`Except BErr`).  No Mathlib: linked into the driver.
-/
import WpModel.Model.Wire

namespace Wp.BoxModel
open Wp

/-- Python exception classes of the mirrored code (`PyErr` of Wire.lean has no `TypeError`). -/
inductive BErr where
  | assertion (site : String)      -- `assert …`
  | typeError (site : String)      -- `'auto' > 3`, `'auto' + 3`
  | unsupported (site : String)    -- outside the modelled domain (never produced on generated inputs)
  deriving Repr, DecidableEq

def BErr.render : BErr → String
  | .assertion _ => "err:AssertionError"
  | .typeError _ => "err:TypeError"
  | .unsupported s => "unsupported:" ++ s

/-! ## Extended values (Python floats that may be infinite) -/

inductive Ext where
  | fin (q : Rat)
  | inf
  | ninf
  | nan
  deriving Repr, DecidableEq

namespace Ext

/-- `x * v` for a rational `v` (Python float semantics: `inf * 0 = nan`). -/
def mulRat : Ext → Rat → Ext
  | fin a, v => fin (a * v)
  | inf, v => if v > 0 then inf else if v < 0 then ninf else nan
  | ninf, v => if v > 0 then ninf else if v < 0 then inf else nan
  | nan, _ => nan

/-- `x / 100`. -/
def div100 : Ext → Ext
  | fin a => fin (a / 100)
  | x => x

/-- `x - d` for a rational `d`. -/
def subRat : Ext → Rat → Ext
  | fin a, d => fin (a - d)
  | x, _ => x

/-- Python `max(0, x)`: `x` when `x > 0`, else `0` (so `max(0, nan) = 0`). -/
def pyMax0 : Ext → Ext
  | fin a => if a > 0 then fin a else fin 0
  | inf => inf
  | ninf => fin 0
  | nan => fin 0

/-- `w > x` for a rational `w` (comparisons with `nan` are false). -/
def ltRat (x : Ext) (w : Rat) : Bool :=
  match x with
  | fin a => decide (w > a)
  | inf => false
  | ninf => true
  | nan => false

/-- Python `min(h, x)` for a rational `h`: `x` only when `x < h`. -/
def pyMinRat (h : Rat) : Ext → Ext
  | fin a => if a < h then fin a else fin h
  | inf => fin h
  | ninf => ninf
  | nan => fin h

/-- Python `max(x, m)` for a rational `m`: `m` only when `m > x`. -/
def pyMaxRat (x : Ext) (m : Rat) : Ext :=
  match x with
  | fin a => if m > a then fin m else fin a
  | inf => inf
  | ninf => fin m
  | nan => nan

def render : Ext → String
  | fin a => showRat a
  | inf => "inf"
  | ninf => "-inf"
  | nan => "nan"

end Ext

/-! ## `percentage` -/

/-- A computed value as `percentage` sees it: `None`, `'auto'`, or a `Dimension(value, unit)`. -/
inductive Dim where
  | none
  | auto
  | px (v : Ext)
  | pct (v : Rat)
  | unit (u : String)          -- any other unit: the `assert value.unit == '%'` fails
  deriving Repr, DecidableEq

/-- The result of `percentage`: `None`, `'auto'` or a number. -/
inductive UVal where
  | none
  | auto
  | val (x : Ext)
  deriving Repr, DecidableEq

/-- `percent.py` `percentage(value, refer_to)`. -/
def percentage (value : Dim) (referTo : Ext) : Except BErr UVal :=
  match value with
  | .none => .ok .none                                   -- `value is None`
  | .auto => .ok .auto                                   -- `value == 'auto'`
  | .px v => .ok (.val v)                                -- `value.unit == 'px'`
  | .pct v => .ok (.val (referTo.mulRat v).div100)       -- `refer_to * value.value / 100`
  | .unit _ => .error (.assertion "percentage:unit")     -- `assert value.unit == '%'`

/-- Finite computed values (margins, paddings, width, height, min-*): `auto`, `px`, `%`, other unit. -/
inductive DimQ where
  | auto
  | px (v : Rat)
  | pct (v : Rat)
  | unit
  deriving Repr, DecidableEq

/-- `max-*`: `px` may be `inf` (computed value of `none`). -/
inductive DimX where
  | px (v : Ext)
  | pct (v : Rat)
  | unit
  deriving Repr, DecidableEq

def DimQ.toDim : DimQ → Dim
  | .auto => .auto
  | .px v => .px (.fin v)
  | .pct v => .pct v
  | .unit => .unit "other"

def DimX.toDim : DimX → Dim
  | .px v => .px v
  | .pct v => .pct v
  | .unit => .unit "other"

/-- `percentage` on finite values with a finite reference (proved equal to `percentage` in Props/C05). -/
def percentageQ (value : DimQ) (referTo : Rat) : Except BErr Len :=
  match value with
  | .auto => .ok none
  | .px v => .ok (some v)
  | .pct v => .ok (some (referTo * v / 100))
  | .unit => .error (.assertion "percentage:unit")

/-- `percentage` for `max-*` (proved equal to `percentage` in Props/C05). -/
def percentageX (value : DimX) (referTo : Ext) : Except BErr Ext :=
  match value with
  | .px v => .ok v
  | .pct v => .ok (referTo.mulRat v).div100
  | .unit => .error (.assertion "percentage:unit")

/-- `resolve_one_percentage` for `min_width` / `min_height`: `'auto'` becomes `0`. -/
def resolveMin (value : DimQ) (referTo : Rat) : Except BErr Rat := do
  let p ← percentageQ value referTo
  match p with
  | none => pure 0
  | some v => pure v

/-- A length property that is never `auto` (padding); an `auto` here is outside the CSS grammar. -/
def resolvePad (value : DimQ) (referTo : Rat) : Except BErr Rat := do
  let p ← percentageQ value referTo
  match p with
  | none => .error (.unsupported "padding:auto")
  | some v => pure v

/-! ## `adjust_box_sizing` -/

inductive BoxSizing where
  | borderBox
  | paddingBox
  | contentBox
  | other                       -- the `assert box.style['box_sizing'] == 'content-box'` fails
  deriving Repr, DecidableEq

/-- `delta` of `adjust_box_sizing` for one axis: `pa pb` the two paddings, `ba bb` the two borders. -/
def boxSizingDelta (bs : BoxSizing) (pa pb ba bb : Rat) : Except BErr Rat :=
  match bs with
  | .borderBox => .ok (pa + pb + ba + bb)
  | .paddingBox => .ok (pa + pb)
  | .contentBox => .ok 0
  | .other => .error (.assertion "adjust_box_sizing:box_sizing")

/-- `adjust_box_sizing(box, axis)` on the three attributes it touches: `(size, min, max)`. -/
def adjustBoxSizing (bs : BoxSizing) (pa pb ba bb : Rat) (size : Len) (minS : Len) (maxS : Ext) :
    Except BErr (Len × Len × Ext) := do
  let delta ← boxSizingDelta bs pa pb ba bb
  if delta > 0 then
    let size' : Len := match size with
      | none => none
      | some s => some (max 0 (s - delta))
    let maxS' := (maxS.subRat delta).pyMax0
    let minS' : Len := match minS with
      | none => none
      | some m => some (max 0 (m - delta))
    pure (size', minS', maxS')
  else
    pure (size, minS, maxS)

/-! ## `resolve_percentages` -/

/-- Computed style, the part read by `resolve_percentages`. -/
structure Style where
  marginLeft : DimQ
  marginRight : DimQ
  marginTop : DimQ
  marginBottom : DimQ
  paddingLeft : DimQ
  paddingRight : DimQ
  paddingTop : DimQ
  paddingBottom : DimQ
  width : DimQ
  height : DimQ
  minWidth : DimQ
  minHeight : DimQ
  maxWidth : DimX
  maxHeight : DimX
  borderLeft : Rat
  borderRight : Rat
  borderTop : Rat
  borderBottom : Rat
  boxSizing : BoxSizing
  deriving Repr

/-- Used values set by `resolve_percentages`. -/
structure Used where
  marginLeft : Len
  marginRight : Len
  marginTop : Len
  marginBottom : Len
  paddingLeft : Rat
  paddingRight : Rat
  paddingTop : Rat
  paddingBottom : Rat
  width : Len
  height : Len
  minWidth : Rat
  minHeight : Rat
  maxWidth : Ext
  maxHeight : Ext
  borderLeft : Rat
  borderRight : Rat
  borderTop : Rat
  borderBottom : Rat
  deriving Repr, DecidableEq

/-- The `Len`-typed min of `adjust_box_sizing` is never `auto` after `resolve_one_percentage`. -/
def lenToRat (site : String) : Len → Except BErr Rat
  | some v => .ok v
  | none => .error (.unsupported site)

/-- `resolve_percentages(box, containing_block)`; `isPage` = `isinstance(box, boxes.PageBox)`,
`(cbW, cbH)` the containing block's width and height (`cbH` may be `'auto'`).
(`border_collapse` is `separate`: the collapsed-border special case belongs to tables, C10.) -/
def resolvePercentages (isPage : Bool) (s : Style) (cbW : Rat) (cbH : Len) : Except BErr Used := do
  -- maybe_height: PageBox → cb_height, else cb_width
  let maybeHeight ← (if isPage then
      match cbH with
      | some h => pure h
      | none => .error (.typeError "resolve_percentages:auto*value")  -- `'auto' * v`: only if a % is met
    else pure cbW : Except BErr Rat)
  let marginLeft ← percentageQ s.marginLeft cbW
  let marginRight ← percentageQ s.marginRight cbW
  let marginTop ← percentageQ s.marginTop maybeHeight
  let marginBottom ← percentageQ s.marginBottom maybeHeight
  let paddingLeft ← resolvePad s.paddingLeft cbW
  let paddingRight ← resolvePad s.paddingRight cbW
  let paddingTop ← resolvePad s.paddingTop maybeHeight
  let paddingBottom ← resolvePad s.paddingBottom maybeHeight
  let width ← percentageQ s.width cbW
  let minWidth ← resolveMin s.minWidth cbW
  let maxWidth ← percentageX s.maxWidth (.fin cbW)
  let (height, minHeight, maxHeight) ← (match cbH with
    | none => do
      -- Special handling when the height of the containing block depends on its content.
      let height ← (match s.height with
        | .auto => pure none
        | .pct _ => pure none
        | .px v => pure (some v)
        | .unit => .error (.assertion "resolve_percentages:height.unit") : Except BErr Len)
      let minHeight ← resolveMin s.minHeight 0
      let maxHeight ← percentageX s.maxHeight .inf
      pure (height, minHeight, maxHeight)
    | some h => do
      let height ← percentageQ s.height h
      let minHeight ← resolveMin s.minHeight h
      let maxHeight ← percentageX s.maxHeight (.fin h)
      pure (height, minHeight, maxHeight) : Except BErr (Len × Rat × Ext))
  -- adjust_box_sizing(box, 'width'); adjust_box_sizing(box, 'height')
  let (width, minW, maxWidth) ←
    adjustBoxSizing s.boxSizing paddingLeft paddingRight s.borderLeft s.borderRight width (some minWidth) maxWidth
  let minWidth ← lenToRat "min_width" minW
  let (height, minH, maxHeight) ←
    adjustBoxSizing s.boxSizing paddingTop paddingBottom s.borderTop s.borderBottom height (some minHeight) maxHeight
  let minHeight ← lenToRat "min_height" minH
  pure { marginLeft, marginRight, marginTop, marginBottom, paddingLeft, paddingRight, paddingTop,
         paddingBottom, width, height, minWidth, minHeight, maxWidth, maxHeight,
         borderLeft := s.borderLeft, borderRight := s.borderRight, borderTop := s.borderTop,
         borderBottom := s.borderBottom }

/-- The `border_collapse` special case of `resolve_percentages`: with `border-collapse: collapse` a
`border_*_width` already set on the box by the border conflict resolution (tables) is kept, else the
computed style value is used:
`if not (collapse and hasattr(box, prop)): setattr(box, prop, box.style[prop])`. -/
def effectiveBorder (collapse : Bool) (preset : Option Rat) (styleWidth : Rat) : Rat :=
  match collapse, preset with
  | true, some w => w
  | _, _ => styleWidth

/-- `resolve_percentages` with the four optional pre-set border widths (top, right, bottom, left as in the
Python loop). -/
def resolvePercentagesCollapse (isPage collapse : Bool) (presetTop presetRight presetBottom presetLeft : Option Rat)
    (s : Style) (cbW : Rat) (cbH : Len) : Except BErr Used :=
  resolvePercentages isPage
    { s with borderTop := effectiveBorder collapse presetTop s.borderTop,
             borderRight := effectiveBorder collapse presetRight s.borderRight,
             borderBottom := effectiveBorder collapse presetBottom s.borderBottom,
             borderLeft := effectiveBorder collapse presetLeft s.borderLeft } cbW cbH

/-- `resolve_position_percentages(box, (cb_width, cb_height))`: `left`, `right` against the width, `top`,
`bottom` against the height. -/
def resolvePosition (left right top bottom : DimQ) (cbW cbH : Rat) : Except BErr (Len × Len × Len × Len) := do
  let l ← percentageQ left cbW
  let r ← percentageQ right cbW
  let t ← percentageQ top cbH
  let b ← percentageQ bottom cbH
  pure (l, r, t, b)

/-- One corner of `resolve_radii_percentages(box)`: `(0px, _)` or `(_, 0px)` is `(0, 0)`; a corner on a
side whose decoration was removed (fragmentation) is `(0, 0)`; else the horizontal radius is resolved
against the border-box width and the vertical one against the border-box height. -/
def resolveRadius (rx ry : DimQ) (sideRemoved : Bool) (borderW borderH : Rat) : Except BErr (Rat × Rat) :=
  if rx = .px 0 || ry = .px 0 then .ok (0, 0)
  else if sideRemoved then .ok (0, 0)
  else do
    let x ← percentageQ rx borderW
    let y ← percentageQ ry borderH
    match x, y with
    | some x, some y => pure (x, y)
    | _, _ => .error (.unsupported "radius:auto")

/-! ## `block_level_width` -/

inductive Dir where
  | ltr
  | rtl
  deriving Repr, DecidableEq

/-- The `containing_block` argument: a box (width and `style['direction']`) or a `(width, height)` tuple
(then the code takes `'ltr'`). -/
inductive CB where
  | box (w : Rat) (dir : Dir)
  | tuple (w : Rat)
  deriving Repr

def CB.width : CB → Rat
  | .box w _ => w
  | .tuple w => w

def CB.direction : CB → Dir
  | .box _ d => d
  | .tuple _ => .ltr

/-- The attributes of a box read and written along one axis by `block_level_width`,
`page_width_or_height` and the min/max wrappers.  Horizontal names; the height wrapper reads them as
`margin_top, margin_bottom, …, height, min_height, max_height`. -/
structure ABox where
  ml : Len
  mr : Len
  pl : Rat
  pr : Rat
  bl : Rat
  br : Rat
  w : Len
  minW : Rat
  maxW : Ext
  posX : Rat
  isColumn : Bool
  deriving Repr, DecidableEq

/-- `m` if the margin is specified, else 0 (`if margin == 'auto': margin = 0`). -/
def orZero : Len → Rat
  | some m => m
  | none => 0

/-- `paddings_plus_borders`. -/
def ABox.pb (b : ABox) : Rat := b.pl + b.pr + b.bl + b.br

/-- The specified part of the left side of the width equation for a width `w`: paddings, borders, `w`
and the non-auto margins (`total` of `block_level_width`). -/
def ABox.specTotal (b : ABox) (w : Rat) : Rat := b.pb + w + orZero b.ml + orZero b.mr

/-- Body of `block_level_width` once `cb_width` and `direction` have been read from the containing
block, line for line. -/
def blwCore (cbWidth : Rat) (direction : Dir) (box : ABox) : ABox :=
  let paddingsPlusBorders := box.pl + box.pr + box.bl + box.br
  -- if box.width != 'auto': … if total > cb_width: auto margins become 0
  let box : ABox :=
    match box.w with
    | some width =>
      let total := paddingsPlusBorders + width
      let total := match box.ml with | some m => total + m | none => total
      let total := match box.mr with | some m => total + m | none => total
      if total > cbWidth then
        { box with ml := some (match box.ml with | some m => m | none => 0),
                   mr := some (match box.mr with | some m => m | none => 0) }
      else box
    | none => box
  -- if width != 'auto' and margin_l != 'auto' and margin_r != 'auto': over-constrained
  let box : ABox :=
    match box.w, box.ml, box.mr with
    | some width, some marginL, some marginR =>
      if direction = .rtl && !box.isColumn then
        { box with posX := box.posX + (cbWidth - paddingsPlusBorders - width - marginR - marginL) }
      else box                                            -- Do nothing in ltr.
    | _, _, _ => box
  -- if width == 'auto': auto margins become 0, width takes the rest
  let box : ABox :=
    match box.w with
    | none =>
      let marginL := match box.ml with | some m => m | none => 0
      let marginR := match box.mr with | some m => m | none => 0
      { box with ml := some marginL, mr := some marginR,
                 w := some (cbWidth - (paddingsPlusBorders + marginL + marginR)) }
    | some _ => box
  match box.w with
  | none => box                                           -- unreachable: width was just set
  | some width =>
    let marginSum := cbWidth - paddingsPlusBorders - width
    match box.ml, box.mr with
    | none, none => { box with ml := some (marginSum / 2), mr := some (marginSum / 2) }
    | none, some marginR => { box with ml := some (marginSum - marginR) }
    | some marginL, none => { box with mr := some (marginSum - marginL) }
    | some _, some _ => box

/-- `block.py` `block_level_width.without_min_max(box, containing_block)`: `cb_width` and `direction`
come from the containing block (a tuple means `'ltr'`). -/
def blockLevelWidth (cb : CB) (box : ABox) : ABox :=
  blwCore cb.width cb.direction box

/-! ## `page_width_or_height` -/

/-- `page.py` `page_width_or_height(box, containing_block_size)` on an `OrientedBox`
(`inner = w`, `margin_a = ml`, `margin_b = mr`). -/
def pageWidthOrHeight (cbSize : Rat) (box : ABox) : ABox :=
  let remaining := cbSize - (box.pl + box.pr + box.bl + box.br)
  match box.w with
  | none =>
    let a := box.ml.getD 0
    let b := box.mr.getD 0
    { box with ml := some a, mr := some b, w := some (remaining - a - b) }
  | some inner =>
    match box.ml, box.mr with
    | none, none => { box with ml := some ((remaining - inner) / 2), mr := some ((remaining - inner) / 2) }
    | none, some b => { box with ml := some (remaining - inner - b) }
    | some a, none => { box with mr := some (remaining - inner - a) }
    | some _, some _ => box

/-! ## `handle_min_max_width` / `handle_min_max_height` -/

/-- `box.width` read where Python needs a number (`'auto' > 3` is a `TypeError`). -/
def widthOf (box : ABox) : Except BErr Rat :=
  match box.w with
  | some w => .ok w
  | none => .error (.typeError "min_max:auto-width")

/-- `box.width = box.max_width` (only reached when `box.width > box.max_width`, so never `inf`/`nan`). -/
def extAsLen (x : Ext) : Except BErr Len :=
  match x with
  | .fin q => .ok (some q)
  | _ => .error (.unsupported "min_max:non-finite-max")

/-- `min_max.py` `handle_min_max_width(function)`: the wrapper, for an arbitrary wrapped `function`.
`position_x = getattr(box, 'position_x', None)` is read before the first pass and written back before each
further pass (`if position_x is not None: box.position_x = position_x`): the wrapped function may shift the
box (`block_level_width` in an rtl containing block) and must not shift it twice.  (`ABox.posX` is always
a number; a box that has no `position_x` attribute yet is `handleMinMaxWidthNoX`.) -/
def handleMinMaxWidth (function : ABox → Except BErr ABox) (box : ABox) : Except BErr ABox := do
  let computedMargins := (box.ml, box.mr)
  let positionX := box.posX
  let box ← function box
  let width ← widthOf box
  let box ← (if box.maxW.ltRat width then do          -- if box.width > box.max_width
      let w ← extAsLen box.maxW
      function { box with w := w, ml := computedMargins.1, mr := computedMargins.2, posX := positionX }
    else pure box)
  let width ← widthOf box
  let box ← (if width < box.minW then                 -- if box.width < box.min_width
      function { box with w := some box.minW, ml := computedMargins.1, mr := computedMargins.2,
                          posX := positionX }
    else pure box)
  pure box

/-- `handle_min_max_width` on a box that has no `position_x` attribute (`getattr(box, 'position_x', None)`
is `None`): nothing is written back, `posX` stands for whatever the wrapped function keeps there. -/
def handleMinMaxWidthNoX (function : ABox → Except BErr ABox) (box : ABox) : Except BErr ABox := do
  let computedMargins := (box.ml, box.mr)
  let box ← function box
  let width ← widthOf box
  let box ← (if box.maxW.ltRat width then do          -- if box.width > box.max_width
      let w ← extAsLen box.maxW
      function { box with w := w, ml := computedMargins.1, mr := computedMargins.2 }
    else pure box)
  let width ← widthOf box
  let box ← (if width < box.minW then                 -- if box.width < box.min_width
      function { box with w := some box.minW, ml := computedMargins.1, mr := computedMargins.2 }
    else pure box)
  pure box

/-- `min_max.py` `handle_min_max_height(function)` (the text of the width wrapper with height / top /
bottom, without the `position_x` bookkeeping; fields of `ABox` are read as the vertical ones). -/
def handleMinMaxHeight (function : ABox → Except BErr ABox) (box : ABox) : Except BErr ABox := do
  let computedMargins := (box.ml, box.mr)
  let box ← function box
  let height ← widthOf box
  let box ← (if box.maxW.ltRat height then do         -- if box.height > box.max_height
      let h ← extAsLen box.maxW
      function { box with w := h, ml := computedMargins.1, mr := computedMargins.2 }
    else pure box)
  let height ← widthOf box
  let box ← (if height < box.minW then                -- if box.height < box.min_height
      function { box with w := some box.minW, ml := computedMargins.1, mr := computedMargins.2 }
    else pure box)
  pure box

/-- `block_level_width` as decorated in block.py. -/
def blockLevelWidthMinMax (cb : CB) (box : ABox) : Except BErr ABox :=
  handleMinMaxWidth (fun b => .ok (blockLevelWidth cb b)) box

/-- `page_width(box, context, containing_block_width)` as decorated in page.py. -/
def pageWidth (cbW : Rat) (box : ABox) : Except BErr ABox :=
  handleMinMaxWidth (fun b => .ok (pageWidthOrHeight cbW b)) box

/-- `page_height(box, context, containing_block_height)` as decorated in page.py. -/
def pageHeight (cbH : Rat) (box : ABox) : Except BErr ABox :=
  handleMinMaxHeight (fun b => .ok (pageWidthOrHeight cbH b)) box

/-- `block_container_layout`: `new_box.height = max(min(new_box.height, new_box.max_height),
new_box.min_height)` (Python `min`/`max` argument order, `nan` included). -/
def clampHeight (h : Rat) (minH : Rat) (maxH : Ext) : Ext :=
  (Ext.pyMinRat h maxH).pyMaxRat minH

end Wp.BoxModel
