/-
Wire format shared by the driver and the Python harnesses: one S-expression per line.
  atom  ::= any run of characters other than space, '(' and ')'
  list  ::= '(' sx* ')'
A line is parsed as the list of its top-level S-expressions.  Rationals are written `n` or `n/d`
(`-3/4`), 'auto' is the atom `auto`, infinities `inf` / `-inf`.
No Mathlib, no Std: this file is linked into the compiled driver.
-/

namespace Wp

inductive Sx where
  | atom (s : String)
  | list (xs : List Sx)
  deriving Repr, Inhabited, BEq

namespace Sx

/-- Tokens: "(" , ")" or an atom. -/
def tokenize (s : String) : List String :=
  let rec go (cs : List Char) (cur : List Char) (acc : List String) : List String :=
    match cs with
    | [] => (if cur.isEmpty then acc else String.ofList cur.reverse :: acc).reverse
    | c :: rest =>
      if c = '(' || c = ')' then
        let acc := if cur.isEmpty then acc else String.ofList cur.reverse :: acc
        go rest [] (String.singleton c :: acc)
      else if c = ' ' || c = '\n' || c = '\t' || c = '\r' then
        let acc := if cur.isEmpty then acc else String.ofList cur.reverse :: acc
        go rest [] acc
      else go rest (c :: cur) acc
  go s.toList [] []

/-- Parse a token list into a list of S-expressions, using an explicit stack (total, no fuel). -/
def parseToks (toks : List String) : Option (List Sx) :=
  let rec go (ts : List String) (stack : List (List Sx)) (cur : List Sx) : Option (List Sx) :=
    match ts with
    | [] => if stack.isEmpty then some cur.reverse else none
    | t :: rest =>
      if t = "(" then go rest (cur :: stack) []
      else if t = ")" then
        match stack with
        | [] => none
        | top :: stack' => go rest stack' (Sx.list cur.reverse :: top)
      else go rest stack (Sx.atom t :: cur)
  go toks [] []

def parseLine (s : String) : Option (List Sx) := parseToks (tokenize s)

partial def render : Sx → String
  | atom s => s
  | list xs => "(" ++ " ".intercalate (xs.map render) ++ ")"

def atom? : Sx → Option String
  | atom s => some s
  | _ => none

def list? : Sx → Option (List Sx)
  | list xs => some xs
  | _ => none

def nat? (x : Sx) : Option Nat := x.atom?.bind String.toNat?
def int? (x : Sx) : Option Int := x.atom?.bind String.toInt?

def bool? (x : Sx) : Option Bool :=
  match x with
  | atom "true" => some true
  | atom "false" => some false
  | atom "1" => some true
  | atom "0" => some false
  | _ => none

end Sx

/-- Parse `n`, `-n`, `n/d`. -/
def parseRat (s : String) : Option Rat :=
  match s.splitOn "/" with
  | [n] => n.toInt?.map (fun i => (i : Rat))
  | [n, d] =>
    match n.toInt?, d.toNat? with
    | some i, some k => if k = 0 then none else some (mkRat i k)
    | _, _ => none
  | _ => none

def showRat (q : Rat) : String :=
  if q.den = 1 then toString q.num else toString q.num ++ "/" ++ toString q.den

def Sx.rat? (x : Sx) : Option Rat := x.atom?.bind parseRat

/-- `'auto'` is `none`. -/
abbrev Len := Option Rat

def Sx.len? (x : Sx) : Option Len :=
  match x with
  | .atom "auto" => some none
  | .atom s => (parseRat s).map some
  | _ => none

def showLen : Len → String
  | none => "auto"
  | some q => showRat q

def sxRat (q : Rat) : Sx := .atom (showRat q)
def sxLen (l : Len) : Sx := .atom (showLen l)
def sxNat (n : Nat) : Sx := .atom (toString n)
def sxInt (n : Int) : Sx := .atom (toString n)
def sxBool (b : Bool) : Sx := .atom (if b then "true" else "false")
def sxStr (s : String) : Sx := .atom s

/-- All-or-nothing map. -/
def allSome {α β} (f : α → Option β) : List α → Option (List β)
  | [] => some []
  | x :: xs => match f x, allSome f xs with
    | some y, some ys => some (y :: ys)
    | _, _ => none

/-- Python failure points mirrored by the models. -/
inductive PyErr where
  | assertFailed (site : String)
  | zeroDivision (site : String)
  | indexError (site : String)
  | noneAttribute (site : String)
  | recursion (site : String)
  | valueError (site : String)
  deriving Repr, BEq, DecidableEq

def PyErr.render : PyErr → String
  | .assertFailed s => "err:AssertionError@" ++ s
  | .zeroDivision s => "err:ZeroDivisionError@" ++ s
  | .indexError s => "err:IndexError@" ++ s
  | .noneAttribute s => "err:AttributeError@" ++ s
  | .recursion s => "err:RecursionError@" ++ s
  | .valueError s => "err:ValueError@" ++ s

end Wp
