/-
Where the break values and page names of a table are read (C04): from the elements as the author wrote
them to the box tree that `block_level_page_break` / `block_level_page_name` walk.

  * `wrap_table` (weasyprint/formatting_structure/build.py): the children of a table element are sorted into
    captions (top / bottom by `caption-side`) and row groups (consecutive bare rows wrapped in an anonymous
    group; the first `table-header-group` becomes the header and goes first, the first `table-footer-group`
    becomes the footer and goes last, the others stay in place); the table box is wrapped in an anonymous
    block whose children are `top captions + [table] + bottom captions`; every property of
    `TABLE_WRAPPER_BOX_PROPERTIES` (weasyprint/css/properties.py) - `break_before` and `break_after` among
    them, `break_inside` not - is *moved* to the wrapper, the table box gets the initial value (`auto`).
    css-break-3 / CSS 2.1 17.4: the break-before / break-after of a table element apply to the table wrapper
    box, i.e. to the whole table *with its captions*.
  * `block_level_page_break` then descends wrapper -> first / last child (`Model/Break.lean`).
  * `Box.page_values` / `ParentBox.page_values` / `TableBox.page_values` (formatting_structure/boxes.py) and
    `block_level_page_name` (layout/block.py): start / end page names, descending the first / last in-flow
    children, stopping at a table box.

No Mathlib: linked into `driver_c04`.
-/
import WpModel.Model.Break
import WpModel.Model.Paginate

namespace Wp.TableBreaks
open Wp

/-- A row of a table element: its break values (cells are not block-parallel: the descent stops). -/
structure RowE where
  before : Brk
  after : Brk
  deriving Repr, Inhabited, DecidableEq

inductive GroupKind where
  | header | body | footer
  deriving Repr, Inhabited, DecidableEq

/-- A child of a table element, in document order. -/
inductive PartE where
  | caption (top : Bool) (before after : Brk)
  | group (kind : GroupKind) (before after : Brk) (rows : List RowE)
  | row (r : RowE)                                   -- a row directly in the table
  deriving Repr, Inhabited

structure TableE where
  before : Brk
  after : Brk
  parts : List PartE
  deriving Repr, Inhabited

/-- A cell / a line box: not block-parallel, ends every descent. -/
def leaf : BBox := .mk false .auto .auto []

def rowBox (r : RowE) : BBox := .mk true r.before r.after [leaf]

/-- A row group of the box tree before it is sorted: kind, box. -/
structure GroupB where
  kind : GroupKind
  box : BBox
  deriving Inhabited

def groupBox (before after : Brk) (rows : List RowE) : BBox := .mk true before after (rows.map rowBox)

/-- `wrap_improper(box, rows, TableRowGroupBox)`: consecutive bare rows are wrapped in one anonymous row group
(break values initial); `pending` = the bare rows collected so far, in reverse order. -/
def wrapRows : List PartE → List RowE → List GroupB
  | [], pending => if pending.isEmpty then [] else [⟨.body, groupBox .auto .auto pending.reverse⟩]
  | .caption _ _ _ :: rest, pending => wrapRows rest pending
  | .row r :: rest, pending => wrapRows rest (r :: pending)
  | .group k b a rows :: rest, pending =>
    (if pending.isEmpty then [] else [⟨.body, groupBox .auto .auto pending.reverse⟩]) ++
      ⟨k, groupBox b a rows⟩ :: wrapRows rest []

/-- The first group of a kind, and the list without it (`header is None` / `footer is None` tests). -/
def extractFirst (k : GroupKind) : List GroupB → Option GroupB × List GroupB
  | [] => (none, [])
  | g :: rest =>
    if g.kind = k then (some g, rest)
    else let (found, others) := extractFirst k rest; (found, g :: others)

/-- `[header] + body_row_groups + [footer]`. -/
def sortGroups (gs : List GroupB) : List BBox :=
  let (header, rest) := extractFirst .header gs
  let (footer, body) := extractFirst .footer rest
  (match header with | some h => [h.box] | none => []) ++ body.map (·.box) ++
    (match footer with | some f => [f.box] | none => [])

def captionBoxes (top : Bool) : List PartE → List BBox
  | [] => []
  | .caption t b a :: rest => (if t = top then [BBox.mk true b a [leaf]] else []) ++ captionBoxes top rest
  | _ :: rest => captionBoxes top rest

/-- The table box inside the wrapper: break-before / break-after moved away (initial value). -/
def tableBox (t : TableE) : BBox := .mk true .auto .auto (sortGroups (wrapRows t.parts []))

/-- `wrap_table`: the anonymous wrapper carries the table element's break-before / break-after. -/
def wrapTable (t : TableE) : BBox :=
  .mk true t.before t.after (captionBoxes true t.parts ++ [tableBox t] ++ captionBoxes false t.parts)

/-- An element of the flow: a block with children, a paragraph (a block holding line boxes), a table. -/
inductive Elem where
  | block (before after : Brk) (kids : List Elem)
  | para (before after : Brk)
  | table (t : TableE)
  deriving Inhabited

mutual
def toBox : Elem → BBox
  | .block b a kids => .mk true b a (toBoxes kids)
  | .para b a => .mk true b a [leaf]
  | .table t => wrapTable t
def toBoxes : List Elem → List BBox
  | [] => []
  | e :: rest => toBox e :: toBoxes rest
end

/-- The value `block_level_page_break` returns between two sibling elements. -/
def breakBetween (a b : Elem) : Brk := pageBreakBetween (toBox a) (toBox b)

/-- `block_level_page_break` between every pair of adjacent boxes of a list. -/
def adjacent : List BBox → List Brk
  | a :: b :: rest => pageBreakBetween a b :: adjacent (b :: rest)
  | _ => []

def kidsOf : BBox → List BBox
  | .mk _ _ _ ks => ks

/-- Everything the layout of a table asks of `block_level_page_break`: between the children of the wrapper
(captions and the table), between the row groups, between the rows of each group. -/
def insideTable (t : TableE) : List Brk :=
  let w := wrapTable t
  let groups := kidsOf (tableBox t)
  adjacent (kidsOf w) ++ adjacent groups ++ (groups.map (fun g => adjacent (kidsOf g))).flatten

/-! ### page names -/

/-- What `page_values` reads: the class stops the descent at a table box; `page` is the computed `page`
(`""` = the falsy value); children in normal flow only. -/
inductive PBox where
  | mk (isTable : Bool) (inFlow : Bool) (page : String) (kids : List PBox)
  deriving Repr, Inhabited

def orElse (a b : String) : String := if a.isEmpty then b else a

mutual
/-- `(start, end)` of `box.page_values()`. -/
def pageValues : PBox → String × String
  | .mk isTable _ page kids =>
    if isTable then (page, page)
    else match firstLast kids with
      | none => (page, page)
      | some (s, e) => (orElse s page, orElse e page)
/-- `(children[0].page_values()[0], children[-1].page_values()[1])` over the in-flow children. -/
def firstLast : List PBox → Option (String × String)
  | [] => none
  | .mk t fl p ks :: rest =>
    if fl then
      match firstLast rest with
      | none => some (pageValues (.mk t fl p ks))
      | some (_, e) => some ((pageValues (.mk t fl p ks)).1, e)
    else firstLast rest
end

/-- `block_level_page_name(sibling_before, sibling_after)`; `none` = Python's `None`. -/
def pageNameBetween (a b : PBox) : Option String :=
  let before := (pageValues a).2
  let after := (pageValues b).1
  if before ≠ after then some after else none

/-! ### observations on a rendered document -/

/-- Where the words of [previous sibling] [table: top captions, grid, bottom captions] [next sibling] were
rendered (`roomy`: the page is tall enough for the whole document, only forced breaks make pages). -/
structure TableObs where
  ltr : Bool
  roomy : Bool
  prevLast : Nat          -- page of the last fragment of the sibling before the table
  tableFirst : Nat        -- first page with a word of the table (captions included)
  tableFirstRight : Bool
  tableLast : Nat
  nextFirst : Nat
  nextFirstRight : Bool
  topCapLast : Option Nat  -- last page with a word of a top caption
  gridFirst : Option Nat   -- first page with a word of a row
  prevIsFirst : Bool      -- the previous sibling is the first content of its page
  tableIsFirst : Bool     -- the table is the first content of the page of its last fragment
  deriving Repr, Inhabited

/-- One boundary: a forced value separates and gives the side; on a roomy page with no forced break inside the
table (`quiet`; a forced break before an empty trailing group legitimately sends the rest of the table - no word -
and the next sibling to a new page) nothing else separates; an avoiding value keeps together unless the unit
before is the first content of its page. -/
def boundaryOk (ltr roomy : Bool) (values : List Brk) (pageA pageB : Nat) (rightB aFirst : Bool) : Bool :=
  let r := resolve values
  if forces false r then
    decide (pageA < pageB) &&
      (match PM.requestedSide ltr (some r) with
       | some side => rightB == side
       | none => true)
  else if roomy then pageA == pageB
  else if avoids false r then pageA == pageB || aFirst
  else true

/-- The three boundaries of a table: before it, after it, between its top captions and its grid. Returns the
indices (0, 1, 2) of the boundaries that are wrong. -/
def tableObsBad (prev : Elem) (t : TableE) (next : Elem) (o : TableObs) : List Nat :=
  let w := wrapTable t
  let quiet := (insideTable t).all (fun v => !forces false v)
  let roomy := o.roomy && quiet
  let b0 := boundaryOk o.ltr roomy (meetingValues (toBox prev) w) o.prevLast o.tableFirst o.tableFirstRight
    o.prevIsFirst
  let b1 := boundaryOk o.ltr roomy (meetingValues w (toBox next)) o.tableLast o.nextFirst o.nextFirstRight
    o.tableIsFirst
  let b2 := match (captionBoxes true t.parts).getLast?, o.topCapLast, o.gridFirst with
    | some cap, some pa, some pb =>
      -- inside the wrapper: separated when a forced value meets there (the side is judged at `b0`)
      if forces false (resolve (meetingValues cap (tableBox t))) then decide (pa < pb)
      else if roomy then pa == pb else true
    | _, _, _ => true
  (if b0 then [] else [0]) ++ (if b1 then [] else [1]) ++ (if b2 then [] else [2])

end Wp.TableBreaks
