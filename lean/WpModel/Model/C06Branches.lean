/-
Instrumentation only (no theorem uses it): which branch of the mirrored Python code a model input
takes, so that the harness can report the branch histogram of a run and the branches never hit.
The classifiers repeat the tests of `Style.specified123/4`, `Computed.length`, `Computed.fontSize`,
`Computed.display` and `Cascade.pageTypeMatch` in the same order.
-/
import WpModel.Model.Style

namespace Wp.C06Branches
open Wp Wp.Cascade Wp.Computed Wp.Style Wp.Gen.Units

/-- Branch of `ComputedStyle.__missing__` before the computing function:
`<source>/<step3>/<step4>/<exit>`. -/
def specifiedBranch (e : Elem) (parent : ParentGet) (key : String) : String :=
  let casc := lookup key e.cascaded
  let source := match casc with
    | some (.val _) => "cascaded"
    | some (.pending (some _)) => "pending-solved"
    | some (.pending none) =>
      if isInherited key && parent.isSome then "pending-invalid-inherits" else "pending-invalid-initial"
    | none => if isInherited key || isCustom key then "absent-inherited" else "absent-not-inherited"
  match specified123 e parent key with
  | .error _ => source ++ "/raises-in-steps-1-3"
  | .ok (v3, st3) =>
    let value2IsInitial := match casc with
      | some (.val v) => v.isKw "initial" || (v.isKw "inherit" && parent.isNone)
      | some (.pending (some v)) => v.isKw "initial" || (v.isKw "inherit" && parent.isNone)
      | some (.pending none) => false
      | none => !(isInherited key || isCustom key) || parent.isNone
    let value2IsInherit := match casc with
      | some (.val v) => v.isKw "inherit" && parent.isSome
      | some (.pending (some v)) => v.isKw "inherit" && parent.isSome
      | some (.pending none) => false
      | none => (isInherited key || isCustom key) && parent.isSome
    let step3 := if value2IsInitial then (if isCustom key then "initial-custom" else
        if initialNotComputed.contains key then "initial-not-computed" else "initial-stored")
      else if value2IsInherit then "inherit-stored" else "value"
    let step4 := if isTextDecoration key && parent.isSome then "text-decoration"
      else if key == "page" && v3.isKw "auto" then (if parent.isNone then "page-auto-root" else "page-auto-parent")
      else if key == "position" || key == "float" || key == "display" then "specified-saved"
      else "plain"
    match specified4 e parent key v3 st3 with
    | .error _ => source ++ "/" ++ step3 ++ "/" ++ step4 ++ "/raises-in-step-4" ++
        (if st3.isSome then "-after-store" else "")
    | .ok (_, true) => source ++ "/" ++ step3 ++ "/" ++ step4 ++ "/return-stored"
    | .ok (_, false) =>
      source ++ "/" ++ step3 ++ "/" ++ step4 ++ "/" ++
        (match lookup key computerFunctions with | some f => "compute:" ++ f | none => "no-computer")

/-- Branch of `computed_values.length`. -/
def lengthBranch (value : Val) (fontSize : Option Rat) (pixelsOnly : Bool) : String :=
  let po := if pixelsOnly then "/pixels-only" else "/dimension"
  match value with
  | .kw s => if s == "auto" || s == "content" || s == "from-font" then "keyword-passthrough" else "keyword-attribute-error"
  | .dim q unit =>
    if q == 0 then "zero" ++ po
    else if unit == "px" then "px" ++ po
    else match lookup unit lengthsToPixels with
      | some _ => "absolute:" ++ unit ++ po
      | none =>
        if unit == "em" || unit == "ex" || unit == "ch" || unit == "rem" then
          unit ++ (if fontSize.isSome then "/given-font-size" else "/own-font-size") ++ po
        else "other-unit-passthrough"
  | _ => "not-a-dimension-attribute-error"

/-- Branch of `computed_values.font_size`. -/
def fontSizeBranch (parentSize : Option Rat) (value : Val) : String :=
  let root := if parentSize.isNone then "/root" else "/child"
  match value with
  | .kw s =>
    if (lookup s fontSizeKeywords).isSome then "keyword"
    else if s == "larger" then
      (match firstAbove (parentSize.getD initialFontSize) keywordSizes with
        | some _ => "larger-next-keyword" | none => "larger-times-1.2") ++ root
    else if s == "smaller" then
      (match firstBelowRev (parentSize.getD initialFontSize) keywordSizes with
        | some _ => "smaller-previous-keyword" | none => "smaller-times-0.8") ++ root
    else "attribute-error"
  | .dim _ unit => (if unit == "%" then "percent" else "length:" ++ unit) ++ root
  | _ => "attribute-error"

/-- Branch of `StyleFor._page_type_match`. -/
def pageMatchBranch (sel : PageSelector) (page : PageType) : String :=
  if mismatch sel.side page.side then "side-mismatch"
  else if mismatch sel.blank page.blank then "blank-mismatch"
  else if mismatch sel.first (page.index == 0) then "first-mismatch"
  else if mismatch sel.name page.name then "name-mismatch"
  else match sel.index with
    | none => "no-index-match"
    | some (a, b, none) =>
      (if a == 0 then "nth-a0" else if a > 0 then "nth-a-positive" else "nth-a-negative") ++
        (if nthTest a (page.index + 1 - b) then "-match" else "-no-match")
    | some (a, b, some name) =>
      if name != page.name then "nth-of-other-name"
      else if page.groups.isEmpty then "nth-of-no-groups"
      else if groupsTest a b name page.groups then "nth-of-group-match" else "nth-of-group-no-match"

/-- All tags the classifiers can produce for the fixed-universe functions (the harness reports the
ones never hit). -/
def lengthUniverse : List String :=
  ["keyword-passthrough", "keyword-attribute-error", "other-unit-passthrough", "not-a-dimension-attribute-error"] ++
  (["zero", "px"] ++ ((lengthsToPixels.map (·.1)).filter (· != "px")).map ("absolute:" ++ ·)).flatMap
    (fun t => [t ++ "/pixels-only", t ++ "/dimension"]) ++
  ["em", "ex", "ch", "rem"].flatMap (fun u => ["/given-font-size", "/own-font-size"].flatMap
    (fun f => [u ++ f ++ "/pixels-only", u ++ f ++ "/dimension"]))

def pageMatchUniverse : List String :=
  ["side-mismatch", "blank-mismatch", "first-mismatch", "name-mismatch", "no-index-match",
   "nth-a0-match", "nth-a0-no-match", "nth-a-positive-match", "nth-a-positive-no-match",
   "nth-a-negative-match", "nth-a-negative-no-match", "nth-of-other-name", "nth-of-no-groups",
   "nth-of-group-match", "nth-of-group-no-match"]

def fontSizeUniverse : List String :=
  -- on the root the parent size is the initial 16px, which has a keyword above and below it
  ["keyword", "attribute-error", "larger-times-1.2/child", "smaller-times-0.8/child"] ++
  ["larger-next-keyword", "smaller-previous-keyword", "percent",
   "length:em", "length:rem", "length:px"].flatMap (fun t => [t ++ "/root", t ++ "/child"])

end Wp.C06Branches
