/-
`@counter-style` descriptors: mirror of the validators of `weasyprint/css/validation/descriptors.py`
  `system`, `negative`, `prefix_suffix`, `range` + `range_list` (with `comma_separated_list`), `pad`,
  `fallback`, `symbols`, `additive_symbols`
on abstract tokens, of the loop of `preprocess_descriptors` (empty values rejected before the validator is
called, d71ddd0; unknown names and invalid values ignored), of `parse_counter_style_name`
(`css/counters.py`) and of the rule-level checks of `preprocess_stylesheet` (`css/__init__.py`, "needs at
least one / two symbols").
`none` is Python's `None` ("invalid value": the declaration is ignored); Python failure points are
explicit (`system` called directly on an empty value: `tokens[0]` → IndexError; unreachable through
`preprocess_descriptors`, `C15.preprocess_descriptors_total`).
No Mathlib, no Std: linked into the compiled driver.
-/
import WpModel.Model.Counters

namespace Wp.CounterDescriptors
open Wp.Counters

/-- A component value after `remove_whitespace`, as far as the validators look at it. -/
inductive Tok where
  | ident (value : String)        -- `lower_value` is the ASCII lower-casing
  | str (value : String)
  | int (n : Int)                 -- number token with `is_integer`
  | num                           -- any other number token
  | url                           -- `url(...)` resolved by `get_url` to `('url', …)`
  | comma                         -- `LiteralToken(',')`
  | other
  deriving Repr, DecidableEq

def lower (s : String) : String := String.ofList (s.toList.map Char.toLower)

/-- `get_keyword(token)`. -/
def keyword? : Tok → Option String
  | .ident v => some (lower v)
  | _ => none

inductive DErr where
  | indexError
  deriving Repr, DecidableEq

/-- `system(tokens)`. -/
def system (tokens : List Tok) : Except DErr (Option Sys) :=
  if tokens.length > 2 then .ok none
  else match tokens with
    | [] => .error .indexError                       -- `get_keyword(tokens[0])`
    | t0 :: rest =>
      let kw := keyword? t0
      if kw = some "extends" then
        match rest with
        | [t1] => match keyword? t1 with
          | some k2 => if k2 ≠ "" then .ok (some ⟨true, k2, none⟩) else .ok none
          | none => .ok none
        | _ => .ok none
      else if kw = some "fixed" then
        match rest with
        | [] => .ok (some ⟨false, "fixed", some 1⟩)
        | [.int n] => .ok (some ⟨false, "fixed", some n⟩)
        | _ => .ok none
      else if rest.isEmpty && (kw = some "cyclic" || kw = some "numeric" || kw = some "alphabetic" ||
          kw = some "symbolic" || kw = some "additive") then
        .ok (some ⟨false, kw.getD "", none⟩)
      else .ok none

/-- `string` / `ident` → `('string', value)`, `url` → `('url', …)`, anything else is not a symbol. -/
def symbolOf : Tok → Option Sym
  | .ident v => some (.str v)
  | .str v => some (.str v)
  | .url => some .url
  | _ => none

/-- `negative(tokens)`: tokens that are not symbols are silently skipped. -/
def negative (tokens : List Tok) : Option (Sym × Sym) :=
  if tokens.length > 2 then none
  else match tokens.filterMap symbolOf with
    | [a] => some (a, .str "")
    | [a, b] => some (a, b)
    | _ => none

/-- `prefix_suffix(tokens)`. -/
def prefixSuffix (tokens : List Tok) : Option Sym :=
  match tokens with
  | [t] => symbolOf t
  | _ => none

/-- `split_on_comma`. -/
def splitOnComma : List Tok → List Tok → List (List Tok)
  | [], cur => [cur]
  | .comma :: rest, cur => cur :: splitOnComma rest []
  | t :: rest, cur => splitOnComma rest (cur ++ [t])

/-- First token of a range pair: `infinite` (case-sensitive) is `-inf`, an integer is itself. -/
def loBound : Tok → Option Bound
  | .ident v => if v = "infinite" then some .negInf else none
  | .int n => some (.fin n)
  | _ => none

/-- Second token of a range pair: `infinite` is `+inf`. -/
def hiBound : Tok → Option Bound
  | .ident v => if v = "infinite" then some .posInf else none
  | .int n => some (.fin n)
  | _ => none

/-- `values[0] <= values[1]` on what the two positions can hold. -/
def boundLe : Bound → Bound → Bool
  | .negInf, _ => true
  | _, .posInf => true
  | .fin x, .fin y => decide (x ≤ y)
  | _, _ => false

/-- `get_single_keyword(tokens)`: the lower-cased name of a one-element list holding an identifier. -/
def singleKeyword? : List Tok → Option String
  | [t] => keyword? t
  | _ => none

/-- One part of `range_list`: a `(min, max)` pair with `min <= max` (since 5be1d36 `auto` is not a part). -/
def rangePart (tokens : List Tok) : Option RangeEntry :=
  match tokens with
  | [a, b] =>
    match loBound a, hiBound b with
    | some lo, some hi => if boundLe lo hi then some (.pair lo hi) else none
    | _, _ => none
  | _ => none

def allParts {α} (f : List Tok → Option α) : List (List Tok) → Option (List α)
  | [] => some []
  | p :: rest => match f p with
    | none => none
    | some x => (allParts f rest).map (x :: ·)

/-- `range_list(tokens)` (`comma_separated_list`). -/
def rangeList (tokens : List Tok) : Option (List RangeEntry) :=
  allParts rangePart (splitOnComma tokens [])

/-- `range(tokens)`: the keyword `auto` alone is the string `'auto'`, anything else a list of ranges. -/
def range (tokens : List Tok) : Option RangeDesc :=
  if singleKeyword? tokens = some "auto" then some .auto
  else (rangeList tokens).map .entries

/-- The loop of `pad`: `values = [None, None]`. -/
def padLoop : List Tok → Option Nat → Option Sym → Option Nat × Option Sym
  | [], n, s => (n, s)
  | t :: rest, n, s =>
    match t with
    | .int v => padLoop rest (if 0 ≤ v && n.isNone then some v.toNat else n) s
    | .num => padLoop rest n s
    | .ident v => padLoop rest n (some (.str v))
    | .str v => padLoop rest n (some (.str v))
    | .url => padLoop rest n (some .url)
    | _ => padLoop rest n s

/-- `pad(tokens)`. -/
def pad (tokens : List Tok) : Option (Nat × Sym) :=
  if tokens.length = 2 then
    match padLoop tokens none none with
    | (some n, some s) => some (n, s)
    | _ => none
  else none

/-- `fallback(tokens)`. -/
def fallback (tokens : List Tok) : Option String :=
  match tokens with
  | [.ident v] => if v ≠ "none" then some v else none
  | _ => none

/-- `symbols(tokens)`. -/
def symbols : List Tok → Option (List Sym)
  | [] => some []
  | t :: rest => match symbolOf t with
    | none => none
    | some s => (symbols rest).map (s :: ·)

/-- The loop of `additive_symbols`: every part is a `pad`, weights strictly decreasing. -/
def additiveLoopV : List (List Tok) → List (Nat × Sym) → Option (List (Nat × Sym))
  | [], acc => some acc
  | p :: rest, acc =>
    match pad p with
    | none => none
    | some r =>
      match acc.getLast? with
      | some last => if last.1 ≤ r.1 then none else additiveLoopV rest (acc ++ [r])
      | none => additiveLoopV rest (acc ++ [r])

/-- `additive_symbols(tokens)`. -/
def additiveSymbols (tokens : List Tok) : Option (List (Nat × Sym)) :=
  additiveLoopV (splitOnComma tokens []) []

/-- One validated declaration of a `@counter-style` rule. -/
inductive Decl where
  | system (v : Sys) | negative (v : Sym × Sym) | pfx (v : Sym) | sfx (v : Sym) | range (v : RangeDesc)
  | pad (v : Nat × Sym) | fallback (v : String) | symbols (v : List Sym) | additive (v : List (Nat × Sym))
  deriving Repr, DecidableEq

/-- `for descriptor_name, descriptor_value in rule_descriptors: counter[descriptor_name] = descriptor_value`. -/
def applyDecl (d : Desc) : Decl → Desc
  | .system v => { d with system := some v }
  | .negative v => { d with negative := some v }
  | .pfx v => { d with pfx := some v }
  | .sfx v => { d with sfx := some v }
  | .range v => { d with range := some v }
  | .pad v => { d with pad := some v }
  | .fallback v => { d with fallback := some v }
  | .symbols v => { d with symbols := some v }
  | .additive v => { d with additive := some v }

/-- The validator `DESCRIPTORS['counter-style'][name]` applied to `tokens`: outer `none` = the name is not a
`@counter-style` descriptor (`speak-as`, …), `some (.ok none)` = invalid value. -/
def validate (name : String) (toks : List Tok) : Option (Except DErr (Option Decl)) :=
  match name with
  | "system" => some ((system toks).map (·.map .system))
  | "negative" => some (.ok ((negative toks).map .negative))
  | "prefix" => some (.ok ((prefixSuffix toks).map .pfx))
  | "suffix" => some (.ok ((prefixSuffix toks).map .sfx))
  | "range" => some (.ok ((range toks).map .range))
  | "pad" => some (.ok ((pad toks).map .pad))
  | "fallback" => some (.ok ((fallback toks).map .fallback))
  | "symbols" => some (.ok ((symbols toks).map .symbols))
  | "additive-symbols" => some (.ok ((additiveSymbols toks).map .additive))
  | _ => none

/-- One turn of the loop of `preprocess_descriptors` (`validation/descriptors.py`) on a declaration
`name: tokens` (white space removed): `if not tokens: raise InvalidValues` (since d71ddd0), unknown names
and invalid values are ignored (`none`), an exception of the validator is not caught. -/
def preprocessOne (name : String) (toks : List Tok) : Except DErr (Option Decl) :=
  if toks.isEmpty then .ok none
  else match validate name toks with
    | none => .ok none
    | some r => r

/-- `preprocess_descriptors('counter-style', …)`: the surviving declarations in source order. -/
def preprocessDescriptors : List (String × List Tok) → List Decl → Except DErr (List Decl)
  | [], acc => .ok acc
  | (n, toks) :: rest, acc =>
    match preprocessOne n toks with
    | .error e => .error e
    | .ok none => preprocessDescriptors rest acc
    | .ok (some d) => preprocessDescriptors rest (acc ++ [d])

/-- The rule-level check of `preprocess_stylesheet`: is the rule registered? -/
def ruleAccepted (d : Desc) : Bool :=
  let sys : Sys := d.system.getD ⟨false, "symbolic", none⟩
  if sys.ext then true
  else if sys.name = "cyclic" || sys.name = "fixed" || sys.name = "symbolic" then
    !decide ((d.symbols.getD []).length < 1)
  else if sys.name = "alphabetic" || sys.name = "numeric" then
    !decide ((d.symbols.getD []).length < 2)
  else if sys.name = "additive" then
    !decide ((d.additive.getD []).length < 2)
  else true

/-- The dictionary entry of a rule, `none` when the rule is ignored. -/
def buildRule (decls : List Decl) : Option Desc :=
  let d := decls.foldl applyDecl {}
  if ruleAccepted d then some d else none

/-- `parse_counter_style_name(tokens, counter_style)`: `known` = is the lower-cased name already a key. -/
def styleName (tokens : List Tok) (known : String → Bool) : Option String :=
  match tokens with
  | [.ident v] =>
    let l := lower v
    if l = "decimal" || l = "disc" then (if !known l then some v else none)
    else if l ≠ "none" then some v else none
  | _ => none

end Wp.CounterDescriptors
