/-
C20 — an executable checker for fetch traces, run by the harness on every log recorded from the real
code (`trace` command of the driver) and proved (Props/C20Trace.lean) to accept every trace the
models produce.  The language accepted: a sequence of fetches, each `call [body [close | closeWarn]]`
— the fetcher is called, the `with` body may be entered, then the file object (if any) is closed
exactly once, before the next call.  A recording fetcher does not see `body`: `obsOk` is the same on
traces without it.  No Mathlib.
-/
import WpModel.Model.Resources

namespace Wp.Res

/-- State: 0 = between fetches, 1 = the fetcher has been called, 2 = the body has been entered. -/
def traceOk : Nat → List Ev → Bool
  | _, [] => true
  | _, .call _ :: rest => traceOk 1 rest
  | 1, .body :: rest => traceOk 2 rest
  | 2, .close :: rest => traceOk 0 rest
  | 2, .closeWarn :: rest => traceOk 0 rest
  | _, _ => false

/-- The same on what a recording fetcher observes (no `body` events): `(call (close | closeWarn)?)*`. -/
def obsOk : Bool → List Ev → Bool
  | _, [] => true
  | _, .call _ :: rest => obsOk true rest
  | true, .close :: rest => obsOk false rest
  | true, .closeWarn :: rest => obsOk false rest
  | _, _ => false

def stripBody (evs : List Ev) : List Ev := evs.filter (· != .body)

/-- Every URL handed to the fetcher is one of `named`. -/
def callsWithin (named : List String) (evs : List Ev) : Bool :=
  evs.all (fun e => match e with | .call u => named.contains u | _ => true)

end Wp.Res
