/-
Model of the arithmetic of `weasyprint/layout/background.py::layout_background_layer`
(+ `box_rectangle`, `PageBox.bleed_area`) and of the tiling arithmetic of
`weasyprint/draw/__init__.py::draw_background_image`.
Not modelled: `clipped_boxes` (rounded boxes / radii), colours.
Python's `round()` (half to even) is `roundHalfEven`; `math.floor` is `Rat.floor`.
No Mathlib: linked into `driver_c13`.
-/
import WpModel.Model.Replaced

namespace Wp.Replaced
open Wp

/-- Python `round(x)` on an exact number: half to even. -/
def roundHalfEven (q : Rat) : Int :=
  let f := q.floor
  let r := q - (f : Rat)
  if r < 1 / 2 then f
  else if r > 1 / 2 then f + 1
  else if f % 2 = 0 then f else f + 1

structure Rect where
  x : Rat
  y : Rat
  w : Rat
  h : Rat
  deriving Repr, BEq

inductive BoxArea where
  | borderBox | paddingBox | contentBox
  | other       -- any other string: `assert which_rectangle == 'content-box'` fails
  deriving Repr, DecidableEq

def BoxArea.ofCss : String → BoxArea
  | "border-box" => .borderBox | "padding-box" => .paddingBox | "content-box" => .contentBox
  | _ => .other

/-- `box_rectangle(box, which_rectangle)`. -/
def boxRectangle (g : Geom) : BoxArea → Except Err Rect
  | .borderBox => .ok ⟨g.borderBoxX, g.borderBoxY, g.borderWidth, g.borderHeight⟩
  | .paddingBox => .ok ⟨g.paddingBoxX, g.paddingBoxY, g.paddingWidth, g.paddingHeight⟩
  | .contentBox => .ok ⟨g.contentBoxX, g.contentBoxY, g.width, g.height⟩
  | .other => .error (.assertion "box_rectangle")

/-- `PageBox.bleed_area` for bleeds `(top, right, bottom, left)`. -/
def bleedArea (page : Geom) (bt br bb bl : Rat) : Rect :=
  ⟨-bl, -bt, page.marginWidth + bl + br, page.marginHeight + bt + bb⟩

/-- A table cell as the painting-area computation of table parts sees it. -/
structure Cell where
  borderBoxX : Rat
  borderWidth : Rat
  borderHeight : Rat
  deriving Repr, BEq

/-- Which branch of the painting-area dispatch of `layout_background_layer` the box takes. -/
inductive BoxKind where
  | page (bt br bb bl : Rat)            -- `box is page`, with the page's bleeds
  | rowGroup (rows : List (List Cell))   -- TableRowGroupBox: cells of each row
  | row (cells : List Cell)              -- TableRowBox
  | column (cells : List Cell)           -- TableColumnGroupBox / TableColumnBox: `box.get_cells()`
  | plain                                -- every other box
  deriving Repr, BEq

/-- `max(xs)` on a non-empty list (Python raises ValueError on an empty one; callers guard it). -/
def maxList : Rat → List Rat → Rat
  | a, [] => a
  | a, b :: rest => maxList (max a b) rest

def minList : Rat → List Rat → Rat
  | a, [] => a
  | a, b :: rest => minList (min a b) rest

/-- The painting area (first half of `layout_background_layer`). -/
def paintingArea (g : Geom) (kind : BoxKind) (clip : BoxArea) : Except Err Rect :=
  match kind with
  | .page bt br bb bl => .ok (bleedArea g bt br bb bl)
  | .rowGroup rows =>
    let total := rows.foldl (fun acc row =>
      match row with
      | [] => acc
      | c :: cs => max acc (maxList c.borderHeight (cs.map (·.borderHeight)))) (0 : Rat)
    .ok ⟨g.borderBoxX, g.borderBoxY, g.borderWidth, total⟩
  | .row cells =>
    match cells with
    | [] => .ok ⟨0, 0, 0, 0⟩
    | c :: cs => .ok ⟨g.borderBoxX, g.borderBoxY, g.borderWidth, maxList c.borderHeight (cs.map (·.borderHeight))⟩
  | .column cells =>
    match cells with
    | [] => .ok ⟨0, 0, 0, 0⟩
    | c :: cs =>
      let minX := minList c.borderBoxX (cs.map (·.borderBoxX))
      let maxX := maxList (c.borderBoxX + c.borderWidth) (cs.map (fun c => c.borderBoxX + c.borderWidth))
      .ok ⟨minX, g.borderBoxY, maxX - minX, g.borderHeight⟩
  | .plain => boxRectangle g clip

/-- `background-size`: a keyword or a pair of `'auto'` / `<length-percentage>`. -/
inductive BgSize where
  | cover | contain
  | explicit (w h : Option Dim)
  deriving Repr, BEq

inductive Repeat where
  | repeat | noRepeat | space | round
  | other
  deriving Repr, DecidableEq

def Repeat.ofCss : String → Repeat
  | "repeat" => .repeat | "no-repeat" => .noRepeat | "space" => .space | "round" => .round
  | _ => .other

/-- What `layout_background_layer` returns (without `clipped_boxes`); `image = None` is `none`. -/
structure Layer where
  size : Rat × Rat
  position : Rat × Rat
  repeatX : Repeat
  repeatY : Repeat
  positioningArea : Rect
  deriving Repr, BEq

structure LayerResult where
  paintingArea : Rect
  layer : Option Layer
  deriving Repr, BEq

/-- `percentage(size_width, positioning_width)`: `'auto'` stays `'auto'`. -/
def percentageOpt (d : Option Dim) (ref : Rat) : Len := d.map (fun d => percentage d ref)

/-- `size[k] == 'auto'` — a keyword size is a string whose characters are not `'auto'`. -/
def BgSize.autoAt (s : BgSize) (second : Bool) : Bool :=
  match s with
  | .explicit w h => if second then h.isNone else w.isNone
  | _ => false

/-- The background positioning area: `background-attachment: fixed` → the page box with its margins
(for the page itself) or the page's content box; else `box_rectangle(box, origin)`. -/
def positioningAreaOf (g : Geom) (kind : BoxKind) (pageGeom : Geom) (origin : BoxArea) (fixed : Bool) :
    Except Err Rect :=
  if fixed then
    match kind with
    | .page _ _ _ _ => .ok ⟨0, 0, g.marginWidth, g.marginHeight⟩
    | _ => boxRectangle pageGeom .contentBox
  else boxRectangle g origin

/-- `(image_width, image_height)` from `background-size` in a positioning area of `pw × ph`. -/
def concreteSize (i : Intr) (size : BgSize) (pw ph : Rat) : Except Err (Rat × Rat) :=
  match size with
  | .cover => coverSizing pw ph i.ratio
  | .contain => containSizing pw ph i.ratio
  | .explicit sw sh => defaultImageSizing i (percentageOpt sw pw) (percentageOpt sh ph) pw ph

/-- Size and position of the image while `layout_background_layer` refines them. -/
structure Placed where
  iw : Rat
  ih : Rat
  px : Rat
  py : Rat
  deriving Repr, BEq

/-- `n_repeats = max(1, round(positioning / image)); new = positioning / n_repeats`. -/
def roundTiles (positioning image : Rat) : Except Err (Int × Rat) := do
  let q ← pyDiv "background.round" positioning image
  let n := max 1 (roundHalfEven q)
  pure (n, positioning / (n : Rat))

/-- `if repeat_x == 'round' and image_width:` (a zero-sized image skips the arithmetic). -/
def roundX (repeatX repeatY : Repeat) (size : BgSize) (pw : Rat) (p : Placed) : Except Err Placed :=
  if repeatX == .round && p.iw != 0 then do
    let t ← roundTiles pw p.iw
    let ih := if repeatY != .round && size.autoAt true then p.ih * (t.2 / p.iw) else p.ih
    pure { p with iw := t.2, ih := ih, px := 0 }
  else pure p

/-- `if repeat_y == 'round' and image_height:` -/
def roundY (repeatX repeatY : Repeat) (size : BgSize) (ph : Rat) (p : Placed) : Except Err Placed :=
  if repeatY == .round && p.ih != 0 then do
    let t ← roundTiles ph p.ih
    let iw := if repeatX != .round && size.autoAt false then p.iw * (t.2 / p.ih) else p.iw
    pure { p with iw := iw, ih := t.2, py := 0 }
  else pure p

/-- `layout_background_layer(box, page, resolution, image, size, clip, repeat, origin, position,
attachment)`.  `image` is `none` for no image, else its intrinsic size; `pageGeom` is the page box
(for `background-attachment: fixed`); `kind = .page …` means `box is page` (then `g = pageGeom`). -/
def layoutBackgroundLayer (g : Geom) (kind : BoxKind) (pageGeom : Geom) (image : Option Intr)
    (size : BgSize) (clip : BoxArea) (repeatX repeatY : Repeat) (origin : BoxArea) (pos : Position)
    (fixed : Bool) : Except Err LayerResult := do
  let painting ← paintingArea g kind clip
  match image with
  | none => pure ⟨painting, none⟩
  | some i =>
    if i.w == some 0 || i.h == some 0 then pure ⟨painting, none⟩ else
    let positioning ← positioningAreaOf g kind pageGeom origin fixed
    let s ← concreteSize i size positioning.w positioning.h
    let p0 : Placed := ⟨s.1, s.2, placeAxis pos.fromRight pos.x (positioning.w - s.1),
      placeAxis pos.fromBottom pos.y (positioning.h - s.2)⟩
    let p1 ← roundX repeatX repeatY size positioning.w p0
    let p2 ← roundY repeatX repeatY size positioning.h p1
    pure ⟨painting, some ⟨(p2.iw, p2.ih), (p2.px, p2.py), repeatX, repeatY, positioning⟩⟩

/-! ## `draw_background_image`: where the image (or the pattern cell) goes -/

/-- What `draw_background_image` hands to the PDF layer. -/
inductive BgDraw where
  | nothing
  /-- no-repeat/no-repeat: clip to the painting area, group translated by `(e, f)`, image drawn
      `w × h`. -/
  | single (clip : Rect) (e f w h : Rat)
  /-- tiling pattern: cell `w × h` drawn at the pattern origin `(e, f)`, steps `(xstep, ystep)`,
      filled rectangle = painting area. -/
  | pattern (fill : Rect) (e f w h xstep ystep : Rat)
  deriving Repr, BEq

/-- One axis of the tiling: `(repeat_size, position)`; `painting` is the painting-area extent. -/
def repeatAxis (r : Repeat) (image positioning painting position : Rat) : Except Err (Rat × Rat) :=
  match r with
  | .noRepeat => .ok (max image (2 * painting), position)
  | .repeat => .ok (image, position)
  | .round => .ok (image, position)
  | .space => do
    let q ← pyDiv "draw_background_image.space" positioning image
    let n := q.floor
    if n ≥ 2 then do
      let step ← pyDiv "draw_background_image.space.step" (positioning - image) ((n : Rat) - 1)
      pure (step, 0)
    else pure (positioning, position)
  | .other => .error (.assertion "draw_background_image.repeat")

/-- `draw_background_image(stream, layer, image_rendering)` for a bounded layer. -/
def drawBackgroundImage (r : LayerResult) : Except Err BgDraw :=
  match r.layer with
  | none => .ok .nothing
  | some l =>
    if l.size.1 = 0 || l.size.2 = 0 then .ok .nothing else
    if l.repeatX == .noRepeat && l.repeatY == .noRepeat then
      .ok (.single r.paintingArea (l.position.1 + l.positioningArea.x) (l.position.2 + l.positioningArea.y)
        l.size.1 l.size.2)
    else do
      let (xstep, px) ← repeatAxis l.repeatX l.size.1 l.positioningArea.w r.paintingArea.w l.position.1
      let (ystep, py) ← repeatAxis l.repeatY l.size.2 l.positioningArea.h r.paintingArea.h l.position.2
      pure (.pattern r.paintingArea (px + l.positioningArea.x) (py + l.positioningArea.y)
        l.size.1 l.size.2 xstep ystep)

end Wp.Replaced
