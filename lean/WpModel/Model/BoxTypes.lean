/-
Box classes of `weasyprint/formatting_structure/boxes.py` that can occur in a box tree before
layout, the abstract classes `build.py` tests with `isinstance`, and the `white-space` keywords.
Hand-written enumerations; `Gen/BoxKinds.lean` (regenerated from /repo on every run) is stated over
these types: class flags through `issubclass`, class attributes, `BOX_TYPE_FROM_DISPLAY`.
-/
namespace Wp.Bx

/-- The concrete box classes a pre-layout tree is made of. -/
inductive BoxKind where
  | BlockBox | LineBox | InlineBox | TextBox | InlineBlockBox
  | BlockReplacedBox | InlineReplacedBox
  | TableBox | InlineTableBox | TableRowGroupBox | TableRowBox
  | TableColumnGroupBox | TableColumnBox | TableCellBox | TableCaptionBox
  | FlexBox | InlineFlexBox | GridBox | InlineGridBox
  deriving Repr, DecidableEq, BEq, Inhabited

namespace BoxKind

def all : List BoxKind := [BlockBox, LineBox, InlineBox, TextBox, InlineBlockBox, BlockReplacedBox,
  InlineReplacedBox, TableBox, InlineTableBox, TableRowGroupBox, TableRowBox, TableColumnGroupBox,
  TableColumnBox, TableCellBox, TableCaptionBox, FlexBox, InlineFlexBox, GridBox, InlineGridBox]

def name : BoxKind → String
  | BlockBox => "BlockBox" | LineBox => "LineBox" | InlineBox => "InlineBox" | TextBox => "TextBox"
  | InlineBlockBox => "InlineBlockBox" | BlockReplacedBox => "BlockReplacedBox"
  | InlineReplacedBox => "InlineReplacedBox" | TableBox => "TableBox"
  | InlineTableBox => "InlineTableBox" | TableRowGroupBox => "TableRowGroupBox"
  | TableRowBox => "TableRowBox" | TableColumnGroupBox => "TableColumnGroupBox"
  | TableColumnBox => "TableColumnBox" | TableCellBox => "TableCellBox"
  | TableCaptionBox => "TableCaptionBox" | FlexBox => "FlexBox" | InlineFlexBox => "InlineFlexBox"
  | GridBox => "GridBox" | InlineGridBox => "InlineGridBox"

def ofName? (s : String) : Option BoxKind := all.find? (fun k => k.name == s)

theorem mem_all (k : BoxKind) : k ∈ all := by cases k <;> simp [all]

end BoxKind

instance : LawfulBEq BoxKind where
  eq_of_beq {a b} h := by cases a <;> cases b <;> first | rfl | cases h
  rfl {a} := by cases a <;> rfl

/-- Abstract (and concrete) classes used as the second argument of `isinstance` in `build.py`. -/
inductive BoxClass where
  | ParentBox | BlockLevelBox | BlockContainerBox | InlineLevelBox | AtomicInlineLevelBox
  | ReplacedBox | FlexContainerBox | GridContainerBox
  | BlockBox | LineBox | InlineBox | TextBox | InlineBlockBox
  | TableBox | InlineTableBox | TableRowGroupBox | TableRowBox
  | TableColumnGroupBox | TableColumnBox | TableCellBox | TableCaptionBox
  deriving Repr, DecidableEq, BEq, Inhabited

namespace BoxClass
def all : List BoxClass := [ParentBox, BlockLevelBox, BlockContainerBox, InlineLevelBox,
  AtomicInlineLevelBox, ReplacedBox, FlexContainerBox, GridContainerBox, BlockBox, LineBox, InlineBox,
  TextBox, InlineBlockBox, TableBox, InlineTableBox, TableRowGroupBox, TableRowBox,
  TableColumnGroupBox, TableColumnBox, TableCellBox, TableCaptionBox]
end BoxClass

/-- Computed values of `white-space`. -/
inductive WS where
  | normal | nowrap | pre | preWrap | preLine
  deriving Repr, DecidableEq, BEq, Inhabited

namespace WS
def all : List WS := [normal, nowrap, pre, preWrap, preLine]
def toCss : WS → String
  | normal => "normal" | nowrap => "nowrap" | pre => "pre" | preWrap => "pre-wrap"
  | preLine => "pre-line"
def ofCss? (s : String) : Option WS := all.find? (fun w => w.toCss == s)
end WS

/-- Computed values of `text-transform`. -/
inductive TT where
  | none | capitalize | uppercase | lowercase | fullWidth
  deriving Repr, DecidableEq, BEq, Inhabited

/-- Unicode general category, first letter (`unicodedata.category(c)[0]`). -/
inductive UCat where
  | L | M | N | P | S | Z | C
  deriving Repr, DecidableEq, BEq, Inhabited

end Wp.Bx
