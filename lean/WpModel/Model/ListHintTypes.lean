/-
Types of the list presentational hints (`<ol start>`, `<li value>`): shared by the generated table
`Gen/ListHints.lean` and the model `Model/ListHints.lean`.
No Mathlib, no Std: linked into the compiled driver.
-/
import WpModel.Model.CounterScope

namespace Wp.ListHints
open Wp.Counters

/-- A component value of the attribute text as the property validator `counter()` looks at it (real
tinycss2 tokens, white space removed): an identifier, a number token with an `int_value`, anything else. -/
inductive HTok where
  | ident (value : String)
  | int (n : Int)
  | other
  deriving Repr, DecidableEq

/-- One branch of `find_style_attributes`: `if element.get(attr): yield … f'{prop}:{pre} {element.get(attr)};{const}'`.
`prop` is the counter property the raw attribute text is pasted into, after the tokens `pre`;
`constReset / constSet / constIncr` are the validated constant declarations of the same style text. -/
structure AttrHint where
  attr : String
  prop : String
  pre : List HTok
  constReset : Option (List (String × Int)) := none
  constSet : Option (List (String × Int)) := none
  constIncr : Option (List (String × Int)) := none
  deriving Repr, DecidableEq

end Wp.ListHints
