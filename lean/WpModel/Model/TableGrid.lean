/-
Slot assignment of `build.wrap_table` (weasyprint/formatting_structure/build.py): `grid_x` of
columns / column groups, `grid_x` and clipped `rowspan` of cells, `grid_width`, `grid_height`.
The tree plumbing (sorting children by type, header / footer, captions, wrapper) is in
`Model/AnonBoxes.lean`; this file is the arithmetic on which slot disjointness is proved.
No Mathlib.
-/
import WpModel.Model.Wire

namespace Wp.TableGrid

/-- What `wrap_table` reads of a cell: `cell.colspan`, `cell.rowspan` (0 = to the end of the group). -/
structure CellIn where
  colspan : Nat
  rowspan : Nat
  deriving Repr, BEq, DecidableEq, Inhabited

/-- What it writes: `cell.grid_x`, and `cell.rowspan` clipped to the row group. -/
structure CellOut where
  gridX : Nat
  colspan : Nat
  rowspan : Nat
  deriving Repr, BEq, DecidableEq, Inhabited

/-- An upper bound of a set of occupied columns, plus one. -/
def bound (occ : List Nat) : Nat := occ.foldl max 0 + 1

/-- `while grid_x in occupied_cells_in_this_row: grid_x += 1` with `fuel` iterations allowed. -/
def firstFreeGo (occ : List Nat) : Nat → Nat → Nat
  | 0, x => x
  | n + 1, x => if occ.contains x then firstFreeGo occ n (x + 1) else x

/-- The loop always ends before `bound occ` (proved: `firstFree_not_mem`). -/
def firstFree (occ : List Nat) (x : Nat) : Nat := firstFreeGo occ (bound occ - x) x

/-- `for occupied_cells in spanned_rows[:k]: occupied_cells.update(cols)` -/
def markRows : List (List Nat) → Nat → List Nat → List (List Nat)
  | [], _, _ => []
  | r :: rs, 0, _ => r :: rs
  | r :: rs, k + 1, cols => (cols ++ r) :: markRows rs k cols

/-- `range(a, b)` -/
def rangeList (a b : Nat) : List Nat := (List.range (b - a)).map (· + a)

/-- The body of `for cell in row.children` for one cell: returns the placed cell, the updated
sets of the later rows, the next `grid_x`. -/
def placeCell (occ : List Nat) (later : List (List Nat)) (x : Nat) (c : CellIn) :
    CellOut × List (List Nat) × Nat :=
  let gx := firstFree occ x
  let nx := gx + c.colspan
  if c.rowspan != 1 then
    let maxRowspan := later.length + 1
    if c.rowspan == 0 then
      -- all rows until the end of the group
      (⟨gx, c.colspan, maxRowspan⟩, markRows later later.length (rangeList gx nx), nx)
    else
      let rs := min c.rowspan maxRowspan
      (⟨gx, c.colspan, rs⟩, markRows later (rs - 1) (rangeList gx nx), nx)
  else
    (⟨gx, c.colspan, 1⟩, later, nx)

/-- `for cell in row.children: …` threading `grid_x`, the later rows' sets and `grid_width`. -/
def placeRow (occ : List Nat) : List CellIn → List (List Nat) → Nat → Nat →
    List CellOut × List (List Nat) × Nat
  | [], later, _, w => ([], later, w)
  | c :: cs, later, x, w =>
    let (out, later', nx) := placeCell occ later x c
    let (outs, later'', w') := placeRow occ cs later' nx (max w nx)
    (out :: outs, later'', w')

/-- `for row in group.children: occupied_cells_in_this_row = occupied_cells_by_row.pop(0); …` -/
def placeRows : List (List CellIn) → List (List Nat) → Nat →
    Except PyErr (List (List CellOut) × Nat)
  | [], _, w => .ok ([], w)
  | row :: rows, occByRow, w =>
    match occByRow with
    | [] => .error (.indexError "occupied_cells_by_row.pop")
    | occ :: later =>
      let (outs, later', w') := placeRow occ row later 0 w
      match placeRows rows later' w' with
      | .error e => .error e
      | .ok (rest, w'') => .ok (outs :: rest, w'')

/-- One row group: `occupied_cells_by_row = [set() for row in group.children]`. -/
def placeGroup (rows : List (List CellIn)) (w : Nat) : Except PyErr (List (List CellOut) × Nat) :=
  placeRows rows (rows.map (fun _ => [])) w

/-- All row groups of a table, in the order header, bodies, footer; `grid_height`. -/
def placeGroups : List (List (List CellIn)) → Nat → Nat →
    Except PyErr (List (List (List CellOut)) × Nat × Nat)
  | [], w, h => .ok ([], w, h)
  | g :: gs, w, h =>
    match placeGroup g w with
    | .error e => .error e
    | .ok (out, w') =>
      match placeGroups gs w' (h + g.length) with
      | .error e => .error e
      | .ok (rest, w'', h') => .ok (out :: rest, w'', h')

/-- A column group as `wrap_table` sees it: `len(group.children)` and `group.span`. -/
structure ColGroupIn where
  nCols : Nat
  span : Nat
  deriving Repr, BEq, DecidableEq, Inhabited

/-- `group.grid_x` and the `grid_x` of its columns. -/
structure ColGroupOut where
  gridX : Nat
  cols : List Nat
  deriving Repr, BEq, DecidableEq, Inhabited

/-- `for group in column_groups: group.grid_x = grid_x; (columns one by one | grid_x += group.span)` -/
def placeColumns : List ColGroupIn → Nat → List ColGroupOut × Nat
  | [], x => ([], x)
  | g :: gs, x =>
    let nx := if g.nCols != 0 then x + g.nCols else x + g.span
    let (rest, w) := placeColumns gs nx
    (⟨x, rangeList x (x + g.nCols)⟩ :: rest, w)

/-- The whole numeric part of `wrap_table`. -/
structure TableOut where
  colGroups : List ColGroupOut
  groups : List (List (List CellOut))
  gridWidth : Nat
  gridHeight : Nat
  deriving Repr, BEq, DecidableEq

def placeTable (cols : List ColGroupIn) (groups : List (List (List CellIn))) : Except PyErr TableOut :=
  let (cg, w) := placeColumns cols 0
  match placeGroups groups w 0 with
  | .error e => .error e
  | .ok (gs, w', h) => .ok ⟨cg, gs, w', h⟩

end Wp.TableGrid
