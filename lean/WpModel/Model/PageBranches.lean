/-
Branch tags of the C14 models: for an input, which branch of the mirrored Python function the model
takes (derived from the model's own rule functions / conditions).  The harness asks for them
(`tag <cmd> <args>`) to report the branch histogram of every run and the branches never hit.
No Mathlib, no Std: linked into the compiled driver.
-/
import WpModel.Model.PageBoxes
import WpModel.Model.PageState
import WpModel.Model.PageSelectors

namespace Wp.PageBranches
open Wp Wp.PageBoxes Wp.PageState Wp.PageSel

/-- `page_width_or_height`: which `if` / `elif` runs. -/
def pwhBranch (b : OBox) : String :=
  match b.inner, b.ma, b.mb with
  | none, _, _ => "pwh:auto-inner"
  | some _, none, none => "pwh:both-margins-auto"
  | some _, none, some _ => "pwh:margin-a-auto"
  | some _, some _, none => "pwh:margin-b-auto"
  | some _, some _, some _ => "pwh:over-constrained"

/-- `handle_min_max_*`: which re-runs happen. -/
def minMaxBranch (b : OBox) (cb minV : Rat) (maxV : Option Rat) : String :=
  let r1 := pageWidthOrHeight b cb
  let hitMax := match maxV with | some mx => decide (r1.inner > mx) | none => false
  let r2 := match maxV with
    | some mx => if r1.inner > mx then pageWidthOrHeight { b with inner := some mx } cb else r1
    | none => r1
  let hitMin := decide (r2.inner < minV)
  match hitMax, hitMin with
  | false, false => "minmax:free"
  | true, false => "minmax:max"
  | false, true => "minmax:min"
  | true, true => "minmax:max-then-min"

/-- `compute_fixed_dimension`: the rules that change the box, in order. -/
def fixedBranch (b : OBox) (outer : Rat) (tl : Bool) : String :=
  let b2 := fixedRule2 b outer
  let b3 := fixedRule3 b2 tl
  let b4 := fixedRule4 b3 outer
  let b5 := fixedRule5 b4 outer
  let b6 := fixedRule6 b5 outer
  let total := b.ppb + sumNonAuto [b.ma, b.mb, b.inner]
  "fixed:" ++ (if total > outer then "2" else "") ++ (if b3 != b2 then (if tl then "3a" else "3b") else "") ++
    (if b4 != b3 then (match b3.inner, b3.ma with | none, _ => "4i" | _, none => "4a" | _, _ => "4b") else "") ++
    (if b5 != b4 then "5" else "") ++ (if b6 != b5 then "6" else "") ++
    (if b6 == b then "none" else "")

/-- `compute_variable_dimension`: which branch resolves the boxes. -/
def variableBranch (a b c : VBox) (bGenerated : Bool) (avail : Rat) : String :=
  if !bGenerated then
    if b.inner != some 0 then "var:noB-assert"
    else
      match a.inner, c.inner with
      | none, none =>
        if avail > a.outerMax + c.outerMax then
          (if flexSum (a.outerMax + c.outerMax) != a.outerMax + c.outerMax then "var:noB-fit-max-zero" else "var:noB-fit-max")
        else if avail > a.outerMin + c.outerMin then
          -- the `flex_factor_sum == 0` guard of this branch is dead code (`Props.C14.fit_min_factor_sum_pos`)
          "var:noB-fit-min"
        else (if a.minC + c.minC == 0 then "var:noB-overflow-zero" else "var:noB-overflow")
      | none, some _ => "var:noB-a-auto"
      | some _, none => "var:noB-c-auto"
      | some _, some _ => "var:noB-given"
  else
    let bTag := match b.inner with
      | some _ => "b-given"
      | none =>
        let acMax := 2 * max a.outerMax c.outerMax
        if avail > b.outerMax + acMax then "b-fit-max"
        else
          let acMin := 2 * max a.outerMin c.outerMin
          if avail > b.outerMin + acMin then "b-fit-min" else "b-overflow"
    let acTag := match a.inner, c.inner with
      | none, none => "ac-auto"
      | none, some _ => "a-auto"
      | some _, none => "c-auto"
      | some _, some _ => "ac-given"
    "var:B-" ++ bTag ++ "-" ++ acTag

/-- `remake_page`: why the page is blank (or not). -/
def remakeBranch (nb : NextBreak) (rightPage ltr fn : Bool) : String :=
  match nextPageSide nb ltr with
  | some .left => if rightPage then "remake:blank-for-left" else (if fn then "remake:blank-footnotes" else "remake:left-ok")
  | some .right => if !rightPage then "remake:blank-for-right" else (if fn then "remake:blank-footnotes" else "remake:right-ok")
  | none => if fn then "remake:blank-footnotes" else "remake:no-side"

/-- `get_string_or_element_for`: which `return` is reached. -/
def stringBranch (s : NameStore) (current : Nat) (kw : Keyword) (chain : List Bool) : String :=
  let back := match searchBack s (current - 1) with
    | .ok (some _) => "earlier-page"
    | .ok none => "none"
    | .error _ => "error"
  match storeGet s current with
  | some vals =>
    if vals.isEmpty then "string:error-empty"
    else match kw with
      | .first => "string:first"
      | .start => if chain.any id then "string:start-on-chain" else "string:start-fallthrough-" ++ back
      | .last => "string:last"
      | .firstExcept => "string:first-except"
      | .other => "string:other-keyword-" ++ back
  | none => "string:off-page-" ++ back

/-- `_page_type_match`: the test that decides. -/
def matchBranch (s : Sel) (p : PageType) : String :=
  if (match s.side with | none => false | some sd => sd != p.side) then "match:side-no"
  else if s.blank && !p.blank then "match:blank-no"
  else if s.first && !(p.index == 0) then "match:first-no"
  else if (match s.name with | none => false | some n => n != p.name) then "match:name-no"
  else
    match s.index with
    | none => "match:yes-no-nth"
    | some (a, b, none) =>
      (if a == 0 then "match:nth-a0-" else if a > 0 then "match:nth-pos-" else "match:nth-neg-") ++
        (if nthMatch a b p.index then "yes" else "no")
    | some (a, b, some name) =>
      if name != p.name then "match:nth-of-name-no"
      else if p.groups.any (fun g => g.1 == name && nthMatch a b g.2) then "match:nth-of-yes"
      else if p.groups.any (fun g => g.1 == name) then "match:nth-of-no"
      else "match:nth-of-no-group"

/-- `update_counters`: outcome kind. -/
def updateBranch (st : CState) (style : CStyle) : String :=
  match updateCounters st style with
  | .ok _ =>
    "update:ok" ++ (if style.reset.any (fun p => st.scope.contains p.1) then "-reset-existing" else "") ++
      (if style.reset.any (fun p => !st.scope.contains p.1) then "-reset-new" else "") ++
      (if style.incr.isNone then (if style.listItem then "-auto-list-item" else "-auto") else "")
  | .error (.indexError "update_counters:KeyError") => "update:KeyError"
  | .error (.indexError _) => "update:IndexError"
  | .error (.assertFailed _) => "update:AssertionError"
  | .error _ => "update:other-error"

/-- `parse_page_selectors`: outcome kind and shape. -/
def parseBranch (prelude : List Tok) : String :=
  match parsePageSelectors prelude with
  | .raised _ => "parse:raised"
  | .reject =>
    -- a rejected prelude one of whose `:nth()` oracle tables holds a caught exception (`2n+`)
    if prelude.any (fun t => match t with
        | .func _ _ table => table.any (fun e => match e with | .raised c => nthCaught c | _ => false)
        | _ => false) then "parse:rejected-raising-nth"
    else "parse:rejected"
  | .ok sels =>
    "parse:ok" ++ (if sels.length > 1 then "-list" else "") ++
      (if sels.any (fun s => s.name.isSome) then "-name" else "") ++
      (if sels.any (fun s => s.index.isSome) then "-nth" else "") ++
      (if sels.any (fun s => match s.index with | some (_, _, some _) => true | _ => false) then "-of" else "") ++
      (if sels.any (fun s => s.side.isSome || s.blank || s.first) then "-pseudo" else "") ++
      (if (removeWhitespace prelude).isEmpty then "-empty" else "")

/-- Every tag the functions above can produce for well-formed inputs (for "branches never hit"). -/
def allTags : List String :=
  ["pwh:auto-inner", "pwh:both-margins-auto", "pwh:margin-a-auto", "pwh:margin-b-auto", "pwh:over-constrained",
   "minmax:free", "minmax:max", "minmax:min", "minmax:max-then-min",
   "var:noB-assert", "var:noB-fit-max", "var:noB-fit-max-zero", "var:noB-fit-min",
   "var:noB-overflow", "var:noB-overflow-zero", "var:noB-a-auto", "var:noB-c-auto", "var:noB-given"] ++
  (["b-given", "b-fit-max", "b-fit-min", "b-overflow"].flatMap (fun b =>
    ["ac-auto", "a-auto", "c-auto", "ac-given"].map (fun ac => "var:B-" ++ b ++ "-" ++ ac))) ++
  ["remake:blank-for-left", "remake:blank-for-right", "remake:blank-footnotes", "remake:left-ok", "remake:right-ok",
   "remake:no-side",
   "string:error-empty", "string:first", "string:start-on-chain", "string:last", "string:first-except"] ++
  (["string:start-fallthrough-", "string:other-keyword-", "string:off-page-"].flatMap (fun p =>
    ["earlier-page", "none", "error"].map (fun b => p ++ b))) ++
  ["match:side-no", "match:blank-no", "match:first-no", "match:name-no", "match:yes-no-nth",
   "match:nth-a0-yes", "match:nth-a0-no", "match:nth-pos-yes", "match:nth-pos-no", "match:nth-neg-yes",
   "match:nth-neg-no", "match:nth-of-name-no", "match:nth-of-yes", "match:nth-of-no", "match:nth-of-no-group",
   "update:KeyError", "update:IndexError", "update:AssertionError", "parse:rejected-raising-nth", "parse:rejected"]

end Wp.PageBranches
