/-
Vertical side of `table_layout` for one table fragment, *given* the row heights (they come from the
cells' content, which is not modelled), and an executable checker for the distribution of rows and
header/footer groups over the fragments of a split table.

* `stackY`, `fragmentGeom` ↔ the `position_y` bookkeeping of `group_layout` / `body_groups_layout` /
  `all_groups_layout`: rows follow each other `border_spacing_y` apart, a group is as high as its rows
  and the spacings between them, a cell starts at its row's top and ends at the bottom of the last
  row it spans.
* `checkFragments` : the clauses of C10 on a list of fragments (rows once and in order; header and
  footer present whenever they fit together with the first row; never a header/footer alone).
No Mathlib: linked into `driver_c10`.
-/
import WpModel.Model.Wire

namespace Wp.TableRows
open Wp

/-- Tops of rows of heights `hs` stacked from `y`, `sp` apart. -/
def stackY (sp : Rat) : Rat → List Rat → List Rat
  | _, [] => []
  | y, h :: hs => y :: stackY sp (y + h + sp) hs

/-- `position_y` after the rows. -/
def stackEnd (sp : Rat) : Rat → List Rat → Rat
  | y, [] => y
  | y, h :: hs => stackEnd sp (y + h + sp) hs

structure GroupGeom where
  y : Rat
  height : Rat
  rowYs : List Rat
  deriving Repr, DecidableEq

/-- `position_y` after the rows of one group.  `split`: the last row was cut by the page break
(`resume_at` is set): the code then does not add the spacing after it. -/
def groupEnd (sp y : Rat) (hs : List Rat) (split : Bool) : Rat :=
  if split && !hs.isEmpty then stackEnd sp y hs - sp else stackEnd sp y hs

/-- `group.height = position_y - group.position_y`, minus one spacing when the group has rows
(also after a split last row: the group box is then one spacing shorter than its rows). -/
def groupHeight (sp y : Rat) (hs : List Rat) (split : Bool) : Rat :=
  if hs.isEmpty then groupEnd sp y hs split - y else groupEnd sp y hs split - y - sp

/-- Groups (row heights, last row split?) stacked from `y`; the next group starts one spacing below
the group box (`position_y += new_group.height + border_spacing_y`). -/
def groupsGeom (sp : Rat) : Rat → List (List Rat × Bool) → List GroupGeom
  | _, [] => []
  | y, (g, split) :: gs =>
    let height := groupHeight sp y g split
    ⟨y, height, stackY sp y g⟩ :: groupsGeom sp (y + height + sp) gs

def groupsEnd (sp : Rat) : Rat → List (List Rat × Bool) → Rat
  | y, [] => y
  | y, (g, split) :: gs => groupsEnd sp (y + groupHeight sp y g split + sp) gs

/-- A cell: group index, row index in the group, rowspan. Result: (position_y, border-box height). -/
def cellV (groups : List (List Rat)) (geom : List GroupGeom) (g r rowspan : Nat) :
    Except PyErr (Rat × Rat) :=
  match groups[g]?, geom[g]? with
  | some hs, some gg =>
    let last := r + rowspan - 1
    match gg.rowYs[r]?, gg.rowYs[last]?, hs[last]? with
    | some y, some yl, some hl => .ok (y, yl + hl - y)
    | _, _, _ => .error (.indexError "rows")
  | _, _ => .error (.indexError "groups")

/-! ### pagination checker -/

structure Frag where
  hasHeader : Bool
  hasFooter : Bool
  rows : List Nat        -- indices of the body rows present, in fragment order
  y0 : Rat               -- where the first group starts
  headerH : Rat          -- header height + one spacing (0 if the table has no header)
  footerH : Rat          -- footer height + one spacing
  firstH : Rat           -- height of the first body row of the fragment + one spacing
  limit : Rat            -- page bottom minus the table's own bottom padding and border
  endY : Rat             -- bottom of the last group of the fragment
  pageBottom : Rat       -- bottom of the page's content area
  deriving Repr

/-- Header, footer and the first body row fit together on the fragment's page. -/
def Frag.fits (f : Frag) : Bool := decide (f.y0 + f.headerH + f.firstH + f.footerH ≤ f.limit)

def fragOk (n : Nat) (declH declF : Bool) (f : Frag) : Bool :=
  -- a header/footer is never the only content of a fragment unless the table has no body row
  ((!f.hasHeader && !f.hasFooter) || !f.rows.isEmpty || n == 0) &&
  -- no group that the table does not have
  (declH || !f.hasHeader) && (declF || !f.hasFooter) &&
  -- repeated whenever they fit together with at least one row
  (f.rows.isEmpty || !f.fits || ((!declH || f.hasHeader) && (!declF || f.hasFooter))) &&
  -- a fragment with more than one body row ends above the page bottom (rows, and the footer after
  -- them, are only added while they fit; a single row may overflow an otherwise empty page)
  (decide (f.rows.length ≤ 1) || decide (f.endY ≤ f.pageBottom * (1 + 1 / 1000000000)))

/-- Remove adjacent repetitions: a row cut by a page break is listed on both fragments. -/
def dedupAdj : List Nat → List Nat
  | [] => []
  | x :: rest =>
    match rest with
    | [] => [x]
    | y :: _ => if x = y then dedupAdj rest else x :: dedupAdj rest

/-- All clauses.  `labelsOnce`: the harness found the content of every body row's first cell exactly
once over all fragments (so a row listed on two consecutive fragments is a row *split* by the page
break, not a repeated one).  The body rows of the fragments, concatenated and with the split rows
merged, are `0, 1, …, n-1`; every fragment is ok. -/
def checkFragments (n : Nat) (declH declF labelsOnce : Bool) (frags : List Frag) : Bool :=
  labelsOnce && decide (dedupAdj (frags.flatMap (·.rows)) = List.range n) &&
  frags.all (fragOk n declH declF)

/-- Diagnostic for the harness. -/
def explain (n : Nat) (declH declF labelsOnce : Bool) (frags : List Frag) : String :=
  if !labelsOnce then "bad:row-content-not-once"
  else if dedupAdj (frags.flatMap (·.rows)) ≠ List.range n then "bad:rows-not-once-in-order"
  else if frags.all (fragOk n declH declF) then "ok"
  else if frags.all (fun f => decide (f.rows.length ≤ 1) || decide (f.endY ≤ f.pageBottom * (1 + 1 / 1000000000)))
  then "bad:header-footer"
  else "bad:fragment-overflows-page"

end Wp.TableRows
