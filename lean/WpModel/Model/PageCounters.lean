/-
Page-based counters during pagination: mirror of
  `TargetCollector.cache_target_page_counters` (weasyprint/css/targets.py),
  the "Update page counter values" section of `make_page` (weasyprint/layout/page.py: anchors cached at
  their first occurrence, `CounterLookupItem`s refreshed at their first occurrence, steps 1–3, the
  `parse_again` calls and the `content_changed` / `pages_wanted` flags),
  the `page_maker` entry written by `remake_page` for the following page.
The laid-out page is abstract: it is the list of what `page.descendants(placeholders=True)` shows to the
loop — for every box its `anchor` and the `(missing_link, 'content')` lookup item, if any.

Python failure points are explicit: `item.page_maker_index` on a missing target (`AttributeError`; the
former `None >= 0` TypeError and the `page_maker[i]` IndexError are gone with da41776, the constructors
stay for the line protocol).
No Mathlib, no Std: linked into the compiled driver.
-/
import WpModel.Model.Wire

namespace Wp.PageCounters

inductive PErr where
  | attributeError | typeError | indexError
  deriving Repr, DecidableEq

def PErr.render : PErr → String
  | .attributeError => "err:AttributeError"
  | .typeError => "err:TypeError"
  | .indexError => "err:IndexError"

/-- `page_counter_values`: name → stack; keys unique and sorted (the harness canonicalises), so dict
equality is list equality. -/
abbrev Vals := List (String × List Int)

def vhas (v : Vals) (n : String) : Bool := v.any (·.1 == n)

/-- `TargetLookupItem` (only `up-to-date` items take part). -/
structure TargetItem where
  upToDate : Bool
  index : Option Nat
  cached : Vals
  deriving Repr, DecidableEq

/-- `CounterLookupItem`; `content` is `css_token == 'content'`. Its key is its position in
`counter_lookup_items`. -/
structure LookupItem where
  content : Bool
  missing : List String
  missingTarget : List (String × List String)
  index : Option Nat
  pending : Bool
  cached : Vals
  deriving Repr, DecidableEq

/-- `remake_state`. -/
structure Remake where
  contentChanged : Bool
  pagesWanted : Bool
  anchors : List String
  lookups : List Nat
  deriving Repr, DecidableEq

structure PState where
  collecting : Bool
  targets : List (String × TargetItem)
  lookups : List LookupItem
  pageMaker : List Remake
  calls : List (Nat × Vals)      -- log of `parse_again(mixin)` calls: (lookup key, mixin)
  deriving Repr, DecidableEq

def tget (ts : List (String × TargetItem)) (a : String) : Option TargetItem :=
  match ts with
  | [] => none
  | (k, t) :: rest => if k = a then some t else tget rest a

def tset (ts : List (String × TargetItem)) (a : String) (t : TargetItem) : List (String × TargetItem) :=
  match ts with
  | [] => []
  | (k, x) :: rest => if k = a then (k, t) :: rest else (k, x) :: tset rest a t

def aget (l : List (String × List String)) (a : String) : Option (List String) :=
  match l with
  | [] => none
  | (k, v) :: rest => if k = a then some v else aget rest a

def setAt {α} (l : List α) (i : Nat) (f : α → α) : List α :=
  match l, i with
  | [], _ => []
  | x :: rest, 0 => f x :: rest
  | x :: rest, i + 1 => x :: setAt rest i f

/-- `item.page_maker_index is None or item.page_maker_index >= len(page_maker)`. -/
def isStale (l : LookupItem) (len : Nat) : Bool :=
  match l.index with
  | none => true
  | some i => decide (i ≥ len)

/-- One iteration of the loop of `cache_target_page_counters` over `counter_lookup_items` ("spread the
news") for the item at position `k`. -/
def spreadStep (anchor : String) (pcv : Vals) (k : Nat) (l : LookupItem) (st : PState) : PState :=
  if !l.content then st
  else match aget l.missingTarget anchor with
    | none => st
    | some missing =>
      if isStale l st.pageMaker.length then
        -- Pending marker for remake_page
        { st with lookups := setAt st.lookups k fun x => { x with pending := true } }
      else if missing.any (vhas pcv) then
        -- `remake_state['content_changed'] = True; item.parse_again(item.cached_page_counter_values)`
        { st with pageMaker := setAt st.pageMaker (l.index.getD 0) fun r => { r with contentChanged := true }
                  calls := st.calls ++ [(k, l.cached)] }
      else st

def spread (anchor : String) (pcv : Vals) : Nat → List LookupItem → PState → PState
  | _, [], st => st
  | k, l :: rest, st => spread anchor pcv (k + 1) rest (spreadStep anchor pcv k l st)

/-- `cache_target_page_counters(anchor_name, page_counter_values, page_maker_index, page_maker)`. -/
def cacheTarget (st : PState) (anchor : String) (pcv : Vals) (pageIndex : Nat) : PState :=
  if st.collecting then st
  else match tget st.targets anchor with
    | none => st
    | some item =>
      if !item.upToDate then st
      else
        let changed := decide (item.cached ≠ pcv)
        let item' : TargetItem := { item with index := some pageIndex, cached := if changed then pcv else item.cached }
        let st := { st with targets := tset st.targets anchor item' }
        if changed then spread anchor pcv 0 st.lookups st else st

/-- Step 3 of the loop body: targeted `pages` counters.  Since da41776 the page of the target is marked
`pages_wanted` whenever it is known (`page_maker_index is not None`) and still exists
(`< len(page_maker)`), for forward and backward references alike; before, `None >= 0` raised TypeError
for a target on a later page and the mark was given only to anchors already cached. -/
def step3Targets : List (String × List String) → PState → Except PErr PState
  | [], st => .ok st
  | (anchorName, missed) :: rest, st =>
    if !missed.contains "pages" then step3Targets rest st
    else match tget st.targets anchorName with
      | none => .error .attributeError
      | some item =>
        match item.index with
        | none => step3Targets rest st
        | some idx =>
          if idx < st.pageMaker.length then
            step3Targets rest
              { st with pageMaker := setAt st.pageMaker idx fun r => { r with pagesWanted := true } }
          else step3Targets rest st

/-- One box of `page.descendants(placeholders=True)`: its `anchor` and its content lookup item. -/
structure Event where
  anchor : Option String
  lookup : Option Nat
  deriving Repr, DecidableEq

structure Acc where
  st : PState
  cachedAnchors : List String
  cachedLookups : List Nat

/-- Steps 1 and 2 of the loop body on the lookup item itself: the updated item, `call_parse_again`, and
whether `remake_state['pages_wanted']` is set. -/
def step12 (pcv : Vals) (refresh : Bool) (l : LookupItem) : LookupItem × Bool × Bool :=
  -- Step 1: page based back-references (marked as pending by cache_target_page_counters)
  let l1 : LookupItem :=
    if l.pending then { l with cached := if pcv ≠ l.cached then pcv else l.cached, pending := false } else l
  let call1 := l.pending
  -- Step 2: local counters
  if !l1.missing.isEmpty then
    let wanted := l1.missing.contains "pages"
    if refresh && pcv ≠ l1.cached then
      ({ l1 with cached := pcv }, call1 || l1.missing.any (vhas pcv), wanted)
    else (l1, call1, wanted)
  else (l1, call1, false)

/-- The lookup item as steps 1–2 see it: `counter_lookup.page_maker_index = page_number - 1` at its first
occurrence. -/
def placed (cur : Nat) (refresh : Bool) (l0 : LookupItem) : LookupItem :=
  if refresh then { l0 with index := some cur } else l0

/-- The state after steps 1–2 (before step 3) for the lookup item `key` = `l0`. -/
def prepared (cur : Nat) (pcv : Vals) (refresh : Bool) (key : Nat) (l0 : LookupItem) (st : PState) : PState :=
  let r := step12 pcv refresh (placed cur refresh l0)
  let pm := if refresh then setAt st.pageMaker cur fun x => { x with lookups := x.lookups ++ [key] } else st.pageMaker
  let pm := if r.2.2 then setAt pm cur fun x => { x with pagesWanted := true } else pm
  { st with lookups := setAt st.lookups key fun _ => r.1, pageMaker := pm }

/-- The part of the loop body that handles the `(missing_link, 'content')` lookup item `key`. -/
def lookupBody (cur : Nat) (pcv : Vals) (refresh : Bool) (key : Nat) (st : PState) :
    Except PErr PState :=
  match st.lookups[key]? with
  | none => .ok st
  | some l0 =>
    let r := step12 pcv refresh (placed cur refresh l0)
    -- Step 3: targeted counters
    match step3Targets r.1.missingTarget (prepared cur pcv refresh key l0 st) with
    | .error e => .error e
    | .ok st =>
      .ok (if r.2.1 then
          { st with pageMaker := setAt st.pageMaker cur fun x => { x with contentChanged := true }
                    calls := st.calls ++ [(key, pcv)] }
        else st)

/-- The body of `for child in page.descendants(placeholders=True)`. `cur` is `page_number - 1`. -/
def eventStep (cur : Nat) (pcv : Vals) (acc : Acc) (e : Event) : Except PErr Acc :=
  -- Cache target's page counters (first occurrence of the anchor only)
  let acc := match e.anchor with
    | some a =>
      if a ≠ "" && !acc.cachedAnchors.contains a then
        let st := { acc.st with pageMaker := setAt acc.st.pageMaker cur fun r => { r with anchors := r.anchors ++ [a] } }
        { acc with st := cacheTarget st a pcv cur, cachedAnchors := acc.cachedAnchors ++ [a] }
      else acc
    | none => acc
  match e.lookup with
  | none => .ok acc
  | some key =>
    if (acc.st.lookups[key]?).isNone then .ok acc
    else
      let refresh := !acc.cachedLookups.contains key
      match lookupBody cur pcv refresh key acc.st with
      | .error e => .error e
      | .ok st => .ok { acc with st := st, cachedLookups := if refresh then acc.cachedLookups ++ [key] else acc.cachedLookups }

def eventsLoop (cur : Nat) (pcv : Vals) : List Event → Acc → Except PErr Acc
  | [], acc => .ok acc
  | e :: rest, acc => do eventsLoop cur pcv rest (← eventStep cur pcv acc e)

/-- The counter section of `make_page(…, page_number, …)` on the laid-out page `events`. -/
def counterSection (st : PState) (pageNumber : Nat) (pcv : Vals) (events : List Event) : Except PErr PState := do
  let cur := pageNumber - 1
  let earlier := st.pageMaker.take cur
  let acc : Acc := ⟨st, earlier.flatMap (·.anchors), earlier.flatMap (·.lookups)⟩
  let acc ← eventsLoop cur pcv events acc
  pure acc.st

/-- `remake_page`: the `remake_state` of the entry written for the following page, when it is new or
changed: "Setting content_changed to True ensures remake. If resume_at is None (last page) it must be
False" (#794).  `none`: the existing entry is kept. -/
def nextEntry (isNew changed resumeIsNone : Bool) : Option Remake :=
  if isNew || changed then some ⟨!resumeIsNone, false, [], []⟩ else none

end Wp.PageCounters
