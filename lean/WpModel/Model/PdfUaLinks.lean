/-
Model of what `weasyprint/pdf/pdfua.py::pdfua` does with link annotations (PDF/UA structure tree):

  for every page, for every marked-content sequence `(key, box)` of `page_stream.marked` (mcid = its index):
      `kids = [mcid]`
      `if key == 'Link':` an object reference `{Type /OBJR, Obj box.link_annotation.reference, Pg page}` is added to the
                          PDF and `(object_reference, box.link_annotation)` appended to `links`
      … the structure element created (or extended) for the sequence gets `K = kids` — the marked-content identifier only
  `Nums` gets `page_number ↦ [parents …]` per page, then
  `for i, (link, annotation) in enumerate(links, start=page_number + 1):`
      `Nums` gets `i ↦ link` (the object reference itself) and `annotation['StructParent'] = i`

The tree of ancestors built by the `while True` loop is not modelled: it only ever receives `kids` (an integer) and
references to structure elements, never an object reference.  No Mathlib.
-/
import WpModel.Model.Wire

namespace Wp.PdfUa

/-- One entry of `page_stream.marked`: the structure type and, for a `Link`, the object number of
`box.link_annotation`. -/
structure Marked where
  key : String
  annot : Nat := 0
  deriving DecidableEq, Repr

/-- A kid of a structure element. -/
inductive Kid where
  | mcid (n : Nat)
  | objr (index : Nat)          -- the `index`-th object reference created
  deriving DecidableEq, Repr

/-- A value of the `/ParentTree` number tree. -/
inductive Entry where
  | page                         -- the array of parents of the page's marked-content sequences
  | objr (index : Nat)           -- an object reference dictionary (what this code writes for an annotation)
  | elem (page mcid : Nat)       -- a structure element (what ISO 32000-1 14.7.4.4 asks for)
  deriving DecidableEq, Repr

structure UaLinks where
  /-- `K` of the structure element that receives each marked-content sequence: per page, per mcid. -/
  leafKids : List (List (List Kid)) := []
  /-- `links`: the annotation of each object reference, in creation order. -/
  objrs : List Nat := []
  /-- the `Nums` array. -/
  nums : List (Nat × Entry) := []
  /-- `annotation['StructParent'] = i`: (annotation, i). -/
  structParent : List (Nat × Nat) := []
  deriving DecidableEq, Repr

/-- `kids = [mcid]` — the object reference of a `Link` is *not* among them. -/
def kidsOf (mcid : Nat) (_m : Marked) : List Kid := [.mcid mcid]

/-- The annotations of the `Link` sequences of one page, in order. -/
def pageLinks (marked : List Marked) : List Nat := (marked.filter (·.key == "Link")).map (·.annot)

/-- `enumerate(links, start=page_number + 1)` with `page_number` the index of the last page (`-1` without pages). -/
def numberLinks (start : Nat) : Nat → List Nat → List (Nat × Nat × Nat)     -- (i, objr index, annotation)
  | _, [] => []
  | k, a :: rest => (start + k, k, a) :: numberLinks start (k + 1) rest

def pdfuaLinks (pages : List (List Marked)) : UaLinks :=
  let links := pages.flatMap pageLinks
  let numbered := numberLinks pages.length 0 links
  { leafKids := pages.map (fun marked => (List.range marked.length).zip marked |>.map (fun p => kidsOf p.1 p.2))
    objrs := links
    nums := (List.range pages.length).map (fun p => (p, Entry.page)) ++ numbered.map (fun t => (t.1, Entry.objr t.2.1))
    structParent := numbered.map (fun t => (t.2.2, t.1)) }

/-- ISO 32000-1 14.7.4.3: an object reference is a kid of a structure element. -/
def objrIsKid (u : UaLinks) (index : Nat) : Bool :=
  u.leafKids.any (fun page => page.any (fun kids => kids.contains (.objr index)))

/-- ISO 32000-1 14.7.4.4: the `/ParentTree` entry of an annotation's `/StructParent` is its parent structure element. -/
def entryIsElem : Entry → Bool
  | .elem .. => true
  | _ => false

end Wp.PdfUa
