/-
Page sides, blank pages, page-based counters and named strings: mirror of
  weasyprint/layout/__init__.py  `initialize_page_maker` (right_page), `LayoutContext.get_string_or_element_for`,
                                 the `pages` update of the `layout_document` loop body,
  weasyprint/layout/page.py      `remake_page` (next_page_side / blank / name / side, `right_page = not right_page`),
                                 `_standardize_page_based_counters`,
  weasyprint/formatting_structure/build.py  `update_counters` (as called on a page state / margin state).
Python failure points (`assert`, `[].pop()`, `[][0]`) are explicit (`Except PyErr`).
No Mathlib, no Std: linked into the compiled driver.
-/
import WpModel.Model.Wire
import WpModel.Model.BreakTypes

namespace Wp.PageState
open Wp

/-! ## Sides and blank pages -/

/-- `next_page['break']`: `'any'` or a resolved break value. -/
inductive NextBreak where
  | any
  | brk (b : Brk)
  deriving Repr, DecidableEq, BEq, Inhabited

inductive Side where
  | left | right
  deriving Repr, DecidableEq, BEq, Inhabited

def Side.toCss : Side → String
  | .left => "left"
  | .right => "right"

/-- `initialize_page_maker`: `right_page` from the root box's `break-before` and `direction`
(`ltr = (direction == 'ltr')`; the only other value is `'rtl'`). -/
def initRightPage (rootBreak : Brk) (ltr : Bool) : Bool :=
  match rootBreak with
  | .right => true
  | .left => false
  | .recto => ltr
  | .verso => !ltr
  | _ => ltr

/-- `remake_page`: `next_page_side`. -/
def nextPageSide (nb : NextBreak) (ltr : Bool) : Option Side :=
  match nb with
  | .brk .left => some .left
  | .brk .right => some .right
  | .brk .recto => if Bool.xor ltr false then some .right else some .left     -- direction_ltr ^ break_verso
  | .brk .verso => if Bool.xor ltr true then some .right else some .left
  | _ => none

/-- `remake_page`: `blank`; `fn` is `context.reported_footnotes and resume_at is None`. -/
def blankPage (side : Option Side) (rightPage : Bool) (fn : Bool) : Bool :=
  (side == some .left && rightPage) || (side == some .right && !rightPage) || fn

/-- What `remake_page` derives for the page it is about to make. -/
structure PageHead where
  side : Side
  blank : Bool
  name : String
  index : Nat
  deriving Repr, DecidableEq, BEq, Inhabited

/-- `remake_page(index, …)` up to `PageType(side, blank, name, index, groups)`; second component:
the `right_page` stored for the next page (`right_page = not right_page`). -/
def remakeHead (index : Nat) (nb : NextBreak) (nextName : String) (rightPage ltr fn : Bool) : PageHead × Bool :=
  let blank := blankPage (nextPageSide nb ltr) rightPage fn
  ({ side := if rightPage then .right else .left, blank := blank,
     name := if blank then "" else nextName, index := index }, !rightPage)

/-- A request for a new page as left by the layout of the previous one: `next_page`. -/
structure Request where
  nb : NextBreak
  name : String
  deriving Repr, DecidableEq, BEq, Inhabited

/-- The pages made for one request: a blank page leaves `resume_at` and `next_page` unchanged
(`make_page`: `next_page = page_maker[page_number - 1][1]`), so `remake_page` runs again with the
same request and the flipped `right_page`.  Two runs always suffice (`Props.C14.second_not_blank`);
the model performs the second run literally and reports what it gives. -/
def pagesForRequest (index : Nat) (r : Request) (rightPage ltr : Bool) : List PageHead × Bool :=
  let (h1, rp1) := remakeHead index r.nb r.name rightPage ltr false
  if h1.blank then
    let (h2, rp2) := remakeHead (index + 1) r.nb r.name rp1 ltr false
    ([h1, h2], rp2)
  else ([h1], rp1)

/-- All pages of a document given the successive requests (`make_all_pages` without re-makes). -/
def pageSequence (ltr : Bool) : List Request → Nat → Bool → List PageHead
  | [], _, _ => []
  | r :: rs, index, rightPage =>
    let (hs, rp) := pagesForRequest index r rightPage ltr
    hs ++ pageSequence ltr rs (index + hs.length) rp

/-! ## Page-based counters -/

/-- `counter_values`: an insertion-ordered dict `name → stack`. -/
abbrev CounterValues := List (String × List Int)

/-- A `(quote_depth, counter_values, counter_scopes)` state as far as `update_counters` uses it:
the values and the last scope. -/
structure CState where
  values : CounterValues
  scope : List String
  deriving Repr, DecidableEq, BEq, Inhabited

/-- `initialize_page_maker`: `({'pages': [0]}, [{'pages'}])`. -/
def initialState : CState := ⟨[("pages", [0])], ["pages"]⟩

def getStack (vs : CounterValues) (name : String) : Option (List Int) :=
  match vs with
  | [] => none
  | (n, s) :: rest => if n == name then some s else getStack rest name

/-- `d[name] = stack` keeping the insertion order. -/
def setStack (vs : CounterValues) (name : String) (stack : List Int) : CounterValues :=
  match vs with
  | [] => [(name, stack)]
  | (n, s) :: rest => if n == name then (n, stack) :: rest else (n, s) :: setStack rest name stack

/-- `stack[-1] = f(stack[-1])` on a non-empty stack. -/
def mapLast (f : Int → Int) : List Int → List Int
  | [] => []
  | [x] => [f x]
  | x :: rest => x :: mapLast f rest

/-- The three `counter-*` properties of a style; `incr = none` is `'auto'`. -/
structure CStyle where
  reset : List (String × Int)
  set : List (String × Int)
  incr : Option (List (String × Int))
  listItem : Bool := false
  deriving Repr, DecidableEq, BEq, Inhabited

/-- One `counter-reset` entry. -/
def resetOne (st : CState) (name : String) (value : Int) : Except PyErr CState :=
  if st.scope.contains name then
    -- counter_values[name].pop()
    match getStack st.values name with
    | none => .error (.indexError "update_counters:KeyError")
    | some [] => .error (.indexError "update_counters:pop")
    | some stack => .ok { st with values := setStack st.values name (stack.dropLast ++ [value]) }
  else
    let stack := (getStack st.values name).getD []   -- setdefault(name, [])
    .ok { values := setStack st.values name (stack ++ [value]), scope := st.scope ++ [name] }

/-- One `counter-set` / `counter-increment` entry (`f` is `fun _ => v` or `(· + v)`). -/
def touchOne (st : CState) (name : String) (f : Int → Int) : Except PyErr CState :=
  let stack := (getStack st.values name).getD []     -- setdefault(name, [])
  if stack.isEmpty then
    if st.scope.contains name then .error (.assertFailed "update_counters:scope")
    else .ok { values := setStack st.values name [f 0], scope := st.scope ++ [name] }
  else .ok { st with values := setStack st.values name (mapLast f stack) }

/-- `build.update_counters(state, style)`. -/
def updateCounters (st : CState) (style : CStyle) : Except PyErr CState := do
  let st ← style.reset.foldlM (fun st (n, v) => resetOne st n v) st
  let st ← style.set.foldlM (fun st (n, v) => touchOne st n (fun _ => v)) st
  let incr := match style.incr with
    | some l => l
    | none => if style.listItem then [("list-item", 1)] else []
  incr.foldlM (fun st (n, v) => touchOne st n (· + v)) st

/-- The `counter-*` properties as found in a computed style: each `'auto'` (`none`) or a list. -/
structure RawCStyle where
  set : Option (List (String × Int))
  reset : Option (List (String × Int))
  incr : Option (List (String × Int))
  deriving Repr, DecidableEq, BEq, Inhabited

def dropPages (l : List (String × Int)) : List (String × Int) := l.filter (fun p => p.1 != "pages")
def touchesPage (l : Option (List (String × Int))) : Bool :=
  match l with
  | none => false
  | some l => l.any (fun p => p.1 == "page")
def justify (l : Option (List (String × Int))) : List (String × Int) :=
  match l with
  | none => []
  | some l => dropPages l

/-- `_standardize_page_based_counters(style, pseudo_type)`; `isPage` is `pseudo_type is None`. -/
def standardize (s : RawCStyle) (isPage : Bool) : CStyle :=
  let touched := touchesPage s.set || touchesPage s.reset || touchesPage s.incr
  let incr := justify s.incr
  { reset := justify s.reset, set := justify s.set,
    incr := some (if isPage && !touched then ("page", 1) :: incr else incr) }

/-- `page_counter_values['pages'] = [actual_total_pages]`. -/
def setPages (st : CState) (n : Nat) : CState := { st with values := setStack st.values "pages" [n] }

/-- The page states `page_maker[1..]` of a document whose pages have the given `@page` counter
styles: state of page `i` = `update_counters(deepcopy(state of page i-1), standardized style)`. -/
def pageStates : List RawCStyle → CState → Except PyErr (List CState)
  | [], _ => .ok []
  | s :: rest, st =>
    match updateCounters st (standardize s true) with
    | .error e => .error e
    | .ok st' =>
      match pageStates rest st' with
      | .error e => .error e
      | .ok l => .ok (st' :: l)

/-- The state seen by a margin box: deep copy, `counter_scopes.append(set())`, `update_counters`. -/
def marginState (st : CState) (s : RawCStyle) : Except PyErr CState :=
  updateCounters { st with scope := [] } (standardize s false)

/-- `counter(name)`: `counter_values.get(name, [0])[-1]` (`compute_content_list`). -/
def counterValue (st : CState) (name : String) : Except PyErr Int :=
  match getStack st.values name with
  | none => .ok 0
  | some stack =>
    match stack.getLast? with
    | some v => .ok v
    | none => .error (.indexError "compute_content_list:counter")

/-! ## string() / element() -/

inductive Keyword where
  | first | start | last | firstExcept | other
  deriving Repr, DecidableEq, BEq, Inhabited

/-- `store[name]`: `page number → assignments on that page` (a dict: first matching key). -/
abbrev NameStore := List (Nat × List String)

def storeGet (s : NameStore) (page : Nat) : Option (List String) :=
  match s with
  | [] => none
  | (p, v) :: rest => if p == page then some v else storeGet rest page

/-- `for previous_page in range(current_page - 1, 0, -1): if previous_page in store[name]:
return store[name][previous_page][-1]`, counting down from `p`. -/
def searchBack (s : NameStore) : Nat → Except PyErr (Option String)
  | 0 => .ok none
  | p + 1 =>
    match storeGet s (p + 1) with
    | some vals =>
      match vals.getLast? with
      | some v => .ok (some v)
      | none => .error (.indexError "get_string_or_element_for:last")
    | none => searchBack s p

/-- `LayoutContext.get_string_or_element_for(store, page, name, keyword)`.
`chain`: for each box of the first-descendant chain starting at the page box
(`element = element.children[0]`), whether its `string-set` style names `name`. -/
def getStringFor (s : NameStore) (current : Nat) (kw : Keyword) (chain : List Bool) :
    Except PyErr (Option String) :=
  let back := searchBack s (current - 1)
  match storeGet s current with
  | some vals =>
    match vals.head?, vals.getLast? with
    | some firstS, some lastS =>
      match kw with
      | .first => .ok (some firstS)
      | .start => if chain.any id then .ok (some firstS) else back
      | .last => .ok (some lastS)
      | .firstExcept => .ok none
      | .other => back
    | _, _ => .error (.indexError "get_string_or_element_for:first")
  | none => back

end Wp.PageState
