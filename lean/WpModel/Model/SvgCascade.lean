/-
Model of the attribute inheritance of SVG nodes, `weasyprint/svg/__init__.py::Node.cascade` (the
"Cascade" loop and the "Handle 'inherit' values" loop; no style sheet, no `style` attribute, not a colour
attribute holding `currentColor`), for one attribute at a time:

    for key, value in self.attrib.items():
        if key not in NOT_INHERITED_ATTRIBUTES:
            if key not in child.attrib:
                child.attrib[key] = value
    …
    for key, value in child.attrib.copy().items():
        if value == 'inherit':
            value = self.get(key)
            if value is None: del child.attrib[key]
            else: child.attrib[key] = value

`NOT_INHERITED_ATTRIBUTES` is a parameter here; the driver and the theorems use the table regenerated
from the source (`Gen/SvgNotInherited.lean`).  The root node is built without a cascade (`SVG.__init__`:
`self.tree = Node(wrapper, style)`), children by `Node.__iter__` (`Node(wrapper, style)` then
`self.cascade(child)`), so the attributes of a node at depth n are the fold of `cascadeAttr` along its
ancestors.
No Mathlib: linked into `driver_c13`.
-/
import WpModel.Model.SvgViewport

namespace Wp.SvgViewport

/-- The value of attribute `key` on a child after `parent.cascade(child)`: `parent` is `self.get(key)`
(the parent's attribute after its own cascade), `own` the attribute written on the child element. -/
def cascadeAttr (notInherited : List String) (key : String) (parent own : Option String) : Option String :=
  let v := match own with
    | some v => some v
    | none => if notInherited.contains key then none else parent
  match v with
  | some s => if s == "inherit" then parent else some s
  | none => none

/-- The attribute on the last element of a chain root → … → node (`own` values as written in the source);
`none` for an empty chain. -/
def chainAttr (notInherited : List String) (key : String) : List (Option String) → Option String
  | [] => none
  | root :: rest => rest.foldl (cascadeAttr notInherited key) root

/-- `node.get('preserveAspectRatio', 'xMidYMid')` as `preserve_ratio` reads it. -/
def effectivePar (notInherited : List String) (chain : List (Option String)) : String :=
  (chainAttr notInherited "preserveAspectRatio" chain).getD "xMidYMid"

/-- `svg/images.py::image` as a whole: `hasHref` = `node.get_href(…)` is truthy, `loaded` = what
`svg.context.get_image_from_uri` returns is not `None`.  Result: whether the image loader was asked at all
(`if not url: return` — repair 799e002: an `<image>` without `href` used to hand `url=None` to the caller's
URL fetcher), and the box `(width, height, intrinsic_width, intrinsic_height)` the image is drawn in, `none`
when nothing is drawn. -/
def imageElement (hasHref loaded : Bool) (width height : Rat) (iw ih ir : Option Rat) :
    Except Err (Bool × Option (Rat × Rat × Rat × Rat)) :=
  if !hasHref then .ok (false, none)
  else if !loaded then .ok (true, none)
  else match imageBox width height iw ih ir with
    | .ok b => .ok (true, some b)
    | .error e => .error e

end Wp.SvgViewport
