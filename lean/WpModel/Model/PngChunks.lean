/-
Model of `weasyprint/images.py::RasterImage._get_png_data`: the walk over the chunks of the PNG file that
Pillow has just written, which keeps the payload of the `IDAT` chunks (the zlib stream that becomes the
`/FlateDecode` data of the image XObject, bit for bit) and skips everything else.

    image_file.seek(8)                                   # the PNG signature
    raw_chunk_length = image_file.read(4)
    while raw_chunk_length:
        chunk_length, = struct.unpack('!I', raw_chunk_length)      # struct.error unless 4 bytes were read
        chunk_type = image_file.read(4)
        if chunk_type == b'IDAT': png_data.append(image_file.read(chunk_length))
        else: image_file.seek(chunk_length, io.SEEK_CUR)
        image_file.seek(4, io.SEEK_CUR)                  # the CRC
        raw_chunk_length = image_file.read(4)
    return b''.join(png_data)

`io.BytesIO` semantics are mirrored: `read(n)` returns the bytes that are left when fewer than `n` remain,
seeking past the end is allowed and a later `read` returns `b''`.  Bytes are `Nat`s below 256.
No Mathlib: linked into `driver_c13`.
-/
import WpModel.Model.Wire

namespace Wp.PngChunks

inductive Err where
  | structError (site : String)      -- `struct.unpack('!I', …)` on 1 – 3 bytes
  deriving Repr, DecidableEq

/-- Same string as `harness.docs.outcome` (the exception class of `struct.error` is named `error`). -/
def Err.render : Err → String
  | .structError _ => "err:error"

/-- `struct.unpack('!I', bytes([a, b, c, d]))`. -/
def be32 (a b c d : Nat) : Nat := ((a * 256 + b) * 256 + c) * 256 + d

/-- `b'IDAT'`. -/
def idat : List Nat := [73, 68, 65, 84]

/-- The loop, on the bytes that are left at `raw_chunk_length = image_file.read(4)`; `fuel` bounds the
number of iterations (each one consumes at least the four length bytes: `bytes.length` is enough). -/
def loop : Nat → List Nat → List Nat → Except Err (List Nat)
  | 0, _, acc => .ok acc
  | fuel + 1, rest, acc =>
    match rest with
    | [] => .ok acc                                             -- `while raw_chunk_length:` — b'' ends the loop
    | a :: b :: c :: d :: rest1 =>
      let len := be32 a b c d
      let type := rest1.take 4
      let rest2 := rest1.drop 4
      let acc := if type == idat then acc ++ rest2.take len else acc
      loop fuel ((rest2.drop len).drop 4) acc
    | _ => .error (.structError "_get_png_data.unpack")         -- 1 – 3 bytes left

/-- `_get_png_data` on the bytes of the file written by `pillow_image.save(image_file, format='PNG')`. -/
def getPngData (file : List Nat) : Except Err (List Nat) :=
  loop (file.length + 1) (file.drop 8) []

/-- A PNG chunk: its four type bytes, its data, its four CRC bytes. -/
structure Chunk where
  type : List Nat
  data : List Nat
  crc : List Nat
  deriving Repr, DecidableEq

/-- The four big-endian bytes of a length. -/
def lenBytes (n : Nat) : List Nat := [n / 16777216 % 256, n / 65536 % 256, n / 256 % 256, n % 256]

/-- How a chunk is laid out in the file (PNG specification, 5.3). -/
def Chunk.encode (c : Chunk) : List Nat := lenBytes c.data.length ++ c.type ++ c.data ++ c.crc

def encodeAll : List Chunk → List Nat
  | [] => []
  | c :: rest => c.encode ++ encodeAll rest

/-- The concatenated payload of the `IDAT` chunks, in file order: the image data of the PNG (PNG
specification, 10.1: "the concatenation of the contents of all the IDAT chunks makes up a zlib datastream"). -/
def idatPayload : List Chunk → List Nat
  | [] => []
  | c :: rest => (if c.type == idat then c.data else []) ++ idatPayload rest

end Wp.PngChunks
