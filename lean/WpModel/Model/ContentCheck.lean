/-
Executable checker for one PDF content stream (the operators of a page, form XObject, tiling pattern or soft-mask
group, with the resource dictionary in effect for that stream).

It accepts a stream iff
  * `q/Q`, `BT/ET`, `BMC|BDC/EMC` are properly nested brackets, all closed at the end;
  * no `q Q cm`, path construction / painting / clipping, `Do`, `sh`, inline image, `BT` inside a text object and no
    text-positioning / text-showing operator outside one (PDF 32000-1 §8.2 figure 9, §9.4.1);
  * every operator is a PDF content operator with the operand count of PDF 32000-1 Annex A;
  * every name used by `gs Do sh Tf cs CS scn SCN BDC DP` is a key of the matching resource sub-dictionary.
`Props/C16.lean` proves the checker sound against a declarative statement of these clauses (`check_sound`), and proves
that the stream model of `Model/PdfStream.lean` only produces accepted bracket structures (`balanced`).
No Mathlib.
-/
import WpModel.Model.PdfStream

namespace Wp.Pdf

inductive Cat where
  | extGState | xObject | pattern | shading | colorSpace | font | properties
  deriving DecidableEq, Repr

structure Tok where
  cls : TC
  ref : Option (Cat × String) := none    -- resource name the operator refers to
  wellFormed : Bool := true               -- known operator with the right number of operands
  deriving DecidableEq, Repr

/-- Names per resource category of the dictionary in effect. -/
structure ResNames where
  extGState : List String := []
  xObject : List String := []
  pattern : List String := []
  shading : List String := []
  colorSpace : List String := []
  font : List String := []
  properties : List String := []
  deriving Repr

def ResNames.get (r : ResNames) : Cat → List String
  | .extGState => r.extGState | .xObject => r.xObject | .pattern => r.pattern | .shading => r.shading
  | .colorSpace => r.colorSpace | .font => r.font | .properties => r.properties

/-- Operand count rule. -/
inductive Arity where
  | exact (n : Nat)
  | between (lo hi : Nat)
  deriving Repr

def Arity.ok : Arity → Nat → Bool
  | .exact n, k => n == k
  | .between lo hi, k => lo ≤ k && k ≤ hi

/-- PDF 32000-1 Annex A: operator ↦ (class, operand count, resource category of its name operand). -/
def opTable : List (String × TC × Arity × Option Cat) := [
  ("q", .q, .exact 0, none), ("Q", .Q, .exact 0, none), ("cm", .graphics, .exact 6, none),
  ("w", .free, .exact 1, none), ("J", .free, .exact 1, none), ("j", .free, .exact 1, none),
  ("M", .free, .exact 1, none), ("d", .free, .exact 2, none), ("ri", .free, .exact 1, none),
  ("i", .free, .exact 1, none), ("gs", .free, .exact 1, some .extGState),
  ("m", .graphics, .exact 2, none), ("l", .graphics, .exact 2, none), ("c", .graphics, .exact 6, none),
  ("v", .graphics, .exact 4, none), ("y", .graphics, .exact 4, none), ("h", .graphics, .exact 0, none),
  ("re", .graphics, .exact 4, none),
  ("S", .graphics, .exact 0, none), ("s", .graphics, .exact 0, none), ("f", .graphics, .exact 0, none),
  ("F", .graphics, .exact 0, none), ("f*", .graphics, .exact 0, none), ("B", .graphics, .exact 0, none),
  ("B*", .graphics, .exact 0, none), ("b", .graphics, .exact 0, none), ("b*", .graphics, .exact 0, none),
  ("n", .graphics, .exact 0, none), ("W", .graphics, .exact 0, none), ("W*", .graphics, .exact 0, none),
  ("BT", .BT, .exact 0, none), ("ET", .ET, .exact 0, none),
  ("Tc", .free, .exact 1, none), ("Tw", .free, .exact 1, none), ("Tz", .free, .exact 1, none),
  ("TL", .free, .exact 1, none), ("Tf", .free, .exact 2, some .font), ("Tr", .free, .exact 1, none),
  ("Ts", .free, .exact 1, none),
  ("Td", .textOnly, .exact 2, none), ("TD", .textOnly, .exact 2, none), ("Tm", .textOnly, .exact 6, none),
  ("T*", .textOnly, .exact 0, none),
  ("Tj", .textOnly, .exact 1, none), ("TJ", .textOnly, .exact 1, none), ("'", .textOnly, .exact 1, none),
  ("\"", .textOnly, .exact 3, none),
  ("d0", .free, .exact 2, none), ("d1", .free, .exact 6, none),
  ("CS", .free, .exact 1, some .colorSpace), ("cs", .free, .exact 1, some .colorSpace),
  ("SC", .free, .between 1 4, none), ("sc", .free, .between 1 4, none),
  ("SCN", .free, .between 1 5, some .pattern), ("scn", .free, .between 1 5, some .pattern),
  ("G", .free, .exact 1, none), ("g", .free, .exact 1, none), ("RG", .free, .exact 3, none),
  ("rg", .free, .exact 3, none), ("K", .free, .exact 4, none), ("k", .free, .exact 4, none),
  ("sh", .graphics, .exact 1, some .shading),
  ("BI", .graphics, .exact 0, none),
  ("Do", .graphics, .exact 1, some .xObject),
  ("MP", .free, .exact 1, none), ("DP", .free, .exact 2, some .properties),
  ("BMC", .bmark, .exact 1, none), ("BDC", .bmark, .exact 2, some .properties), ("EMC", .emark, .exact 0, none),
  ("BX", .free, .exact 0, none), ("EX", .free, .exact 0, none)]

/-- Colour spaces that need no resource entry. -/
def builtinColorSpaces : List String := ["DeviceGray", "DeviceRGB", "DeviceCMYK", "Pattern"]

/-- Token of an operator as the tokenizer reports it: name, operand count, and the *last* operand when it is a name
(`none` when the last operand is not a name: e.g. `scn` with numbers only, `BDC` with an inline dictionary). -/
def mkTok (op : String) (nargs : Nat) (lastName : Option String) : Tok :=
  match opTable.lookup op with
  | none => { cls := .free, wellFormed := false }
  | some (cls, arity, cat) =>
    let ref := match cat, lastName with
      | some .colorSpace, some n => if builtinColorSpaces.contains n then none else some (Cat.colorSpace, n)
      | some c, some n => some (c, n)
      | _, _ => none
    -- operators whose name operand is mandatory
    let nameOk := match cat with
      | some .pattern | some .properties | none => true
      | some _ => lastName.isSome
    { cls := cls, ref := ref, wellFormed := arity.ok nargs && nameOk }

def tokOk (res : ResNames) (t : Tok) : Bool :=
  t.wellFormed && (match t.ref with | some (c, n) => (res.get c).contains n | none => true)

/-- Run the checker from bracket stack `st`; the stack after the last token. -/
def runToks (res : ResNames) : List Fr → List Tok → Option (List Fr)
  | st, [] => some st
  | st, t :: ts =>
    if tokOk res t then
      match tokStep t.cls st with
      | some st' => runToks res st' ts
      | none => none
    else none

/-- The checker. -/
def checkStream (res : ResNames) (toks : List Tok) : Bool := runToks res [] toks == some []

/-- First offending token (for the report): index and reason. -/
def firstError (res : ResNames) : List Fr → Nat → List Tok → Option (Nat × String)
  | st, _, [] => if st.isEmpty then none else some (0, "unclosed:" ++ String.join (st.map fun f =>
      match f with | .q => "q" | .T => "BT" | .M => "BMC"))
  | st, i, t :: ts =>
    if !t.wellFormed then some (i, "operator-or-arity")
    else if !tokOk res t then some (i, "undefined-resource:" ++ (match t.ref with | some (_, n) => n | none => "?"))
    else match tokStep t.cls st with
      | some st' => firstError res st' (i + 1) ts
      | none => some (i, "bracket")

end Wp.Pdf
