/-
C17 — the bfchar lines of the ToUnicode CMap (`build_fonts_dictionary`, weasyprint/pdf/fonts.py):

    unicode_codepoints = ''.join(f'{letter.encode("utf-16-be").hex()}' for letter in text)
    to_unicode.stream.append(f'<{glyph:04x}> <{unicode_codepoints}>'.encode())

  str.encode('utf-16-be') of one character  ↔ `encode`     (one unit, or a surrogate pair above U+FFFF)
  bytes.hex() of the units / f'{glyph:04x}'   ↔ `hex4` / `hexMin4`
  the line                                    ↔ `bfcharLine`
  what a PDF reader does with the value       ↔ `decode`    (pairs of surrogates → one character)

No Mathlib.
-/
import WpModel.Model.Wire

namespace Wp.Utf16
open Wp

/-- UTF-16 code units of one code point. -/
def encode (cp : Nat) : List Nat :=
  if cp < 0x10000 then [cp]
  else [0xD800 + (cp - 0x10000) / 0x400, 0xDC00 + (cp - 0x10000) % 0x400]

def encodeAll (cps : List Nat) : List Nat := cps.flatMap encode

/-- Reading UTF-16 code units back: a high surrogate followed by a low one is one character. -/
def decode : List Nat → List Nat
  | [] => []
  | [u] => [u]
  | hi :: lo :: rest =>
    if 0xD800 ≤ hi ∧ hi < 0xDC00 ∧ 0xDC00 ≤ lo ∧ lo < 0xE000 then
      (0x10000 + (hi - 0xD800) * 0x400 + (lo - 0xDC00)) :: decode rest
    else hi :: decode (lo :: rest)

def hexDigit (n : Nat) : Char := "0123456789abcdef".toList.getD n '?'

/-- Lower-case hexadecimal digits of `n`, most significant first (`""` for 0). -/
def hexDigits : Nat → Nat → List Char
  | 0, _ => []
  | fuel + 1, n => if n = 0 then [] else hexDigits fuel (n / 16) ++ [hexDigit (n % 16)]

/-- `f'{n:04x}'`: at least four digits. -/
def hexMin4 (n : Nat) : String :=
  let ds := hexDigits 64 n
  String.ofList (List.replicate (4 - ds.length) '0' ++ ds)

/-- Two bytes as `bytes.hex()` writes them: exactly four digits (the unit is below 2^16). -/
def hex4 (u : Nat) : String := hexMin4 (u % 0x10000)

/-- The bfchar line of one glyph. -/
def bfcharLine (glyph : Nat) (text : List Nat) : String :=
  "<" ++ hexMin4 glyph ++ "> <" ++ String.join ((encodeAll text).map hex4) ++ ">"

end Wp.Utf16
