/-
`table_and_columns_preferred_widths` of `weasyprint/layout/preferred.py` (the `outer=False` tuple that
`auto_table_layout` consumes), mirrored step by step *given* the intrinsic widths of the individual
cells, columns and column groups (`min_content_width` / `max_content_width` of each box: text
measurement, not modelled) and their computed `width` / `min-width` / `max-width`:

  grid size → intermediate widths of span 1 → percentage contributions of spanning cells (in
  increasing span order, with the code's "last originating cell at or before the column" rule) →
  constrainedness → capping the percentages at 100 → min/max distribution of spanning cells through
  `distribute_excess_width` → table min/max-content widths (small/large percentage contributions,
  `sys.maxsize` for a zero denominator) → `min_max` of the table.

No Mathlib: linked into `driver_c10`.
-/
import WpModel.Model.Wire
import WpModel.Model.TableWidths

namespace Wp.TablePref
open Wp Wp.Table

/-- A percentage bound: `none` = `inf`. -/
abbrev PctMax := Option Rat

/-- What the function reads of a cell, a column or a column group. -/
structure PBox where
  minW : Rat            -- min_content_width(context, box)
  maxW : Rat            -- max_content_width(context, box)
  width : Dim           -- box.style['width']
  minPct : Rat          -- box.style['min_width'] when in %, else 0
  maxPct : PctMax       -- box.style['max_width'] when in %, else inf
  deriving Repr

structure PCell where
  gridX : Nat
  colspan : Nat
  rowspan : Nat
  box : PBox
  deriving Repr

structure PrefIn where
  collapse : Bool
  spacing : Rat                       -- border_spacing[0]
  rows : List (List PCell)            -- rows of all row groups, cells in order
  groups : List (Option PBox)         -- column_groups[i] for i < number given
  cols : List (Option PBox)           -- columns[i]
  tableWidthPx : Option Rat           -- table.style['width'] when in px
  tableMinW : Rat                     -- table.style['min_width'] in px, else 0
  tableMaxW : Option Rat              -- table.style['max_width'] in px, else inf
  deriving Repr

structure PrefOut where
  tmin : Rat
  tmax : Rat
  mins : List Rat
  maxs : List Rat
  pcts : List Rat
  constrained : List Bool
  spacing : Rat
  deriving Repr

/-- `_percentage_contribution(box)`: `max(min_width%, min(width%, max_width%))`. -/
def pctContribution (b : PBox) : Rat :=
  let w := match b.width with | .pct v => v | _ => 0
  let capped := match b.maxPct with | none => w | some m => if m < w then m else w
  if capped > b.minPct then capped else b.minPct

/-- A computed width in px (`style['width'] != 'auto' and unit != '%'`). -/
def isPx (d : Dim) : Bool := match d with | .px _ => true | _ => false

def maxR (a b : Rat) : Rat := if b > a then b else a
def minR (a b : Rat) : Rat := if b < a then b else a

/-- In-range list access (all per-column lists have `grid_width` entries by construction). -/
def nth (l : List Rat) (i : Nat) : Rat := match l[i]? with | some v => v | none => 0
def nthB (l : List Bool) (i : Nat) : Bool := match l[i]? with | some v => v | none => false

def gridWidth (rows : List (List PCell)) : Nat :=
  rows.foldl (fun w row => row.foldl (fun w c => max (c.gridX + c.colspan) w) w) 0

def gridHeight (rows : List (List PCell)) : Nat :=
  (rows.zipIdx.foldl (fun h (row, y) => row.foldl (fun h c => max (y + c.rowspan) h) h) 0)

/-- `grid[row][x]`: the last cell of the row placed at `x`. -/
def cellAt (row : List PCell) (x : Nat) : Option PCell :=
  row.foldl (fun acc c => if c.gridX = x then some c else acc) none

/-- `zipped_grid[i]` without the `None`s: cells originating in column `i`, in row order. -/
def colCells (rows : List (List PCell)) (i : Nat) : List PCell := rows.filterMap (fun row => cellAt row i)

/-- `row_origins[x]`: the last `x' ≤ x` where a cell of the row originates. -/
def originAt (row : List PCell) (x : Nat) : Option Nat :=
  (List.range (x + 1)).foldl (fun acc x' => if (cellAt row x').isSome then some x' else acc) none

def optBox (l : List (Option PBox)) (i : Nat) : Option PBox := match l[i]? with | some b => b | none => none

/-- Intermediate content widths for span 1 of column `i`: `(min, max, percentage)`. -/
def span1 (inp : PrefIn) (i : Nat) : Rat × Rat × Rat :=
  let start : Rat × Rat × Rat := (0, 0, 0)
  let withBox := fun (acc : Rat × Rat × Rat) (b : Option PBox) => match b with
    | none => acc
    | some b => (maxR acc.1 b.minW, maxR acc.2.1 b.maxW, maxR acc.2.2 (pctContribution b))
  let acc := withBox (withBox start (optBox inp.groups i)) (optBox inp.cols i)
  (colCells inp.rows i).foldl (fun acc c =>
    if c.colspan = 1 then
      (maxR acc.1 c.box.minW, maxR acc.2.1 c.box.maxW, maxR acc.2.2 (pctContribution c.box))
    else acc) acc

/-- `colspan_cells`: column-major, row order inside a column. -/
def colspanCells (rows : List (List PCell)) (gw : Nat) : List PCell :=
  (List.range gw).flatMap (fun i => (colCells rows i).filter (fun c => c.colspan ≠ 1))

/-- Insert into a sorted list without duplicates (`sorted(colspans)` of a set). -/
def insertSorted (x : Nat) : List Nat → List Nat
  | [] => [x]
  | y :: ys => if x < y then x :: y :: ys else if x = y then y :: ys else y :: insertSorted x ys

def spans (cells : List PCell) : List Nat := cells.foldl (fun acc c => insertSorted (c.colspan - 1) acc) []

/-- `get_percentage_contribution(origin_cell, origin, max_content_width)`. -/
def spanContribution (pcts maxs : List Rat) (c : PCell) (origin : Nat) (maxI : Rat) : Rat :=
  let js := (List.range c.colspan).map (origin + ·)
  let baseline := sumR (js.map (nth pcts))
  let diff := maxR 0 (pctContribution c.box - baseline)
  let others := (js.filter (fun j => nth pcts j = 0)).map (nth maxs)
  let total := sumR others
  let ratio : Rat := if total = 0 then 1 / (if others.length = 0 then 1 else (others.length : Rat)) else maxI / total
  diff * ratio

/-- One iteration `for span in sorted(colspans)`: the new list of intrinsic percentages. -/
def spanStep (rows : List (List PCell)) (gw : Nat) (maxs : List Rat) (pcts : List Rat) (span : Nat) : List Rat :=
  (List.range gw).map (fun i =>
    if nth pcts i ≠ 0 then nth pcts i
    else
      rows.foldl (fun pc row =>
        match originAt row i with
        | none => pc
        | some origin =>
          match cellAt row origin with
          | none => pc
          | some c =>
            if c.colspan - 1 ≠ span then pc
            else maxR pc (spanContribution pcts maxs c origin (nth maxs i))) (nth pcts i))

/-- Constrainedness of column `i`. -/
def constrainedAt (inp : PrefIn) (i : Nat) : Bool :=
  (match optBox inp.groups i with | some b => isPx b.width | none => false) ||
  (match optBox inp.cols i with | some b => isPx b.width | none => false) ||
  (colCells inp.rows i).any (fun c => c.colspan = 1 && isPx c.box.width)

/-- `[min(p, 100 - sum(pcts[:i])) for i, p in enumerate(pcts)]` (the sum over the *old* list). -/
def capPcts (pcts : List Rat) : List Rat :=
  pcts.zipIdx.map (fun (p, i) => minR p (100 - sumR (pcts.take i)))

def mkCols (mins maxs pcts : List Rat) (cons : List Bool) (gw : Nat) : List ACol :=
  (List.range gw).map (fun i => ⟨nth mins i, nth maxs i, nth pcts i, nthB cons i, true⟩)

/-- `if need > have: distribute_excess_width(…, need - have, widths, …, slice(start, stop))`. -/
def growTo (cols : List ACol) (need have_ : Rat) (cw : List Rat) (start stop : Nat) : Except PyErr (List Rat) :=
  if need > have_ then distributeExcess cols (need - have_) cw start (some stop) else .ok cw

/-- "Max- and min-content widths for span > 1": one spanning cell (min first, then max; the max
distribution passes `max_content_widths` both as the widths to grow and as the weights). -/
def spanCellStep (collapse : Bool) (spacing : Rat) (pcts : List Rat) (cons : List Bool) (gw : Nat)
    (st : List Rat × List Rat) (c : PCell) : Except PyErr (List Rat × List Rat) :=
  let js := (List.range c.colspan).map (c.gridX + ·)
  let sp := if collapse then 0 else ((c.colspan : Rat) - 1) * spacing
  match growTo (mkCols st.1 st.2 pcts cons gw) c.box.minW (sumR (js.map (nth st.1)) + sp) st.1 c.gridX
      (c.gridX + c.colspan) with
  | .error e => .error e
  | .ok mins' =>
    match growTo (mkCols mins' st.2 pcts cons gw) c.box.maxW (sumR (js.map (nth st.2)) + sp) st.2 c.gridX
        (c.gridX + c.colspan) with
    | .error e => .error e
    | .ok maxs' => .ok (mins', maxs')

def spanCells (collapse : Bool) (spacing : Rat) (pcts : List Rat) (cons : List Bool) (gw : Nat) :
    List Rat × List Rat → List PCell → Except PyErr (List Rat × List Rat)
  | st, [] => .ok st
  | st, c :: cs =>
    match spanCellStep collapse spacing pcts cons gw st c with
    | .error e => .error e
    | .ok st' => spanCells collapse spacing pcts cons gw st' cs

/-- `sys.maxsize`. -/
def sysMaxsize : Rat := 9223372036854775807

def maxList (l : List Rat) : Rat := l.foldl maxR 0

/-- The whole function (`outer=False`). An empty grid takes another path of the code (block widths of
the table box itself), not modelled: `err:ValueError`. -/
def preferredWidths (inp : PrefIn) : Except PyErr PrefOut :=
  let gw := gridWidth inp.rows
  let gh := gridHeight inp.rows
  if gw = 0 ∨ gh = 0 then .error (.valueError "empty-grid")
  else
    let originating := ((List.range gw).filter (fun i => !(colCells inp.rows i).isEmpty)).length
    let totalSpacing := if inp.collapse then 0 else inp.spacing * (1 + (originating : Rat))
    let s1 := (List.range gw).map (span1 inp)
    let mins0 := s1.map (·.1)
    let maxs0 := s1.map (·.2.1)
    let pcts0 := s1.map (·.2.2)
    let cells := colspanCells inp.rows gw
    let pcts1 := (spans cells).foldl (spanStep inp.rows gw maxs0) pcts0
    let cons := (List.range gw).map (constrainedAt inp)
    let pcts := capPcts pcts1
    match spanCells inp.collapse inp.spacing pcts cons gw (mins0, maxs0) cells with
    | .error e => .error e
    | .ok (mins, maxs) =>
      let small := ((List.range gw).filter (fun i => nth pcts i ≠ 0)).map
        (fun i => nth maxs i / (nth pcts i / 100))
      let num := sumR (((List.range gw).filter (fun i => nth pcts i = 0)).map (nth maxs))
      let den := (100 - sumR pcts) / 100
      let large : Rat := if den = 0 then (if num = 0 then 0 else sysMaxsize) else num / den
      let tmin := totalSpacing + sumR mins
      let tmax := totalSpacing + (small.foldl maxR (maxR (sumR maxs) large))
      let clamp := fun (w : Rat) =>
        maxR inp.tableMinW (match inp.tableMaxW with | none => w | some m => minR w m)
      let minWidth := match inp.tableWidthPx with | some v => v | none => tmin
      let maxWidth := match inp.tableWidthPx with | some v => v | none => tmax
      .ok ⟨maxR tmin (clamp minWidth), maxR tmax (clamp maxWidth), mins, maxs, pcts, cons, totalSpacing⟩

end Wp.TablePref
