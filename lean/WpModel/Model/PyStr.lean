/-
Python `str` operations used by `text/line_break.py` and `layout/inline.py`, on `List Char`.
The modelled texts are ASCII (letters, U+0020, U+000A), so UTF-8 byte offsets (`text.encode()[:i]`)
and character offsets coincide; this is an assumption of the C09 model, stated in its MANIFEST.
No Mathlib: linked into the driver.
-/
import WpModel.Model.Wire

namespace Wp.Py

abbrev Text := List Char

/-- `s.find(c)`; `-1` is `none`. -/
def find (t : Text) (c : Char) : Option Nat := t.findIdx? (· == c)

/-- `s.rstrip(' ')`. -/
def rstripSp (t : Text) : Text := (t.reverse.dropWhile (· == ' ')).reverse

/-- `s.lstrip(' ')`. -/
def lstripSp (t : Text) : Text := t.dropWhile (· == ' ')

/-- `s[:b]` for `b : int | None` (negative counts from the end, out of range is clamped). -/
def sliceTo {α} (t : List α) : Option Int → List α
  | none => t
  | some b => if 0 ≤ b then t.take b.toNat else t.take (t.length - (-b).toNat)

/-- `s[:n]` for `n : int ≥ 0 | None`. -/
def sliceToNat {α} (t : List α) : Option Nat → List α
  | none => t
  | some n => t.take n

/-- `s[n:]` for `n : int ≥ 0 | None`. -/
def sliceFromNat {α} (t : List α) : Option Nat → List α
  | none => t
  | some n => t.drop n

/-- `s[j]` for `j : int`; `IndexError` when out of range. -/
def get {α} (t : List α) (j : Int) (site : String) : Except PyErr α :=
  let i : Int := if 0 ≤ j then j else (t.length : Int) + j
  if i < 0 then .error (.indexError site) else
  match t[i.toNat]? with
  | some c => .ok c
  | none => .error (.indexError site)

/-- `int(q)` on a rational: truncation toward zero. -/
def truncZ (q : Rat) : Int := if 0 ≤ q then q.floor else -((-q).floor)

/-- `a or b` on `int | None` operands (`0` and `None` are falsy). -/
def orInt (a : Option Int) (b : Int) : Int :=
  match a with
  | none => b
  | some x => if x = 0 then b else x

/-- number of occurrences of `c` (`str.count`). -/
def count (t : Text) (c : Char) : Nat := (t.filter (· == c)).length

end Wp.Py
