/-
Model of the viewBox → viewport mapping of SVG images:
* `weasyprint/svg/utils.py::preserve_ratio` (scale and translation from `viewBox`,
  `preserveAspectRatio`, the viewport size; root `<svg>`, nested `<svg>`, `<image>`, `<marker>`),
* the sizing arithmetic of `weasyprint/svg/images.py::image` (an `<image>` element: which box the
  referenced image is fitted into),
* the two `cm` operators `weasyprint/svg/images.py::svg` emits for an `<svg>` element.
Strings are mirrored as Python does them: `str.split()`, `align[1:4].lower()`, `align[5:].lower()`.
Failure points are explicit (`IndexError` for an empty `preserveAspectRatio`, `ValueError` for a
`viewBox` that does not hold four numbers).
No Mathlib: linked into `driver_c13`.
-/
import WpModel.Model.Wire

namespace Wp.SvgViewport
open Wp

inductive Err where
  | indexError (site : String)
  | valueError (site : String)
  | zeroDivision (site : String)
  | typeError (site : String)
  deriving Repr, DecidableEq

def Err.render : Err → String
  | .typeError _ => "err:TypeError"
  | .indexError _ => "err:IndexError"
  | .valueError _ => "err:ValueError"
  | .zeroDivision _ => "err:ZeroDivisionError"

/-- Python `str.isspace` on the characters that can occur in an attribute value. -/
def isWs (c : Char) : Bool :=
  c == ' ' || c == '\t' || c == '\n' || c == '\r' || c == '\x0b' || c == '\x0c'

/-- Python `str.split()` (no argument): maximal runs of non-whitespace. -/
def splitWs (s : String) : List String :=
  let rec go (cs : List Char) (cur : List Char) (acc : List String) : List String :=
    match cs with
    | [] => (if cur.isEmpty then acc else String.ofList cur.reverse :: acc).reverse
    | c :: rest =>
      if isWs c then go rest [] (if cur.isEmpty then acc else String.ofList cur.reverse :: acc)
      else go rest (c :: cur) acc
  go s.toList [] []

/-- `s[a:b].lower()` (ASCII). -/
def sliceLower (s : String) (a : Nat) (b : Option Nat) : String :=
  let cs := s.toList.drop a
  let cs := match b with
    | some b => cs.take (b - a)
    | none => cs
  String.ofList (cs.map Char.toLower)

/-- `'min' | 'mid' | 'max'`, anything else behaves like `'min'` (neither `mid` nor `max` is tested true). -/
inductive Pos where
  | min | mid | max
  deriving Repr, DecidableEq

def Pos.ofString : String → Pos
  | "mid" => .mid
  | "max" => .max
  | _ => .min

/-- What `preserve_ratio` reads of `preserveAspectRatio`: `(x_position, y_position, uniform, slice)`. -/
structure Align where
  x : Pos
  y : Pos
  uniform : Bool      -- `align != 'none'`: one scale for both axes
  slice : Bool        -- `meet_or_slice == 'slice'`
  deriving Repr, DecidableEq

/-- `aspect_ratio = node.get('preserveAspectRatio', 'xMidYMid').split()` and what follows. -/
def parseAlign (par : String) : Except Err Align :=
  match splitWs par with
  | [] => .error (.indexError "preserve_ratio.aspect_ratio[0]")
  | align :: rest =>
    if align == "none" then .ok ⟨.min, .min, false, false⟩
    else
      let slice := match rest with
        | m :: _ => m == "slice"
        | [] => false
      .ok ⟨Pos.ofString (sliceLower align 1 (some 4)), Pos.ofString (sliceLower align 5 none), true, slice⟩

structure Ratio where
  sx : Rat
  sy : Rat
  tx : Rat
  ty : Rat
  deriving Repr, DecidableEq

/-- The translation along one axis. -/
def alignAxis (p : Pos) (viewport vb scale : Rat) : Rat :=
  match p with
  | .min => 0
  | .mid => (viewport - vb * scale) / 2
  | .max => viewport - vb * scale

/-- `preserve_ratio(svg, node, font_size, width, height, viewbox)`.
`viewbox`: the numbers of the effective viewBox (`viewbox or node.get_viewbox()`), `[]` for none;
`isRoot`: `svg.tree == node`; `intrinsic`: `svg.get_intrinsic_size(font_size)` (root only);
`marker`: `some (refX, refY)` for a `<marker>`. -/
def preserveRatio (viewbox : List Rat) (isRoot : Bool) (intrinsic : Option Rat × Option Rat)
    (par : String) (marker : Option (Rat × Rat)) (width height : Rat) : Except Err Ratio := do
  let unit : Ratio := ⟨1, 1, 0, 0⟩
  let dims : Option (Rat × Rat) ← match viewbox with
    | [] =>
      if isRoot then
        match intrinsic with
        | (some w, some h) => pure (some (w, h))
        | _ => pure none
      else pure none
    | [_, _, w, h] => pure (some (w, h))
    | _ => throw (.valueError "preserve_ratio.viewbox[2:]")
  match dims with
  | none => pure unit
  | some (vw, vh) =>
    let sx0 := if vw != 0 then width / vw else 1
    let sy0 := if vh != 0 then height / vh else 1
    let a ← parseAlign par
    let (sx, sy) := if a.uniform then
        let s := if a.slice then max sx0 sy0 else min sx0 sy0
        (s, s)
      else (sx0, sy0)
    let (tx, ty) := match marker with
      | some (rx, ry) => (rx, ry)
      | none => (alignAxis a.x width vw sx, alignAxis a.y height vh sy)
    match viewbox with
    | vx :: vy :: _ => pure ⟨sx, sy, tx - vx * sx, ty - vy * sy⟩
    | _ => pure ⟨sx, sy, tx, ty⟩

/-- The root `<svg>` as `SVG.draw` → `svg/images.py::svg` handles it: `Node.set_svg_size` reads
`viewbox[2]`, `viewbox[3]` (IndexError for a shorter viewBox), then `preserve_ratio` gives the second
`cm` operator (`a = scale_x, d = scale_y, e = translate_x, f = translate_y`; the first one is the
translation by the root's `x`, `y`). -/
def rootTransform (viewbox : List Rat) (intrinsic : Option Rat × Option Rat) (par : String)
    (width height : Rat) : Except Err Ratio :=
  match viewbox with
  | [_] | [_, _] | [_, _, _] => .error (.indexError "set_svg_size.viewbox[3]")
  | _ => preserveRatio viewbox true intrinsic par none width height

/-- The image of the point `(u, v)` of user space in the viewport. -/
def Ratio.apply (r : Ratio) (u v : Rat) : Rat × Rat := (r.sx * u + r.tx, r.sy * v + r.ty)

/-- Python truthiness of a number. -/
def truthy (q : Rat) : Bool := q != 0

/-- The box arithmetic of `svg/images.py::image`: `width`, `height` are `svg.point(node.get('width'),
node.get('height'))` (0 when absent), `(iw, ih, ir)` the intrinsic size of the referenced image;
result `(width, height, intrinsic_width, intrinsic_height)`: the image is drawn `intrinsic_width ×
intrinsic_height` and fitted into `width × height` by `preserve_ratio` with the viewBox
`(0, 0, intrinsic_width, intrinsic_height)`. -/
def imageBox (width height : Rat) (iw ih ir : Option Rat) : Except Err (Rat × Rat × Rat × Rat) := do
  let (iw', ih') ← match iw, ih with
    | none, none =>
      match ir with
      | none => pure ((300 : Rat), (150 : Rat))
      | some r =>
        if !truthy width && !truthy height then pure ((300 : Rat), (150 : Rat))
        else if !truthy width then pure (r * height, height)
        else if r = 0 then throw (.zeroDivision "image.width/intrinsic_ratio")
        else pure (width, width / r)
    | none, some h =>
      match ir with
      | some r => pure (r * h, h)
      | none => throw (.typeError "image.None*height")
    | some w, none =>
      match ir with
      | some r => if r = 0 then throw (.zeroDivision "image.intrinsic_width/ratio") else pure (w, w / r)
      | none => throw (.typeError "image.width/None")
    | some w, some h => pure (w, h)
  let w := if truthy width then width else iw'
  let h := if truthy height then height else ih'
  pure (w, h, iw', ih')

end Wp.SvgViewport
