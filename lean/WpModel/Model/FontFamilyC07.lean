/-
C07 — the validator of `font-family` (weasyprint/css/validation/properties.py `font_family`, under
`@comma_separated_list` of css/utils.py), branch for branch: the value is split on top-level commas; every part must
be either one string token (the family is its value) or one or more identifier tokens (the family is their values
joined by single spaces); anything else — an empty part included — refuses the whole value.
A token is abstracted to what the function reads of it.  No Mathlib, no Std: linked into the driver.
-/
import WpModel.Model.Wire

namespace Wp.Font07
open Wp

/-- What `font_family` reads of a token. -/
inductive FTok where
  | str (value : String)       -- `token.type == 'string'`
  | ident (value : String)     -- `token.type == 'ident'` (value as written)
  | other
  deriving Repr, BEq, DecidableEq

def FTok.isIdent : FTok → Bool
  | .ident _ => true
  | _ => false

def FTok.value : FTok → String
  | .str v => v
  | .ident v => v
  | .other => ""

/-- `font_family(tokens)` on one comma-separated part. -/
def familyOne : List FTok → Option String
  | [.str v] => some v
  | toks => if !toks.isEmpty && toks.all FTok.isIdent then some (" ".intercalate (toks.map FTok.value)) else none

/-- `comma_separated_list(font_family)(tokens)`: `parts` = `split_on_comma(tokens)` with whitespace removed. -/
def fontFamily : List (List FTok) → Option (List String)
  | [] => some []
  | part :: rest =>
    match familyOne part with
    | none => none                         -- `if result is None: return None`
    | some f => (fontFamily rest).map (f :: ·)

end Wp.Font07
