/-
C05 — an executable checker of the property statement itself on a tree of *used values* read from
rendered documents (any grammar: the harness exports every box of every page of wide-grammar documents).

The clauses, for a box `b` whose parent's content box is `[cx, cx + pw]` with direction `prtl`:
  nonneg   (a) width, height, paddings and border widths are ≥ 0                         (every box)
  minw/maxw, minh/maxh (c) `min ≤ size`, and `size ≤ max` when `min ≤ max`                (flow boxes)
  edge     (b)(f) ltr: the margin-left edge is at `cx`; rtl: the margin-right edge at `cx + pw`
  equation (b) the margin box fills the parent's content width, unless the box is over-constrained:
           its width is fixed (specified, or clamped to min-width or max-width) and either both margins are
           specified or the auto ones are 0 and the margin box is wider than the parent
  stack    (g) the in-flow children whose subtrees have no negative margin are stacked: each starts at
           or below the current position, which then moves to its bottom border edge (unless it is empty)
  contain  (g) an unfragmented auto-height parent without max-height extends to that position
"flow" = block-level non-replaced box in normal flow whose parent is a block container (the boxes
`block_level_width` lays out).  Lengths come from binary floats: comparisons allow `eps`.
The soundness theorems are in Props/C05Check.lean.  No Mathlib: linked into the driver.
-/
import WpModel.Model.Wire

namespace Wp.UsedCheck
open Wp

inductive Kind where
  | flow        -- in-flow block-level box in a block container
  | line        -- line box: takes part in the vertical stacking only
  | oof         -- float / absolutely positioned / footnote: outside the flow
  | other       -- anything else (flex and grid items, table parts, replaced boxes, relatively positioned …)
  deriving Repr, DecidableEq

structure UBox where
  x : Rat
  y : Rat
  w : Rat
  h : Rat
  ml : Rat
  mr : Rat
  mt : Rat
  mb : Rat
  pl : Rat
  pr : Rat
  pt : Rat
  pb : Rat
  bl : Rat
  br : Rat
  bt : Rat
  bb : Rat
  minW : Rat
  maxW : Option Rat            -- `none` = no maximum
  minH : Rat
  maxH : Option Rat
  mlAuto : Bool                -- computed margin-left is `auto`
  mrAuto : Bool
  wAuto : Bool
  hAuto : Bool
  kind : Kind
  rtl : Bool                   -- `direction` of the box (the containing-block direction of its children)
  whole : Bool                 -- not fragmented
  deriving Repr, DecidableEq

inductive UTree where
  | mk (b : UBox) (kids : List UTree)
  deriving Repr

def UTree.box : UTree → UBox
  | .mk b _ => b

def UTree.kids : UTree → List UTree
  | .mk _ ks => ks

namespace UBox

def outer (b : UBox) : Rat := b.ml + b.bl + b.pl + b.w + b.pr + b.br + b.mr
def contentX (b : UBox) : Rat := b.x + b.ml + b.bl + b.pl
def borderTop (b : UBox) : Rat := b.y + b.mt
def contentTop (b : UBox) : Rat := b.y + b.mt + b.bt + b.pt
def borderBottom (b : UBox) : Rat := b.y + b.mt + b.bt + b.pt + b.h + b.pb + b.bb

end UBox

/-- `|a - b| ≤ eps`. -/
def near (eps a b : Rat) : Bool := decide (a - b ≤ eps) && decide (b - a ≤ eps)

/-- The context a box is checked in: its parent's content box and direction. -/
structure Ctx where
  cx : Rat
  pw : Rat
  prtl : Bool
  deriving Repr

def nonneg (b : UBox) : Bool :=
  decide (0 ≤ b.w) && decide (0 ≤ b.h) && decide (0 ≤ b.pl) && decide (0 ≤ b.pr) && decide (0 ≤ b.pt) &&
  decide (0 ≤ b.pb) && decide (0 ≤ b.bl) && decide (0 ≤ b.br) && decide (0 ≤ b.bt) && decide (0 ≤ b.bb)

def minMaxW (eps : Rat) (b : UBox) : Bool :=
  decide (b.minW ≤ b.w + eps) &&
  (match b.maxW with
   | none => true
   | some m => !decide (b.minW ≤ m) || decide (b.w ≤ m + eps))

def minMaxH (eps : Rat) (b : UBox) : Bool :=
  !b.whole ||
  (decide (b.minH ≤ b.h + eps) &&
   (match b.maxH with
    | none => true
    | some m => !decide (b.minH ≤ m) || decide (b.h ≤ m + eps)))

def edge (eps : Rat) (c : Ctx) (b : UBox) : Bool :=
  if c.prtl then near eps (b.x + b.outer) (c.cx + c.pw) else near eps b.x c.cx

/-- The used width is a fixed one: specified, or equal to `min-width` / `max-width`. -/
def widthFixed (eps : Rat) (b : UBox) : Bool :=
  !b.wAuto || near eps b.w b.minW || (match b.maxW with | none => false | some m => near eps b.w m)

/-- Evidence that CSS 2.1 §10.3.3 calls the box over-constrained. -/
def overConstrained (eps : Rat) (c : Ctx) (b : UBox) : Bool :=
  widthFixed eps b &&
  ((!b.mlAuto && !b.mrAuto) ||
   ((!b.mlAuto || decide (b.ml = 0)) && (!b.mrAuto || decide (b.mr = 0)) && decide (b.outer > c.pw)))

def equation (eps : Rat) (c : Ctx) (b : UBox) : Bool :=
  near eps b.outer c.pw || overConstrained eps c b

/-- The first violated clause of one box, `none` when all hold. -/
def nodeVerdict (eps : Rat) (c : Ctx) (b : UBox) : Option String :=
  if !nonneg b then some "nonneg"
  else if b.kind != .flow then none
  else if !minMaxW eps b then some "minmax-width"
  else if !minMaxH eps b then some "minmax-height"
  else if !edge eps c b then some "edge"
  else if !equation eps c b then some "equation"
  else none

def nodeOk (eps : Rat) (c : Ctx) (b : UBox) : Bool := (nodeVerdict eps c b).isNone

def kidCtx (b : UBox) : Ctx := { cx := b.contentX, pw := b.w, prtl := b.rtl }

mutual
/-- No margin of the subtree is negative. -/
def nonNegMargins : UTree → Bool
  | .mk b kids => decide (0 ≤ b.mt) && decide (0 ≤ b.mb) && nonNegMarginsList kids
def nonNegMarginsList : List UTree → Bool
  | [] => true
  | t :: ts => nonNegMargins t && nonNegMarginsList ts
end

/-- A box without in-flow content: every child is out of the flow (floats, absolutely positioned boxes,
footnote calls: `block_container_layout` tests `find_last_in_flow_child(new_children) is None`), no height,
no vertical padding or border — the boxes that can collapse through (CSS 2.1 §8.3.1 "no in-flow children");
such a box sits where its margins collapse, possibly below its parent's content box, and does not advance
the position. -/
def isEmpty : UTree → Bool
  | .mk b kids => kids.all (fun k => k.box.kind == .oof) && decide (b.h = 0) && decide (b.pt = 0) &&
      decide (b.pb = 0) && decide (b.bt = 0) && decide (b.bb = 0)

/-- Stacking of the children from the position `pos` (`none`: unknown, after a child with a negative
margin somewhere): returns the final position, or `none` as first component when a child starts above the
current position.  Children out of the flow or of another kind leave the position alone. -/
def stackKids (eps : Rat) : Option Rat → List UTree → Bool × Option Rat
  | pos, [] => (true, pos)
  | pos, t :: ts =>
    match t.box.kind with
    | .oof => stackKids eps pos ts
    | .other => stackKids eps none ts
    | _ =>
      if nonNegMargins t then
        let okHere := match pos with
          | none => true
          | some p => decide (p ≤ t.box.borderTop + eps)
        let pos' := if isEmpty t then pos else some t.box.borderBottom
        let r := stackKids eps pos' ts
        (okHere && r.1, r.2)
      else stackKids eps none ts

/-- (g) stacking and containment for the children of one flow box (block container in normal flow). -/
def kidsVerdict (eps : Rat) (t : UTree) : Option String :=
  match t with
  | .mk b kids =>
    if b.kind != .flow then none else
    let r := stackKids eps (some b.contentTop) kids
    if !r.1 then some "stack"
    else if b.hAuto && b.whole && b.maxH.isNone then
      match r.2 with
      | some p => if decide (p ≤ b.contentTop + b.h + eps) then none else some "contain"
      | none => none
    else none

def kidsOk (eps : Rat) (t : UTree) : Bool := (kidsVerdict eps t).isNone

mutual
/-- Every box of the tree with the context it is checked in (preorder). -/
def nodes (c : Ctx) : UTree → List (Ctx × UBox)
  | .mk b kids => (c, b) :: nodesList (kidCtx b) kids
def nodesList (c : Ctx) : List UTree → List (Ctx × UBox)
  | [] => []
  | t :: ts => nodes c t ++ nodesList c ts
end

mutual
/-- Every subtree (preorder). -/
def subtrees : UTree → List UTree
  | .mk b kids => .mk b kids :: subtreesList kids
def subtreesList : List UTree → List UTree
  | [] => []
  | t :: ts => subtrees t ++ subtreesList ts
end

/-- **The checker**: all clauses on every box of the tree. -/
def usedOk (eps : Rat) (c : Ctx) (t : UTree) : Bool :=
  (nodes c t).all (fun p => nodeOk eps p.1 p.2) && (subtrees t).all (kidsOk eps)

/-- Index (preorder) and name of the first violated clause, for the report. -/
def firstBad (eps : Rat) (c : Ctx) (t : UTree) : Option (Nat × String) :=
  let a := (nodes c t).zipIdx.findSome? (fun (p, i) => (nodeVerdict eps p.1 p.2).map (fun s => (i, s)))
  match a with
  | some r => some r
  | none => (subtrees t).zipIdx.findSome? (fun (s, i) => (kidsVerdict eps s).map (fun v => (i, v)))

end Wp.UsedCheck
