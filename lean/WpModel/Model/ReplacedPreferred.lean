/-
Model of the intrinsic (min- and max-content) widths of replaced boxes:
`weasyprint/layout/preferred.py::replaced_min_content_width`, `replaced_max_content_width`,
`min_max` (with its ratio transfer of min-height and max-height for replaced boxes), `margin_width`
(separated-borders mode), `adjust`.
No Mathlib: linked into `driver_c13`.
-/
import WpModel.Model.Replaced

namespace Wp.Replaced
open Wp

/-- Computed sizing properties as `preferred.py` reads them from `box.style`
(`'auto'` = `none`; for the max-* properties `none` = `'auto'`, which the code treats as no limit). -/
structure PrefStyle where
  width : Option Dim
  height : Option Dim
  minWidth : Option Dim
  maxWidth : Option Dim
  minHeight : Option Dim
  maxHeight : Option Dim
  marginLeft : Option Dim
  marginRight : Option Dim
  paddingLeft : Dim
  paddingRight : Dim
  borderLeft : Rat
  borderRight : Rat
  deriving Repr, BEq

/-- The `(min_width, max_width)` that `min_max(box, width)` clamps with, for a replaced box whose image has
the ratio `ratio` (px `min-height` / `max-height` are transferred through the ratio). -/
def prefLimits (s : PrefStyle) (ratio : Option Rat) : Rat × MaxLen :=
  let minW : Rat := match s.minWidth with
    | some (.px v) => v
    | _ => 0
  let maxW : MaxLen := match s.maxWidth with
    | some (.px v) => some v
    | _ => none
  let (minW, maxW) := match ratio with
    | none => (minW, maxW)
    | some r =>
      let minW := match s.minHeight with
        | some (.px v) => max minW (v * r)
        | _ => minW
      let maxW : MaxLen := match s.maxHeight with
        | some (.px v) => some (match maxW with | some m => min m (v * r) | none => v * r)
        | _ => maxW
      (minW, maxW)
  (minW, maxW)

/-- `min_max(box, width)`: `max(min_width, min(width, max_width))`. -/
def prefMinMax (s : PrefStyle) (ratio : Option Rat) (width : Rat) : Rat :=
  max (prefLimits s ratio).1 (minExt width (prefLimits s ratio).2)

/-- `margin_width(box, width)` (both sides, separated borders). -/
def prefMarginWidth (s : PrefStyle) (width : Rat) : Rat :=
  let add (acc : Rat × Rat) (d : Option Dim) : Rat × Rat :=
    match d with
    | none => acc
    | some (.px v) => (acc.1 + v, acc.2)
    | some (.pct v) => (acc.1, acc.2 + v)
  let acc := add (add (add (add (width, 0) s.marginLeft) (some s.paddingLeft)) s.marginRight) (some s.paddingRight)
  let w := acc.1 + s.borderLeft + s.borderRight
  if acc.2 < 100 then w / (1 - acc.2 / 100) else 0

/-- `adjust(box, outer, width)`. -/
def prefAdjust (s : PrefStyle) (ratio : Option Rat) (outer : Bool) (width : Rat) : Rat :=
  let fixed := prefMinMax s ratio width
  if outer then prefMarginWidth s fixed else fixed

/-- The `height` handed to `default_image_sizing`: a `px` height, else `'auto'`. -/
def prefHeight (s : PrefStyle) : Len :=
  match s.height with
  | some (.px v) => some v
  | _ => none

/-- The width before `adjust` in `replaced_max_content_width`; `i`: the image's intrinsic size at the box's
resolution. -/
def prefRawMax (s : PrefStyle) (i : Intr) : Except Err Rat :=
  match s.width with
  | none => do
    let r ← defaultImageSizing i none (prefHeight s) Gen.replacedDefaultWidth Gen.replacedDefaultHeight
    pure r.1
  | some (.pct _) => pure 0
  | some (.px v) => pure v

/-- Python truthiness of `None`-or-number. -/
def truthyOpt : Option Rat → Bool
  | some v => v != 0
  | none => false

/-- The width before `adjust` in `replaced_min_content_width`. -/
def prefRawMin (s : PrefStyle) (i : Intr) : Except Err Rat :=
  match s.width with
  | none =>
    match s.maxWidth with
    | some (.pct _) => pure (0 : Rat)
    | _ =>
      if truthyOpt i.ratio && !truthyOpt i.w && !truthyOpt i.h then pure (0 : Rat)
      else do
        let r ← defaultImageSizing i none (prefHeight s) Gen.replacedDefaultWidth Gen.replacedDefaultHeight
        pure r.1
  | some (.pct _) => pure 0
  | some (.px v) => pure v

/-- `replaced_max_content_width(box, outer)`. -/
def replacedMaxContentWidth (s : PrefStyle) (i : Intr) (outer : Bool) : Except Err Rat := do
  let width ← prefRawMax s i
  pure (prefAdjust s i.ratio outer width)

/-- `replaced_min_content_width(box, outer)`. -/
def replacedMinContentWidth (s : PrefStyle) (i : Intr) (outer : Bool) : Except Err Rat := do
  let width ← prefRawMin s i
  pure (prefAdjust s i.ratio outer width)

end Wp.Replaced
