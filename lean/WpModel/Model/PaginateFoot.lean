/-
PM stage 2b — the pagination model extended with footnotes (DESIGN.md §4.0).

Branch-for-branch transcription of the footnote handling of
  weasyprint/layout/__init__.py  LayoutContext.layout_footnote, unlayout_footnote, report_footnote,
                                 _update_footnote_area
  weasyprint/layout/block.py     _linebox_layout (the `if context.footnotes:` loop, footnote-policy),
                                 _break_line / find_earlier_page_break / _in_flow_layout /
                                 block_container_layout (their `remove_placeholders` calls, which un-lay-out
                                 the footnotes of the removed boxes)
  weasyprint/layout/page.py      make_page (reported footnotes placed first, final footnote area),
                                 remake_page (`blank` page required by postponed footnotes),
                                 make_all_pages (stop test)
on top of the stage-1 model (`WpModel.Model.Paginate`), whose non-recursive helpers are *reused* (not
copied): `prepare`, `finishTail`, `finishContainer`, `finishPara`, `finishBlock`, `breakLine`, `meetBreak`,
`firstPass`, `concludeKid`, `findEarlierList`, … are called with the stage-1 context `ctxOf c fs` built from
the current value of the mutable `context.page_bottom`.

Grammar: the stage-1 grammar, a paragraph line carrying any number of footnote calls
(`<span style="float:footnote;footnote-display:block">`), each footnote an opaque block of `m` lines of
height `h` with `footnote-policy: auto|line|block`; the page's `@footnote` area with vertical
margins/paddings/borders and an optional `max-height`, and one such `@footnote` rule per named page type
(`FDoc.named`: the footnote area of a page takes the style of the page's type, so footnotes postponed to a page of
another name land in an area of another style).

State.  The Python code mutates five things while it lays a page out; they are threaded explicitly
(`FState`): `context.footnotes` (not yet placed), `context.current_page_footnotes`,
`context.reported_footnotes`, `context.page_bottom`, `context.current_footnote_area.height`.

Laid-out fragments are the stage-1 `Frag`s.  `remove_placeholders(boxes)` walks laid-out boxes and
un-lays-out the footnote of every call it meets; a `Frag` names its lines by (paragraph id, line number),
the calls of a line are looked up in `FCtx.tbl`, the table of all calls of the document (paragraph ids
are unique in well-formed documents: `UniqueParaIds`).
-/
import WpModel.Model.Paginate

namespace Wp.PMF
open Wp Wp.PM

inductive Policy where
  | auto | line | block
  deriving Repr, Inhabited, DecidableEq

/-- A footnote call as written in the source: on line `line` of its paragraph. -/
structure Call where
  line : Nat
  fid : Nat
  m : Nat            -- number of lines of the footnote body
  h : Rat            -- their height
  policy : Policy
  deriving Repr, Inhabited, DecidableEq

/-- A footnote box (`footnote_call.footnote`): the body of a call, with the used `page` value of its
element (inherited from the paragraph). Python compares footnote boxes by identity; ids are unique. -/
structure Fn where
  fid : Nat
  m : Nat
  h : Rat
  policy : Policy
  page : String
  deriving Repr, Inhabited, DecidableEq

inductive FootBox where
  | para (id : Nat) (n : Nat) (lineH : Rat) (st : PStyle) (calls : List Call)
  | block (id : Nat) (st : PStyle) (kids : List FootBox)
  deriving Repr, Inhabited

mutual
/-- The stage-1 box under a footnote box (calls forgotten). -/
def FootBox.erase : FootBox → PBox
  | .para id n lineH st _ => .para id n lineH st
  | .block id st kids => .block id st (eraseList kids)
def eraseList : List FootBox → List PBox
  | [] => []
  | b :: bs => b.erase :: eraseList bs
end

def FootBox.st : FootBox → PStyle
  | .para _ _ _ st _ => st
  | .block _ st _ => st

/-- `@page { @footnote { … } }` -/
structure AreaStyle where
  mt : Rat
  mb : Rat
  pt : Rat
  pb : Rat
  bt : Rat
  bb : Rat
  maxH : Option Rat     -- `none` = no max-height
  deriving Repr, Inhabited

def mkFn (st : PStyle) (c : Call) : Fn :=
  { fid := c.fid, m := c.m, h := c.h, policy := c.policy, page := st.page }

/-- Footnotes called on line `i` (`line.descendants()` order). -/
def lineFns (st : PStyle) (calls : List Call) (i : Nat) : List Fn :=
  (calls.filter (fun c => c.line == i)).map (mkFn st)

/-- Footnotes called on the given laid-out lines of the paragraph. -/
def lineFnsList (st : PStyle) (calls : List Call) : List (Nat × Rat) → List Fn
  | [] => []
  | l :: ls => lineFns st calls l.1 ++ lineFnsList st calls ls

mutual
/-- All footnotes called in a source subtree, in document order. -/
def boxFns : FootBox → List Fn
  | .para _ _ _ st calls => calls.map (mkFn st)
  | .block _ _ kids => boxFnsList kids
def boxFnsList : List FootBox → List Fn
  | [] => []
  | b :: bs => boxFns b ++ boxFnsList bs
end

mutual
/-- (paragraph id, line, footnote) of every call of the subtree. -/
def callTable : FootBox → List (Nat × Nat × Fn)
  | .para id _ _ st calls => calls.map (fun c => (id, c.line, mkFn st c))
  | .block _ _ kids => callTableList kids
def callTableList : List FootBox → List (Nat × Nat × Fn)
  | [] => []
  | b :: bs => callTable b ++ callTableList bs
end

mutual
/-- (paragraph id, line number) of the lines of a laid-out fragment, in tree order. -/
def flines : Frag → List (Nat × Nat)
  | .para id _ _ _ _ lines => lines.map (fun l => (id, l.1))
  | .block _ _ _ _ kids => flinesList kids
def flinesList : List Frag → List (Nat × Nat)
  | [] => []
  | f :: fs => flines f ++ flinesList fs
end

/-- Footnotes called on the given (paragraph id, line)s. -/
def tblFns (tbl : List (Nat × Nat × Fn)) : List (Nat × Nat) → List Fn
  | [] => []
  | l :: ls => ((tbl.filter (fun e => e.1 == l.1 && e.2.1 == l.2)).map (fun e => e.2.2)) ++ tblFns tbl ls

/-- Per-page constants of the layout context. -/
structure FCtx where
  area : AreaStyle
  pageH : Rat               -- `footnote_area.position_y = context.page_bottom` at the start of `make_page`
  currentPage : Nat
  forcedBreak : Bool
  tbl : List (Nat × Nat × Fn)
  deriving Inhabited

/-- The mutable part of the layout context. -/
structure FState where
  pending : List Fn         -- `context.footnotes`
  cur : List Fn             -- `context.current_page_footnotes`
  reported : List Fn        -- `context.reported_footnotes`
  pageBottom : Rat          -- `context.page_bottom`
  areaH : Option Rat        -- `context.current_footnote_area.height` (`none` = 'auto')
  deriving Repr, Inhabited

/-- The stage-1 context as of now. -/
def ctxOf (c : FCtx) (fs : FState) : Ctx :=
  { pageBottom := fs.pageBottom, currentPage := c.currentPage, forcedBreak := c.forcedBreak }

/-! ### the footnote area -/

def Fn.height (f : Fn) : Rat := (f.m : Rat) * f.h

def sumHeights : List Fn → Rat
  | [] => 0
  | f :: fs => f.height + sumHeights fs

/-- The laid-out footnote area (`block_level_layout(context, footnote_area, -inf, None, page)[0]`),
before the final translation. -/
structure AreaBox where
  shown : List Fn
  y : Rat
  h : Rat
  mt : Rat
  mb : Rat
  pt : Rat
  pb : Rat
  bt : Rat
  bb : Rat
  deriving Repr, Inhabited

def AreaBox.marginHeight (a : AreaBox) : Rat := a.h + a.mt + a.mb + a.pt + a.pb + a.bt + a.bb

def AreaBox.contentY (a : AreaBox) : Rat := a.y + a.mt + a.bt + a.pt

/-- Layout of the area holding `cur` (non-empty): `block_level_layout(context, footnote_area, -inf, None, page)`.
The children loop of `block_container_layout` on the area never stops: nothing overflows (`bottom_space = -inf`,
the page counts as empty) and `_in_flow_layout` forces no break inside a `FootnoteAreaBox` — neither for a forced
`break-before/after` nor for a change of the used `page` name between two footnotes (repair 8db5909; before it the
area was *fragmented* there and the footnotes after the change were dropped).  So every footnote is shown, the area
keeps its bottom decoration, and `max-height` caps the content height. -/
def areaLayout (a : AreaStyle) (pageH : Rat) (cur : List Fn) : AreaBox :=
  let s := sumHeights cur
  let capped := match a.maxH with | none => s | some m => if s ≤ m then s else m
  let h := if capped ≥ 0 then capped else 0
  { shown := cur, y := pageH, h := h, mt := a.mt, mb := a.mb, pt := a.pt, pb := a.pb, bt := a.bt, bb := a.bb }

/-- `last_child.position_y + last_child.margin_height() >
     footnote_area.position_y + footnote_area.margin_height() - footnote_area.margin_bottom` -/
def AreaBox.overflow (a : AreaBox) : Bool :=
  decide (a.contentY + sumHeights a.shown > a.y + a.marginHeight - a.mb)

/-- `current_footnote_area.margin_height()` of the (not laid out) area box with stored height `h`. -/
def AreaStyle.marginHeight (a : AreaStyle) (h : Rat) : Rat := h + a.mt + a.mb + a.pt + a.pb + a.bt + a.bb

/-- `max(0, x)` -/
def max0 (x : Rat) : Rat := if x ≥ 0 then x else 0

/-- `_update_footnote_area`: returns the new state and `overflow`.  What the area takes from the page, and gives
back, is clamped at 0 (repair 2efefde: a margin box of negative height — negative margins — cannot move
`page_bottom` below the page box). -/
def updateArea (c : FCtx) (fs : FState) : FState × Bool :=
  let pb1 := match fs.areaH with
    | none => fs.pageBottom
    | some h => fs.pageBottom + max0 (c.area.marginHeight h)
  if fs.cur.isEmpty then
    -- an empty area is not rendered and takes no room: height back to 'auto' (repair 84e5b27; before it the
    -- height was set to 0 and the area's margins/paddings/borders stayed subtracted from `page_bottom`)
    ({ fs with areaH := none, pageBottom := pb1 }, false)
  else
    let box := areaLayout c.area c.pageH fs.cur
    ({ fs with areaH := some box.h, pageBottom := pb1 - max0 box.marginHeight }, box.overflow)

/-- `layout_footnote` (`self.footnotes.remove` is guarded by `in context.footnotes` / preceded by an
`append` at both call sites). -/
def layoutFootnote (c : FCtx) (fs : FState) (f : Fn) : FState × Bool :=
  updateArea c { fs with pending := fs.pending.erase f, cur := fs.cur ++ [f] }

/-- `report_footnote` (always called right after `layout_footnote(f)`, so `f` is in `cur`). -/
def reportFootnote (c : FCtx) (fs : FState) (f : Fn) : FState :=
  (updateArea c { fs with cur := fs.cur.erase f, reported := fs.reported ++ [f] }).1

/-- `unlayout_footnote` -/
def unlayFootnote (c : FCtx) (fs : FState) (f : Fn) : FState :=
  if f ∈ fs.pending then fs
  else
    let fs := { fs with pending := fs.pending ++ [f] }
    let fs := if f ∈ fs.cur then { fs with cur := fs.cur.erase f }
      else if f ∈ fs.reported then { fs with reported := fs.reported.erase f }
      else fs
    (updateArea c fs).1

/-- `remove_placeholders` restricted to its effect on footnotes: `unlayout_footnote` of each call met. -/
def unlayAll (c : FCtx) (fs : FState) : List Fn → FState
  | [] => fs
  | f :: rest => unlayAll c (unlayFootnote c fs f) rest

/-! ### lines -/

inductive FootOut where
  | ok        -- every footnote of the line handled, the line is kept
  | brk       -- footnote-policy: line → `_break_line`
  | abort     -- footnote-policy: block → abort the paragraph
  deriving Repr, Inhabited, DecidableEq

/-- The `for footnote in footnotes:` loop of `_linebox_layout` for one line. `guard` is
`new_children or not page_is_empty`, `y` is `new_position_y + offset_y`.  `footnote-policy: block` aborts the
paragraph only when something is before it on the page; when the page is empty (`pie`, so the guard holds because
lines of this paragraph are already placed) it breaks before the line, like `line` (repair 67bf2ca). -/
def footLoop (c : FCtx) (guard pie : Bool) (bs y : Rat) : List Fn → FState → FootOut × FState
  | [], fs => (.ok, fs)
  | f :: rest, fs =>
    if f ∈ fs.pending then
      let r := layoutFootnote c fs f
      let overflow := r.2 || !r.1.reported.isEmpty || (ctxOf c r.1).overflowsPage bs y
      if overflow then
        let fs2 := reportFootnote c r.1 f
        if guard && f.policy == .line then (.brk, fs2)
        else if guard && f.policy == .block then (if pie then (.brk, fs2) else (.abort, fs2))
        else footLoop c guard pie bs y rest fs2
      else footLoop c guard pie bs y rest r.1
    else footLoop c guard pie bs y rest fs

/-- Footnote effect of `_break_line`: the lines deleted for `widows` and the current line go through
`remove_placeholders`. -/
def breakLineUnlay (c : FCtx) (st : PStyle) (calls : List Call) (i : Nat) (before after : List (Nat × Rat))
    (fs : FState) : FState :=
  unlayAll c fs (lineFnsList st calls (before.drop after.length) ++ lineFns st calls i)

/-- The line loop of `_linebox_layout` (stage-1 `lineLoop`) with the footnote calls of each line. -/
def lineLoopF (c : FCtx) (st : PStyle) (calls : List Call) (b : BoxSt) (n : Nat) (lineH : Rat)
    (pageIsEmpty : Bool) (bs : Rat)
    : (fuel : Nat) → (i : Nat) → (y : Rat) → LineLoop → FState → LineOutcome × FState
  | 0, _, _, s, fs => (.done s, fs)
  | fuel + 1, i, y, s, fs =>
    let resume := lineResume n i
    let newPosY := y + lineH
    let dbd := s.dbd || resume.isNone
    let offset := if dbd then b.bb + b.pb else 0
    let overflow := (!s.lines.isEmpty || !pageIsEmpty) && (ctxOf c fs).overflowsPage bs (newPosY + offset)
    if overflow then
      let (abort, stop, r, lines') := breakLine st n i s.lines pageIsEmpty s.skip resume
      (.broke abort stop r { s with lines := lines', dbd := dbd }, breakLineUnlay c st calls i s.lines lines' fs)
    else
      let shift := pageIsEmpty && (ctxOf c fs).overflowsPage bs newPosY
      let newPosY' := if shift then newPosY - s.mt else newPosY
      let lineY := if shift then y - s.mt else y
      let mt' := if shift then 0 else s.mt
      match footLoop c (!s.lines.isEmpty || !pageIsEmpty) pageIsEmpty bs (newPosY' + offset) (lineFns st calls i) fs with
      | (.ok, fs') =>
        lineLoopF c st calls b n lineH pageIsEmpty bs fuel (i + 1) (y + lineH)
          { lines := s.lines ++ [(i, lineY)], posY := newPosY', skip := resume, mt := mt', dbd := dbd } fs'
      | (.brk, fs') =>
        let (abort, stop, r, lines') := breakLine st n i s.lines pageIsEmpty s.skip resume
        (.broke abort stop r { s with lines := lines', dbd := dbd, mt := mt' },
          breakLineUnlay c st calls i s.lines lines' fs')
      | (.abort, fs') => (.broke true false resume { s with dbd := dbd, mt := mt' }, fs')

def lineboxLoopF (c : FCtx) (st : PStyle) (calls : List Call) (b : BoxSt) (n : Nat) (lineH : Rat)
    (pageIsEmpty : Bool) (adj : List Rat) (bs : Rat) (posY : Rat) (skip : Option Resume) (dbd : Bool)
    (fs : FState) : LineOutcome × FState :=
  lineLoopF c st calls b n lineH pageIsEmpty bs (n - skipLine skip) (skipLine skip) (lineStart adj posY)
    { lines := [], posY := lineStart adj posY, skip := skip, mt := b.mt, dbd := dbd } fs

/-- Stage-1 `lineboxLayout`'s packaging of a loop outcome. -/
def lineResultOf (n : Nat) : LineOutcome → LineResult
  | .done s =>
    { abort := false, stop := false, resume := lastLineResume n s.lines none, posY := s.posY,
      lines := s.lines, mt := s.mt, dbd := s.dbd }
  | .broke a st' r s =>
    { abort := a, stop := st', resume := lastLineResume n s.lines r, posY := s.posY,
      lines := s.lines, mt := s.mt, dbd := s.dbd }

def lineboxLayoutF (c : FCtx) (st : PStyle) (calls : List Call) (b : BoxSt) (n : Nat) (lineH : Rat)
    (pageIsEmpty : Bool) (adj : List Rat) (bs : Rat) (posY : Rat) (skip : Option Resume) (dbd : Bool)
    (fs : FState) : LineResult × FState :=
  let o := lineboxLoopF c st calls b n lineH pageIsEmpty adj bs posY skip dbd fs
  (lineResultOf n o.1, o.2)

/-! ### block containers -/

structure LayoutResultF where
  r : LayoutResult
  fs : FState
  deriving Inhabited

/-- "the fragmented box must not be": the `return None, None, …` of `block_container_layout` that runs
`remove_placeholders(context, [*new_children, *box.children[skip:]], …)`. -/
def dropped (st : PStyle) (pageIsEmpty : Bool) (resume : Option Resume) : Bool :=
  resume.isSome && avoidsPage st.brkInside && !pageIsEmpty

/-- Paragraph container, after `_linebox_layout` returned `r` in state `fs`: stage-1 `finishPara`, and
the footnotes un-laid-out on the two `return None` paths, both through
`remove_placeholders(context, [*new_children, *box.children[skip:]], …)`: the laid-out lines first (on the abort
path since repair e3ac9f0), then `box.children[skip:]` = the source line box: every call of the paragraph. -/
def finishParaF (c : FCtx) (st : PStyle) (calls : List Call) (p : Prep) (pageIsEmpty : Bool) (id idx n : Nat)
    (r : LineResult) (fs : FState) : LayoutResultF :=
  let res := finishPara (ctxOf c fs) st p pageIsEmpty id idx n r
  if r.abort then ⟨res, unlayAll c fs (lineFnsList st calls r.lines ++ calls.map (mkFn st))⟩
  else
    let b := { p.b with mt := r.mt }
    let resume : Option Resume := if r.stop then forgetIfFixed st b r.posY r.resume else none
    if dropped st pageIsEmpty resume then
      ⟨res, unlayAll c fs (lineFnsList st calls r.lines ++ calls.map (mkFn st))⟩
    else ⟨res, fs⟩

def outResume (st : PStyle) (p : Prep) : KidsOutcome → Option Resume
  | .aborted _ _ => none
  | .stopped resume s => forgetIfFixed st p.b s.posY resume
  | .finished _ => none

/-- Block container, after the children loop returned `out` in state `fs`; `rest` = `box.children[skip:]`.
Both `return None` paths run `remove_placeholders(context, [*new_children, *box.children[skip:]], …)` (the abort
path since repair e3ac9f0). -/
def finishBlockF (c : FCtx) (st : PStyle) (rest : List FootBox) (p : Prep) (pageIsEmpty : Bool) (id idx : Nat)
    (out : KidsOutcome) (fs : FState) : LayoutResultF :=
  let res := finishBlock (ctxOf c fs) st p pageIsEmpty id idx out
  match out with
  | .aborted _ s => ⟨res, unlayAll c fs (tblFns c.tbl (flinesList s.newChildren) ++ boxFnsList rest)⟩
  | .stopped _ s =>
    if dropped st pageIsEmpty (outResume st p out) then
      ⟨res, unlayAll c fs (tblFns c.tbl (flinesList s.newChildren) ++ boxFnsList rest)⟩
    else ⟨res, fs⟩
  | .finished _ => ⟨res, fs⟩

/-- `remove_placeholders(context, [new_child], …)` in `_in_flow_layout`. -/
def unlayFrag (c : FCtx) (fs : FState) : Option Frag → FState
  | none => fs
  | some f => unlayAll c fs (tblFns c.tbl (flines f))

/-- Footnote effect of the first-pass decision of `_in_flow_layout`: the child's content overflows
(`new_child = None`) or it is laid out again — in both cases the first rendering goes through
`remove_placeholders`. -/
def firstPassUnlay (c : FCtx) (r : LayoutResult) (fp : FirstPass) (fs : FState) : FState :=
  match fp with
  | .keep none _ => unlayFrag c fs r.frag
  | .keep (some _) _ => fs
  | .redo _ => unlayFrag c fs r.frag

/-- Footnote effect of `find_earlier_page_break` in `_in_flow_layout` (stage-1 `concludeKid`): the
children after the earlier break — a suffix of the lines in tree order — go through `remove_placeholders`. -/
def earlierUnlay (c : FCtx) (pb : Brk) (s : KidsLoop) (frag : Option Frag) (fs : FState) : FState :=
  match frag with
  | some _ => fs
  | none =>
    if avoidsPage pb then
      match findEarlierList s.newChildren with
      | some (kept, _) => unlayAll c fs (tblFns c.tbl ((flinesList s.newChildren).drop (flinesList kept).length))
      | none => fs
    else fs

def dropKids : List FootBox → Nat → List FootBox
  | bs, 0 => bs
  | [], _ + 1 => []
  | _ :: bs, k + 1 => dropKids bs k

mutual

/-- `block_level_layout` with the footnote state (stage-1 `layoutBox`). -/
def layoutBoxF (c : FCtx) (box : FootBox) (idx : Nat) (y : Rat) (bs : Rat) (skip : Option Resume)
    (cbIsRoot : Bool) (pageIsEmpty : Bool) (adjL : List Rat) (fs : FState) : LayoutResultF :=
  match box with
  | .para id n lineH st calls =>
    let p := prepare (ctxOf c fs) st y bs skip cbIsRoot pageIsEmpty adjL
    let lineSkip : Option Resume := subSkipOf skip
    let lr := lineboxLayoutF c st calls p.b n lineH pageIsEmpty p.cur p.bs p.posY lineSkip p.dbd fs
    finishParaF c st calls p pageIsEmpty id idx n lr.1 lr.2
  | .block id st kids =>
    let p := prepare (ctxOf c fs) st y bs skip cbIsRoot pageIsEmpty adjL
    let skipIdx := skipIdxOf skip
    let subSkip : Option Resume := subSkipOf skip
    let o := layoutKidsF c st kids 0 skipIdx p.bs pageIsEmpty
      { newChildren := [], posY := p.posY, adjL := p.adjL, cur := p.cur, curIsL := p.curIsL,
        nextPage := { brk := none, page := none }, skip := subSkip } fs
    finishBlockF c st (dropKids kids skipIdx) p pageIsEmpty id idx o.1 o.2

/-- The children loop (stage-1 `layoutKids`). -/
def layoutKidsF (c : FCtx) (st : PStyle) : List FootBox → (index : Nat) → (skipIdx : Nat) → (bs : Rat) →
    (pageIsEmpty : Bool) → KidsLoop → FState → KidsOutcome × FState
  | [], _, _, _, _, s, fs => (.finished s, fs)
  | child :: rest, index, skipIdx, bs, pageIsEmpty, s, fs =>
    if index < skipIdx then layoutKidsF c st rest (index + 1) skipIdx bs pageIsEmpty s fs
    else
      let mb := meetBreak s child.erase
      if mb.2 then
        (.stopped (some (.node index none))
          { s with nextPage := { brk := some mb.1, page := some (boxPageStart child.erase) } }, fs)
      else
        let pienc := pageIsEmpty && s.newChildren.isEmpty
        let R := layoutBoxF c child index s.posY bs s.skip st.isRoot pienc s.cur fs
        let r := R.r
        let s1 := s.setCur r.adjL s.curIsL
        let fp := firstPass (ctxOf c R.fs) bs pienc s.posY r
        let fs1 := firstPassUnlay c r fp R.fs
        match fp with
        | .keep frag posY =>
          let s2 := { s1.adoptAdj r.frag.isSome r.adj frag with posY := posY, nextPage := r.nextPage, skip := none }
          match concludeKid index pageIsEmpty mb.1 child.erase s2 frag r.resume with
          | (some out, _) => (out, earlierUnlay c mb.1 s2 frag fs1)
          | (none, s3) => layoutKidsF c st rest (index + 1) skipIdx bs pageIsEmpty s3 fs1
        | .redo bs' =>
          let R2 := layoutBoxF c child index s.posY bs' s.skip st.isRoot pienc s1.cur fs1
          let r2 := R2.r
          let s1' := s1.setCur r2.adjL s1.curIsL
          let posY := match r2.frag with
            | some f2 => f2.geo.borderBoxY + f2.geo.borderHeight
            | none => s.posY
          let s2 := { s1'.adoptAdj true r2.adj r2.frag with posY := posY, nextPage := r2.nextPage, skip := none }
          match concludeKid index pageIsEmpty mb.1 child.erase s2 r2.frag r2.resume with
          | (some out, _) => (out, earlierUnlay c mb.1 s2 r2.frag R2.fs)
          | (none, s3) => layoutKidsF c st rest (index + 1) skipIdx bs pageIsEmpty s3 R2.fs

end

/-! ### pages -/

structure FDoc where
  pageH : Rat
  rootLtr : Bool
  root : FootBox
  area : AreaStyle                               -- `@page { @footnote { … } }`
  named : List (String × AreaStyle) := []        -- `@page <name> { @footnote { … } }` (all properties given)
  deriving Inhabited

/-- `context.style_for(page_type, '@footnote')`: the `@footnote` rule of the named page type when there is one
(it gives every property, so it replaces the unnamed rule), else the unnamed one. -/
def FDoc.areaFor (d : FDoc) (name : String) : AreaStyle :=
  match d.named.lookup name with
  | some a => a
  | none => d.area

def FDoc.erase (d : FDoc) : Doc := { pageH := d.pageH, rootLtr := d.rootLtr, root := d.root.erase }

/-- The footnote area as it is put on the page (`footnote_area.translate(dy=-margin_height)`):
position, height, remaining bottom decorations, and (id, position, height) of each footnote shown. -/
structure AreaOut where
  y : Rat
  h : Rat
  mb : Rat
  pb : Rat
  bb : Rat
  kids : List (Nat × Rat × Rat)
  deriving Repr, Inhabited, BEq

def areaKids : Rat → List Fn → List (Nat × Rat × Rat)
  | _, [] => []
  | y, f :: fs => (f.fid, y, f.height) :: areaKids (y + f.height) fs

def areaOut (a : AreaStyle) (pageH : Rat) (cur : List Fn) : Option AreaOut :=
  if cur.isEmpty then none
  else
    let box := areaLayout a pageH cur
    let dy := box.marginHeight
    some { y := box.y - dy, h := box.h, mb := box.mb, pb := box.pb, bb := box.bb,
           kids := areaKids (box.contentY - dy) box.shown }

structure FPage where
  page : Page                 -- stage-1 fields: type, root fragment, resume_at, next_page
  area : Option AreaOut
  cur : List Fn               -- `current_page_footnotes` at the end of `make_page`
  pending : List Fn           -- `context.footnotes` after the page
  reported : List Fn          -- `context.reported_footnotes` after the page
  deriving Inhabited

/-- The reported-footnotes loop at the start of `make_page`. -/
def placeReported (c : FCtx) : List Fn → (i : Nat) → FState → FState
  | [], _, fs => fs
  | f :: rest, i, fs =>
    let r := layoutFootnote c { fs with pending := fs.pending ++ [f] } f
    if r.2 && i ≠ 0 then
      { reportFootnote c r.1 f with reported := f :: rest }
    else placeReported c rest (i + 1) r.1

def emptyRootF : FootBox → FootBox
  | .para id _ lineH st _ => .para id 0 lineH st []
  | .block id st _ => .block id st []

/-- `blank` of `remake_page`: a side mismatch, or only postponed footnotes are left. -/
def isBlankF (d : FDoc) (resume : Option Resume) (nextPage : NextPage) (rightPage : Bool) (reported : List Fn)
    : Bool :=
  isBlank (requestedSide d.rootLtr nextPage.brk) rightPage || (!reported.isEmpty && resume.isNone)

def pageCtx (d : FDoc) (index : Nat) (nextPage : NextPage) : FCtx :=
  { area := d.area, pageH := d.pageH, currentPage := index + 1, forcedBreak := forcedBreakOf nextPage,
    tbl := callTable d.root }

/-- `name` of the page type in `remake_page`: '' for a blank page, else the page name asked by the previous page. -/
def pageNameF (d : FDoc) (resume : Option Resume) (nextPage : NextPage) (rightPage : Bool) (reported : List Fn)
    : String :=
  if isBlankF d resume nextPage rightPage reported then "" else (match nextPage.page with | some p => p | none => "")

/-- The layout context of the page: as `pageCtx`, with the `@footnote` style of the page type. -/
def pageCtxOf (d : FDoc) (index : Nat) (resume : Option Resume) (nextPage : NextPage) (rightPage : Bool)
    (reported : List Fn) : FCtx :=
  { pageCtx d index nextPage with area := d.areaFor (pageNameF d resume nextPage rightPage reported) }

/-- State in which the root box is laid out: fresh area, reported footnotes placed first. -/
def pageStart (d : FDoc) (c : FCtx) (pending reported : List Fn) : FState :=
  placeReported c reported 0
    { pending := pending, cur := [], reported := [], pageBottom := d.pageH, areaH := none }

/-- `remake_page` + `make_page` for page `index` (0-based). -/
def remakePageF (d : FDoc) (index : Nat) (resume : Option Resume) (nextPage : NextPage) (rightPage : Bool)
    (pending reported : List Fn) : Option FPage :=
  let blank := isBlankF d resume nextPage rightPage reported
  let name := pageNameF d resume nextPage rightPage reported
  let c := pageCtxOf d index resume nextPage rightPage reported
  let root := if blank then emptyRootF d.root else d.root
  let R := layoutBoxF c root 0 0 0 resume false true [] (pageStart d c pending reported)
  match R.r.frag with
  | none => none      -- `assert root_box`
  | some f =>
    some { page := { type := { right := rightPage, blank := blank, name := name, index := index },
                     root := f, resume := if blank then resume else R.r.resume,
                     nextPage := if blank then nextPage else R.r.nextPage },
           area := areaOut c.area d.pageH R.fs.cur, cur := R.fs.cur,
           pending := R.fs.pending, reported := R.fs.reported }

/-- `make_all_pages` with fuel; stops when `resume_at is None and not reported_footnotes`. -/
def makeAllPagesF (d : FDoc) : (fuel : Nat) → (index : Nat) → Option Resume → NextPage → Bool →
    (pending reported : List Fn) → Option (List FPage)
  | 0, _, _, _, _, _, _ => none
  | fuel + 1, index, resume, nextPage, rightPage, pending, reported =>
    match remakePageF d index resume nextPage rightPage pending reported with
    | none => none
    | some p =>
      if p.page.resume.isNone && p.reported.isEmpty then some [p]
      else
        match makeAllPagesF d fuel (index + 1) p.page.resume p.page.nextPage (!rightPage) p.pending p.reported with
        | some ps => some (p :: ps)
        | none => none

def paginateFoot (d : FDoc) (fuel : Nat) : Option (List FPage) :=
  makeAllPagesF d fuel 0 none { brk := none, page := some (boxPageStart d.root.erase) } (firstRight d.erase)
    (boxFns d.root) []

end Wp.PMF
