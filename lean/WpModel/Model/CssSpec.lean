/-
What CSS itself says about the properties, written down from the specifications (CSS 2.1 property
index, css-fonts, css-text, css-text-decor, css-tables, css-lists, css-break, css-multicol,
css-flexbox, css-grid, css-align, css-overflow, css-images, css-page, css-gcpm, css-ui, css-sizing) —
*not* generated from `/repo`: the tables regenerated from `weasyprint/css/properties.py`
(`Gen/Units.lean`: `inherited`, `initialValues`) follow the source, this file is what pins them to
the CSS definition (`Props/C06Spec.lean`), and what the `spec-inheritance` correspondence section
compares the real `ComputedStyle` / `AnonymousStyle` with.

`lang` and `link` are WeasyPrint's internal `-weasy-lang` / `-weasy-link` (the language and the
hyperlink target of an element apply to its descendants).
No Mathlib, no Std.
-/
import WpModel.Model.CssVal

namespace Wp.CssSpec
open Wp

/-- The inherited properties ("Inherited: yes" in the property definition), among the properties
WeasyPrint knows. -/
def cssInherited : List String :=
  ["block_ellipsis", "border_collapse", "border_spacing", "caption_side", "color", "direction",
   "empty_cells", "font_family", "font_feature_settings", "font_kerning", "font_language_override", "font_size",
   "font_stretch", "font_style", "font_variant", "font_variant_alternates", "font_variant_caps", "font_variant_east_asian",
   "font_variant_ligatures", "font_variant_numeric", "font_variant_position", "font_variation_settings", "font_weight", "hyphenate_character",
   "hyphenate_limit_chars", "hyphenate_limit_zone", "hyphens", "image_orientation", "image_rendering", "image_resolution",
   "lang", "letter_spacing", "line_height", "link", "list_style_image", "list_style_position",
   "list_style_type", "orphans", "overflow_wrap", "quotes", "tab_size", "text_align_all",
   "text_align_last", "text_indent", "text_transform", "text_underline_offset", "visibility", "white_space",
   "widows", "word_break", "word_spacing"]

/-- Is the property inherited, as CSS defines it? -/
def specInherits (key : String) : Bool := cssInherited.contains key

/-- Initial values ("Initial:" of the property definition) in the representation the code uses for
computed values, for the properties whose initial value is a plain keyword, number or zero length
(`medium` border widths are 3px; `border-spacing: 0` is the pair `(0, 0)`; the initial colours,
`max-*: none`, `size`, lists of layers and UA-dependent values are left out). -/
def cssInitial : List (String × Val) :=
  [("bottom", .kw "auto"),
   ("left", .kw "auto"),
   ("right", .kw "auto"),
   ("top", .kw "auto"),
   ("caption_side", .kw "top"),
   ("clear", .kw "none"),
   ("direction", .kw "ltr"),
   ("display", .strs ["inline", "flow"]),
   ("empty_cells", .kw "show"),
   ("float", .kw "none"),
   ("line_height", .kw "normal"),
   ("margin_top", .dim (0 : Rat) "px"),
   ("margin_right", .dim (0 : Rat) "px"),
   ("margin_bottom", .dim (0 : Rat) "px"),
   ("margin_left", .dim (0 : Rat) "px"),
   ("padding_top", .dim (0 : Rat) "px"),
   ("padding_right", .dim (0 : Rat) "px"),
   ("padding_bottom", .dim (0 : Rat) "px"),
   ("padding_left", .dim (0 : Rat) "px"),
   ("position", .kw "static"),
   ("table_layout", .kw "auto"),
   ("unicode_bidi", .kw "normal"),
   ("vertical_align", .kw "baseline"),
   ("visibility", .kw "visible"),
   ("z_index", .kw "auto"),
   ("border_top_style", .kw "none"),
   ("border_right_style", .kw "none"),
   ("border_bottom_style", .kw "none"),
   ("border_left_style", .kw "none"),
   ("border_top_width", .num (3 : Rat)),
   ("border_right_width", .num (3 : Rat)),
   ("border_bottom_width", .num (3 : Rat)),
   ("border_left_width", .num (3 : Rat)),
   ("border_collapse", .kw "separate"),
   ("border_spacing", .tup [.num (0 : Rat), .num (0 : Rat)]),
   ("border_top_color", .kw "currentcolor"),
   ("border_right_color", .kw "currentcolor"),
   ("border_bottom_color", .kw "currentcolor"),
   ("border_left_color", .kw "currentcolor"),
   ("opacity", .num (1 : Rat)),
   ("column_width", .kw "auto"),
   ("column_count", .kw "auto"),
   ("column_rule_style", .kw "none"),
   ("column_rule_width", .kw "medium"),
   ("column_fill", .kw "balance"),
   ("column_span", .kw "none"),
   ("font_kerning", .kw "auto"),
   ("font_size", .num (16 : Rat)),
   ("font_stretch", .kw "normal"),
   ("font_style", .kw "normal"),
   ("font_weight", .num (400 : Rat)),
   ("font_variant_caps", .kw "normal"),
   ("font_variant_position", .kw "normal"),
   ("box_decoration_break", .kw "slice"),
   ("break_after", .kw "auto"),
   ("break_before", .kw "auto"),
   ("break_inside", .kw "auto"),
   ("orphans", .num (2 : Rat)),
   ("widows", .num (2 : Rat)),
   ("bookmark_level", .kw "none"),
   ("bookmark_state", .kw "open"),
   ("footnote_display", .kw "block"),
   ("footnote_policy", .kw "auto"),
   ("image_rendering", .kw "auto"),
   ("image_orientation", .kw "from-image"),
   ("image_resolution", .num (1 : Rat)),
   ("object_fit", .kw "fill"),
   ("page", .kw "auto"),
   ("hyphens", .kw "manual"),
   ("letter_spacing", .kw "normal"),
   ("tab_size", .num (8 : Rat)),
   ("text_align_all", .kw "start"),
   ("text_align_last", .kw "auto"),
   ("text_indent", .dim (0 : Rat) "px"),
   ("text_transform", .kw "none"),
   ("white_space", .kw "normal"),
   ("word_break", .kw "normal"),
   ("outline_style", .kw "none"),
   ("outline_width", .num (3 : Rat)),
   ("outline_offset", .num (0 : Rat)),
   ("box_sizing", .kw "content-box"),
   ("height", .kw "auto"),
   ("width", .kw "auto"),
   ("min_height", .kw "auto"),
   ("min_width", .kw "auto"),
   ("flex_basis", .kw "auto"),
   ("flex_direction", .kw "row"),
   ("flex_grow", .num (0 : Rat)),
   ("flex_shrink", .num (1 : Rat)),
   ("flex_wrap", .kw "nowrap"),
   ("order", .num (0 : Rat)),
   ("column_gap", .kw "normal"),
   ("row_gap", .kw "normal"),
   ("text_decoration_line", .kw "none"),
   ("text_decoration_style", .kw "solid"),
   ("text_overflow", .kw "clip"),
   ("overflow", .kw "visible"),
   ("overflow_wrap", .kw "normal"),
   ("list_style_position", .kw "outside"),
   ("list_style_type", .kw "disc"),
   ("continue", .kw "auto"),
   ("max_lines", .kw "none"),
   ("margin_break", .kw "auto"),
   ("appearance", .kw "none"),
   ("content", .kw "normal"),
   ("quotes", .kw "auto"),
   ("string_set", .kw "none"),
   ("grid_auto_flow", .strs ["row"]),
   ("grid_template_columns", .kw "none"),
   ("grid_template_rows", .kw "none"),
   ("grid_template_areas", .kw "none"),
   ("grid_row_start", .kw "auto"),
   ("grid_row_end", .kw "auto"),
   ("grid_column_start", .kw "auto"),
   ("grid_column_end", .kw "auto"),
   ("align_items", .strs ["normal"]),
   ("align_self", .strs ["auto"]),
   ("align_content", .strs ["normal"]),
   ("justify_content", .strs ["normal"]),
   ("justify_self", .strs ["auto"]),
   ("transform", .strs [])]

end Wp.CssSpec
