/-
Grid layout: mirror of weasyprint/layout/grid.py — `_intersect`, `_intersect_with_children`,
`_get_line`, `_get_placement`, `_get_span`, `_get_second_placement`, `_get_sizing_functions`,
`_get_template_tracks`, `_resolve_tracks_sizes` (without `_distribute_extra_space`: spanning items
are required to have no intrinsic size) and `grid_layout` (explicit grid, implicit line names,
placement steps 1.1 to 1.4, implicit tracks, sizing, step 3.5 alignment, step 4 item boxes) for
grids of empty block items.

The code is mirrored as it is *now*, i.e. after the repairs 0e77b99 (`free_width` of step 3.5 without the
column gaps), e5d53d3 (sparse `_get_second_placement` starts at track 0 when nothing is occupied), cd18f00
(sparse "second axis given, first axis span" loop resolves the span from `cursor_first`), c8a4ac7 (`_get_line`
counts the occurrences of the name), 34cd729 (columns sized from `implicit_x1`), ca85a65 (justify-self uses the
max-content *content* width), cec57c9 (`size = 0` before the forward named-span loop), 5e11506 (the backward named
span counts with the span's own number), including what is still there:
  * `coord = number - 1` for negative line numbers as well (they are not counted from the end);
  * Python negative indexing / slicing of the track lists (`pyGet?`, `pySlice`);
  * items whose row is negative are never laid out (`skip_row <= y`).
`itertools.count()` loops run with a bound (`countBound`, the harness installs the same bound in the
real module); exhausting it is the outcome `err:NonTermination`.  No Mathlib.
-/
import WpModel.Model.Wire

namespace Wp.Grid
open Wp

/-- Python exception classes that the mirrored code can raise. -/
inductive GErr where
  | unboundLocal (site : String)
  | typeError (site : String)
  | indexError (site : String)
  | zeroDivision (site : String)
  | nonTermination (site : String)
  deriving Repr, DecidableEq

def GErr.render : GErr → String
  | .unboundLocal _ => "err:UnboundLocalError"
  | .typeError _ => "err:TypeError"
  | .indexError _ => "err:IndexError"
  | .zeroDivision _ => "err:ZeroDivisionError"
  | .nonTermination _ => "err:NonTermination"

/-- Bound installed on every `itertools.count()` loop (model and harness). -/
def countBound : Nat := 200

/-! ### Python list access -/

/-- `l[i]` with Python's negative indexing. -/
def pyGet? {α} (l : List α) (i : Int) : Option α :=
  let n : Int := l.length
  if 0 ≤ i ∧ i < n then l[i.toNat]?
  else if -n ≤ i ∧ i < 0 then l[(n + i).toNat]?
  else none

/-- Clamp a slice bound like Python does. -/
def sliceBound (n : Nat) (i : Int) : Nat :=
  if i < 0 then (if (n : Int) + i < 0 then 0 else ((n : Int) + i).toNat)
  else if i > n then n else i.toNat

/-- `l[i:j]` -/
def pySlice {α} (l : List α) (i j : Int) : List α :=
  let a := sliceBound l.length i
  let b := sliceBound l.length j
  (l.drop a).take (b - a)

/-- `l[i:]` -/
def pySliceFrom {α} (l : List α) (i : Int) : List α := l.drop (sliceBound l.length i)

/-- `l[k::-1]` for `k ≥ 0`: elements `min(k, len-1) … 0`. -/
def pyBackFrom {α} (l : List α) (k : Int) : List α :=
  if k < 0 then [] else (l.take (k.toNat + 1)).reverse

/-! ### `_intersect` -/

def intersect (p1 s1 p2 s2 : Int) : Bool := p1 < p2 + s2 && p2 < p1 + s1

abbrev Area := Int × Int × Int × Int   -- x, y, width, height

def intersectWithChildren (x y w h : Int) (positions : List Area) : Bool :=
  positions.any fun (fx, fy, fw, fh) => intersect x w fx fw && intersect y h fy fh

/-! ### grid lines -/

/-- `grid-row-start` etc.: `'auto'` or `(span, number, ident)`. -/
inductive Place where
  | auto
  | mk (span : Bool) (number : Option Int) (ident : Option String)
  deriving Repr, DecidableEq, Inhabited

structure LineRes where
  span : Bool
  number : Option Int
  ident : Option String
  coord : Option Int        -- `None` for spans

/-- `enumerate(lines)`: index of the first line containing `name`. -/
def findName (name : String) : List (List String) → Nat → Option Nat
  | [], _ => none
  | l :: rest, i => if l.contains name then some i else findName name rest (i + 1)

/-- The `for coord, line in enumerate(lines[::step])` loop of `_get_line`
(`if ident in line: number -= step` then `if number == 0: break`):
returns `(coord, number, broke)`; `coord = none` when the sequence is empty. -/
def scanNamed (ident : String) (step : Int) : List (List String) → Nat → Int → Option Nat → (Option Nat × Int × Bool)
  | [], _, number, last => (last, number, false)
  | l :: rest, i, number, _ =>
    let number := if l.contains ident then number - step else number
    if number == 0 then (some i, number, true)
    else scanNamed ident step rest (i + 1) number (some i)

/-- `_get_line(line, lines, side)` -/
def getLine (span : Bool) (number : Option Int) (ident : Option String)
    (lines : List (List String)) (side : String) : Except GErr LineRes := do
  -- `if ident and span is None and number is None`
  let (number, coord0) : Option Int × Option Int :=
    match ident, span, number with
    | some id, false, none =>
      if id.isEmpty then (number, none)
      else match findName (id ++ "-" ++ side) lines 0 with
        | some i => (none, some (i : Int))
        | none => (some 1, none)
    | _, _, _ => (number, none)
  -- `if number is not None and span is None`
  let (number, coord1) ← (match number, span with
    | some n, false =>
      match ident with
      | none => pure (some n, some (n - 1))
      | some id =>
        let step : Int := if n > 0 then 1 else -1
        let seq := if step == 1 then lines else lines.reverse
        let (c, n', broke) := scanNamed id step seq 0 n none
        match c with
        | none => throw (.unboundLocal "_get_line.coord")
        | some c =>
          let c : Int := if broke then c else c + n'.natAbs
          let c : Int := if step == -1 then (lines.length : Int) - 1 - c else c
          pure (some n', some c)
    | _, _ => pure (number, coord0) : Except GErr (Option Int × Option Int))
  if span then pure { span := span, number := number, ident := ident, coord := none }
  else match coord1 with
    | none => throw (.unboundLocal "_get_line.coord")
    | some c => pure { span := span, number := number, ident := ident, coord := some c }

def isAutoOrSpan : Place → Bool
  | .auto => true
  | .mk sp _ _ => sp

/-- `number or 1` -/
def numOr1 : Option Int → Int
  | none => 1
  | some n => if n == 0 then 1 else n

/-- `for size, line in enumerate(seq, start=1): if name in line: span_number -= 1; if span_number == 0: break`
→ `(size, span_number, broke)`. -/
def spanForward (name : String) : List (List String) → Int → Int → Int → (Int × Int × Bool)
  | [], _, size, sn => (size, sn, false)
  | l :: rest, k, _, sn =>
    let sn := if l.contains name then sn - 1 else sn
    if sn == 0 then (k, sn, true) else spanForward name rest (k + 1) k sn

/-- `for coord, line in enumerate(seq): if name in line: number -= 1; if number == 0: break`
→ `(coord, number, broke)`. -/
def spanBackward (name : String) : List (List String) → Int → Int → (Option Int × Int × Bool)
  | [], _, n => (none, n, false)
  | l :: rest, k, n =>
    let n := if l.contains name then n - 1 else n
    if n == 0 then (some k, n, true)
    else match spanBackward name rest (k + 1) n with
      | (none, n', b) => (some k, n', b)
      | r => r

/-- `_get_placement(start, end, lines)`: `none` = the function returns `None`. -/
def getPlacement (start end_ : Place) (lines : List (List String)) : Except GErr (Option (Int × Int)) := do
  if isAutoOrSpan start && isAutoOrSpan end_ then return none
  -- `size`, `span_ident` may stay unbound: `none` at the outer level
  let (size, spanIdent, coord) ← (match start with
    | .auto => pure (some 1, some none, none)
    | .mk sp n id => do
      let r ← getLine sp n id lines "start"
      if r.span then pure (some (numOr1 r.number), some r.ident, r.coord)
      else pure (none, none, r.coord) : Except GErr (Option Int × Option (Option String) × Option Int))
  let (size, coord) ← (match end_ with
    | .auto => pure (some 1, coord)
    | .mk sp n id => do
      let r ← getLine sp n id lines "end"
      let coordEnd := r.coord
      let mut size := size
      let mut spanIdent := spanIdent
      let mut coord := coord
      if r.span then
        let sn0 := numOr1 r.number
        size := some sn0
        spanIdent := some r.ident
        match r.ident with
        | none => pure ()
        | some name =>
          match coord with
          | none => throw (.typeError "_get_placement.coord+1")
          | some c =>
            -- `size = 0` before the loop (cec57c9): an empty `lines[coord+1:]` leaves `0 + span_number`
            let (sz, sn, broke) := spanForward name (pySliceFrom lines (c + 1)) 1 0 sn0
            size := some (if broke then sz else sz + sn)
      else
        match coord, coordEnd with
        | some c, some ce => size := some (ce - c)
        | some _, none => throw (.typeError "_get_placement.coord_end")
        | none, _ => pure ()
      if coord.isNone then
        match coordEnd with
        | none => throw (.typeError "_get_placement.coord_end")
        | some ce =>
          match spanIdent with
          | none => throw (.unboundLocal "_get_placement.span_ident")
          | some none =>
            match size with
            | none => throw (.unboundLocal "_get_placement.size")
            | some s => coord := some (ce - s)
          | some (some name) =>
            -- `number = size` (5e11506): the count of the span of the start line
            match size with
            | none => throw (.unboundLocal "_get_placement.size")
            | some number =>
            if ce > 0 then
              let (k, n', broke) := spanBackward name (pyBackFrom lines (ce - 1)) 0 number
              match broke, k with
              | true, some k => coord := some (ce - 1 - k)
              | _, _ => coord := some (-n')
            else coord := some (-number)
          match coord with
          | some c => size := some (ce - c)
          | none => pure ()
      pure (size, coord) : Except GErr (Option Int × Option Int))
  match size, coord with
  | some size, some coord =>
    let (size, coord) := if size < 0 then (-size, coord - (-size)) else (size, coord)
    let size := if size == 0 then 1 else size
    pure (some (coord, size))
  | none, _ => throw (.unboundLocal "_get_placement.size")
  | _, none => throw (.typeError "_get_placement.coord")

/-- `_get_span(place)` -/
def getSpan : Place → Int
  | .mk true n _ => numOr1 n
  | _ => 1

/-- `(None, n, None)` -/
def lineNo (n : Int) : Place := .mk false (some n) none

/-- A placement that must not be `None` (`placement[0]` would raise `TypeError`). -/
def getPlacement! (start end_ : Place) (lines : List (List String)) : Except GErr (Int × Int) := do
  match ← getPlacement start end_ lines with
  | some p => pure p
  | none => throw (.typeError "placement is None")

/-! ### `_get_second_placement` -/

def rangeInt (a b : Int) : List Int :=
  (List.range (b - a).toNat).map fun (k : Nat) => a + (k : Int)

def occupiedTracks (firstPlacement : Int × Int) (positions : List Area) (firstFlowRow : Bool) : List Int :=
  positions.foldl (fun acc (x, y, w, h) =>
    if firstFlowRow then
      if intersect y h firstPlacement.1 firstPlacement.2 then acc ++ rangeInt x (x + w) else acc
    else
      if intersect x w firstPlacement.1 firstPlacement.2 then acc ++ rangeInt y (y + h) else acc) []

def listMax0 (l : List Int) : Int := l.foldl max 0

/-- `max(occupied_tracks)` of a non-empty collection (0 for the empty one, never used then) -/
def maxOccupied : List Int → Int
  | [] => 0
  | x :: xs => xs.foldl max x

/-- `max(occupied_tracks) + 1 if occupied_tracks else 0`: first track of the sparse search. -/
def sparseStart (occupied : List Int) : Int :=
  if occupied.isEmpty then 0 else maxOccupied occupied + 1

def denseSecond (secondStart secondEnd : Place) (lines : List (List String)) (occupied : List Int) :
    Nat → Int → Except GErr (Int × Int)
  | 0, _ => throw (.nonTermination "_get_second_placement.dense")
  | fuel + 1, track =>
    if occupied.contains track then denseSecond secondStart secondEnd lines occupied fuel (track + 1)
    else do
      let placement ←
        if secondStart == .auto then getPlacement! (lineNo (track + 1)) secondEnd lines
        else getPlacement! secondStart (lineNo (track + 1 + getSpan secondStart)) lines
      if (rangeInt placement.1 (placement.1 + placement.2)).any occupied.contains then
        denseSecond secondStart secondEnd lines occupied fuel (track + 1)
      else pure placement

def sparseSecondSpan (secondStart : Place) (lines : List (List String)) (track : Int) :
    Nat → Int → Except GErr (Int × Int)
  | 0, _ => throw (.nonTermination "_get_second_placement.sparse")
  | fuel + 1, endTrack => do
    let placement ← getPlacement! secondStart (lineNo (endTrack + 1)) lines
    if placement.1 ≥ track then pure placement
    else sparseSecondSpan secondStart lines track fuel (endTrack + 1)

/-- `_get_second_placement(first_placement, second_start, second_end, second_tracks,
children_positions, first_flow, dense)`; `lines` is `second_tracks` as passed by the caller. -/
def getSecondPlacement (firstPlacement : Int × Int) (secondStart secondEnd : Place)
    (lines : List (List String)) (positions : List Area) (firstFlowRow dense : Bool) :
    Except GErr (Int × Int) :=
  let occupied := occupiedTracks firstPlacement positions firstFlowRow
  if dense then denseSecond secondStart secondEnd lines occupied countBound 0
  else
    let track := sparseStart occupied
    if secondStart == .auto then getPlacement! (lineNo (track + 1)) secondEnd lines
    else sparseSecondSpan secondStart lines track countBound (track + 1)

/-! ### track lists -/

inductive Breadth where
  | px (q : Rat) | pct (q : Rat) | fr (q : Rat) | auto | minContent | maxContent
  deriving Repr, DecidableEq, Inhabited

inductive TrackSize where
  | one (b : Breadth)
  | minmax (a b : Breadth)
  deriving Repr, DecidableEq, Inhabited

/-- Element of a `repeat()` track list. -/
inductive RElem where
  | names (l : List String)
  | size (t : TrackSize)
  deriving Repr, Inhabited

/-- Element of `grid-template-rows/columns` (alternating names / sizes as produced by the validator). -/
inductive TElem where
  | names (l : List String)
  | size (t : TrackSize)
  | rep (n : Option Nat) (inner : List RElem)      -- `none`: auto-fill / auto-fit
  deriving Repr, Inhabited

/-- Entry of the list returned by `_get_template_tracks`. -/
inductive TEntry where
  | names (l : List String)
  | size (t : TrackSize)
  deriving Repr, Inhabited

def appendNames (acc : List TEntry) (ns : List String) : List TEntry :=
  -- `if len(tracks_list) % 2: tracks_list[-1].extend(track) else tracks_list.append(list(track))`
  if acc.length % 2 == 1 then
    match acc.reverse with
    | .names l :: rest => (TEntry.names (l ++ ns) :: rest).reverse
    | _ => acc      -- `.extend` on a non-list: not reachable from validated values
  else acc ++ [.names ns]

def repeatOnce (acc : List TEntry) : List RElem → Nat → List TEntry
  | [], _ => acc
  | e :: rest, j =>
    if j % 2 == 1 then
      match e with
      | .size t => repeatOnce (acc ++ [.size t]) rest (j + 1)
      | .names l => repeatOnce (acc ++ [.names l]) rest (j + 1)
    else
      match e with
      | .names l => repeatOnce (appendNames acc l) rest (j + 1)
      | .size t => repeatOnce (acc ++ [.size t]) rest (j + 1)

def repeatN (inner : List RElem) : Nat → List TEntry → List TEntry
  | 0, acc => acc
  | n + 1, acc => repeatN inner n (repeatOnce acc inner 0)

def templateGo : List TElem → Nat → List TEntry → List TEntry
  | [], _, acc => acc
  | e :: rest, i, acc =>
    if i % 2 == 1 then
      match e with
      | .rep n inner => templateGo rest (i + 1) (repeatN inner (n.getD 1) acc)
      | .size t => templateGo rest (i + 1) (acc ++ [.size t])
      | .names l => templateGo rest (i + 1) (acc ++ [.names l])
    else
      match e with
      | .names l => templateGo rest (i + 1) (appendNames acc l)
      | .size t => templateGo rest (i + 1) (acc ++ [.size t])
      | .rep _ _ => templateGo rest (i + 1) acc

/-- `_get_template_tracks(tracks)`; `none` is the value `'none'`. -/
def getTemplateTracks : Option (List TElem) → List TEntry
  | none => [.names []]
  | some ts => templateGo ts 0 []

/-- `_get_sizing_functions(size)` → (min, max) -/
def getSizingFunctions : TrackSize → Breadth × Breadth
  | .one b => (match b with | .fr _ => .auto | x => x, b)
  | .minmax a b => (match a with | .fr _ => .auto | x => x, b)

/-- `rows[::2]` -/
def lineNames : List TEntry → List (List String)
  | [] => []
  | [.names l] => [l]
  | [.size _] => [[]]
  | .names l :: _ :: rest => l :: lineNames rest
  | .size _ :: _ :: rest => [] :: lineNames rest

/-- The whole alternating list seen as "lines" (what `_get_second_placement` receives): a size
entry contains no name. -/
def mixedLines (l : List TEntry) : List (List String) :=
  l.map fun | .names n => n | .size _ => []

/-- `rows[1::2]` -/
def trackSizes : List TEntry → List TrackSize
  | [] => []
  | [_] => []
  | _ :: .size t :: rest => t :: trackSizes rest
  | _ :: .names _ :: rest => trackSizes rest

/-! ### `_resolve_tracks_sizes` -/

def isFr : Breadth → Bool | .fr _ => true | _ => false
def frValue : Breadth → Rat | .fr q => q | _ => 0
def isIntrinsic : Breadth → Bool | .auto | .minContent | .maxContent => true | _ => false

/-- An item seen by the track sizing: track coordinate, span and intrinsic sizes (entries are in
the order of `children_positions`; spanning entries must have zero intrinsic sizes). -/
structure Contribution where
  coord : Int
  size : Int
  minContent : Rat
  maxContent : Rat
  height : Rat
  deriving Repr, Inhabited

/-- `[base_size, growth_limit]`; growth limit `none` = `inf`. -/
structure TSize where
  base : Rat
  limit : Option Rat
  deriving Repr, Inhabited

def pctOf (q box : Rat) : Rat := box * q / 100

/-- 1.1 -/
def initTrack (pbox : Rat) (f : Breadth × Breadth) : TSize :=
  let base : Rat := match f.1 with
    | .px q => q | .pct q => pctOf q pbox | _ => 0
  let limit : Option Rat := match f.2 with
    | .px q => some q | .pct q => some (pctOf q pbox) | _ => none
  { base := base, limit := match limit with | some l => some (max base l) | none => none }

def maxList (init : Rat) (l : List Rat) : Rat := l.foldl max init

def limitMaxBase (t : TSize) : TSize :=
  match t.limit with | some l => { t with limit := some (max t.base l) } | none => t

/-- 1.2.2 for one track and its children (`cs` non-empty). -/
def fitNonSpanning (dirX : Bool) (f : Breadth × Breadth) (t : TSize) (cs : List Contribution) : TSize :=
  if cs.isEmpty then t
  else if dirX then
    let t := match f.1 with
      | .minContent => { t with base := maxList 0 (cs.map (·.minContent)) }
      | .maxContent => { t with base := maxList 0 (cs.map (·.maxContent)) }
      | .auto => { t with base := maxList 0 (cs.map (·.minContent)) }
      | _ => t
    let t := match f.2 with
      | .minContent => (match cs.map (·.minContent) with | x :: xs => { t with limit := some (maxList x xs) } | [] => t)
      | .auto | .maxContent => (match cs.map (·.maxContent) with | x :: xs => { t with limit := some (maxList x xs) } | [] => t)
      | _ => t
    limitMaxBase t
  else
    let height := maxList 0 (cs.map (·.height))
    -- `'max_content'` (underscore) in the source never matches
    let t := match f.1 with
      | .minContent | .auto => { t with base := height }
      | _ => t
    let t := match f.2 with
      | .minContent => { t with limit := some height }
      | _ => t
    limitMaxBase t

/-- children of each track: `tracks_children[coord - implicit_start].append(child)` (Python index). -/
def assignChildren (n : Nat) (implicitStart : Int) (cs : List Contribution) :
    Except GErr (List (List Contribution)) :=
  (cs.filter (·.size == 1)).foldlM (fun acc c =>
    let i := c.coord - implicitStart
    let k : Int := if i < 0 then (n : Int) + i else i
    if k < 0 ∨ k ≥ n then throw (.indexError "tracks_children")
    else pure (acc.mapIdx fun j l => if (j : Int) == k then l ++ [c] else l)) (List.replicate n [])

/-- 1.2.3, index part: a spanning item (enumeration index `i` in `children_positions`) whose
`sizing_functions[i:i+span+1]` holds no `fr` maximum is appended to
`tracks_children[coord - implicit_start]`; only the possible `IndexError` is observable, the
distribution itself is a no-op for items without intrinsic size. -/
def checkSpanning (fns : List (Breadth × Breadth)) (implicitStart : Int) (cs : List Contribution) :
    Except GErr Unit :=
  let n : Int := fns.length
  (List.zip (List.range cs.length) cs).forM fun (i, c) =>
    if c.size < 2 then pure ()
    else if (pySlice fns i ((i : Int) + c.size + 1)).any (fun f => isFr f.2) then pure ()
    else
      let k := c.coord - implicitStart
      if k < -n ∨ k ≥ n then throw (.indexError "tracks_children (spanning)") else pure ()

def zipWith3 {α β γ δ} (f : α → β → γ → δ) : List α → List β → List γ → List δ
  | a :: as, b :: bs, c :: cs => f a b c :: zipWith3 f as bs cs
  | _, _, _ => []

/-- 1.3 maximise tracks: one pass with a running `free_space`. -/
def maximize (d : Rat) : List TSize → Rat → List TSize × Rat
  | [], free => ([], free)
  | t :: rest, free =>
    let limit := match t.limit with | some l => l | none => t.base   -- never `inf` after 1.2.5
    if t.base + d > limit then
      let (r, f) := maximize d rest (free - (limit - t.base))
      ({ t with base := limit } :: r, f)
    else
      let (r, f) := maximize d rest (free - d)
      ({ t with base := t.base + d } :: r, f)

/-- a track with its sizing functions -/
abbrev TF := TSize × (Breadth × Breadth)

/-- `Σ sizes[0]` over the tracks whose maximum is flexible -/
def frLeftover : List TF → Rat
  | [] => 0
  | (t, f) :: r => (if isFr f.2 then t.base else 0) + frLeftover r

/-- `Σ max_function.value` over the flexible tracks that are not inflexible (index `i` onwards) -/
def frFactorSum (infl : List Nat) : List TF → Nat → Rat
  | [], _ => 0
  | (_, f) :: r, i => (if isFr f.2 && !infl.contains i then frValue f.2 else 0) + frFactorSum infl r (i + 1)

/-- second `for` of the `while not stop` loop: tracks whose share would be below their base size
become inflexible. State: `(inflexible, free_space, stop)`. -/
def frMark (hyp : Rat) : List TF → Nat → (List Nat × Rat × Bool) → (List Nat × Rat × Bool)
  | [], _, st => st
  | (t, f) :: r, i, (infl, free, stop) =>
    if !infl.contains i && isFr f.2 && hyp * frValue f.2 < t.base then
      frMark hyp r (i + 1) (infl ++ [i], free - t.base, decide (free - t.base > 0))
    else frMark hyp r (i + 1) (infl, free, stop)

/-- One pass of the `while not stop` loop of 1.4. Returns `(hypothetical_fr_size, inflexible, free_space, stop)`. -/
def frPass (z : List TF) (inflexible : List Nat) (free : Rat) : Rat × List Nat × Rat × Bool :=
  let hyp := (free + frLeftover z) / max 1 (frFactorSum inflexible z 0)
  let r := frMark hyp z 0 (inflexible, free, true)
  (hyp, r.1, r.2.1, r.2.2)

def frLoop (z : List TF) : Nat → List Nat → Rat → Except GErr (Rat × List Nat × Rat)
  | 0, _, _ => throw (.nonTermination "_resolve_tracks_sizes.flex")
  | fuel + 1, infl, free =>
    let r := frPass z infl free
    if r.2.2.2 then pure (r.1, r.2.1, r.2.2.1) else frLoop z fuel r.2.1 r.2.2.1

/-- last loop of 1.4: flexible tracks take `flex_fraction × factor` when that is more than their base size -/
def frExpand (ff : Rat) (infl : List Nat) : List TF → Nat → Option Rat → List TSize × Option Rat
  | [], _, free => ([], free)
  | (t, f) :: r, i, free =>
    if isFr f.2 && !infl.contains i && ff * frValue f.2 > t.base then
      let rest := frExpand ff infl r (i + 1) (free.map (· - ff * frValue f.2))
      ({ t with base := ff * frValue f.2 } :: rest.1, rest.2)
    else
      let rest := frExpand ff infl r (i + 1) free
      (t :: rest.1, rest.2)

/-- 1.1 to 1.2.5: initial sizes, non-spanning items, index check of the spanning ones, infinite
growth limits replaced by the base size. -/
def prepareTracks (fns : List (Breadth × Breadth)) (pbox : Rat) (cs : List Contribution)
    (implicitStart : Int) (dirX : Bool) : Except GErr (List TSize) := do
  let tracks := fns.map (initTrack pbox)
  let children ← assignChildren tracks.length implicitStart cs
  let tracks := zipWith3 (fun f t c => fitNonSpanning dirX f t c) fns tracks children
  checkSpanning fns implicitStart cs
  pure (tracks.map fun t => match t.limit with | none => { t with limit := some t.base } | _ => t)

def sumBase : List TSize → Rat
  | [] => 0
  | t :: r => t.base + sumBase r

/-- `box_size - sum(base sizes) - (n - 1) * gap` -/
def tracksFree (b gap : Rat) (tracks : List TSize) : Rat :=
  b - sumBase tracks - ((tracks.length : Int) - 1 : Int) * gap

/-- 1.3 -/
def maximizeStep (tracks : List TSize) (free0 : Option Rat) : Except GErr (List TSize × Option Rat) :=
  match free0 with
  | some f =>
    if f > 0 then
      if tracks.length == 0 then throw (.zeroDivision "_resolve_tracks_sizes.maximize")
      else
        let r := maximize (f / tracks.length) tracks f
        pure (r.1, some r.2)
    else pure (tracks, some f)
  | none => pure (tracks, none)

/-- 1.4 up to the flex fraction: `(flex_fraction, inflexible_tracks, free_space)` -/
def flexStep (z : List TF) (free : Option Rat) : Except GErr (Rat × List Nat × Option Rat) :=
  match free with
  | some f =>
    if f ≤ 0 then pure ((0 : Rat), ([] : List Nat), some f)
    else
      match frLoop z (z.length + 2) [] f with
      | .error e => .error e
      | .ok r => pure (r.1, r.2.1, some r.2.2)
  | none =>
    let ff := z.foldl (fun (acc : Rat) (t, f) =>
      if isFr f.2 then
        if frValue f.2 > 1 then max acc (frValue f.2 * t.base) else max acc t.base
      else acc) 0
    pure (ff, [], none)

/-- 1.5 -/
def stretchStep (fns : List (Breadth × Breadth)) (tracks : List TSize) (free : Option Rat) (stretch : Bool) :
    List TSize :=
  match free with
  | some f =>
    if stretch && f > 0 then
      let autos := (fns.filter fun fn => fn.1 == .auto).length
      if autos != 0 then
        (List.zip tracks fns).map fun (t, fn) => if fn.1 == .auto then { t with base := t.base + f / autos } else t
      else tracks
    else tracks
  | none => tracks

/-- `_resolve_tracks_sizes(sizing_functions, box_size, children_positions, implicit_start, direction,
gap, context, containing_block, orthogonal_sizes)` for non-spanning contributions;
`stretch` = the container's justify-content (resp. align-content) is `normal` or `stretch`. -/
def resolveTracks (fns : List (Breadth × Breadth)) (boxSize : Option Rat) (cs : List Contribution)
    (implicitStart : Int) (dirX : Bool) (gap : Rat) (stretch : Bool) : Except GErr (List TSize) := do
  let pbox : Rat := match boxSize with | some b => b | none => 0
  let tracks ← prepareTracks fns pbox cs implicitStart dirX
  let r ← maximizeStep tracks (boxSize.map fun b => tracksFree b gap tracks)
  let z : List TF := List.zip r.1 fns
  let fl ← flexStep z r.2
  let ex := frExpand fl.1 fl.2.1 z 0 fl.2.2
  pure (stretchStep fns ex.1 ex.2 stretch)

/-! ### `grid_layout` -/

inductive ContentAlign where
  | center | endLike | spaceAround | spaceBetween | spaceEvenly | normal | stretch | other
  deriving Repr, DecidableEq, Inhabited

inductive SelfAlign where
  | auto | normal | stretch | center | endLike | right | other
  deriving Repr, DecidableEq, Inhabited

structure GItem where
  id : Nat
  order : Int
  rowStart : Place
  rowEnd : Place
  colStart : Place
  colEnd : Place
  sWidth : Len
  sHeight : Len
  ml : Len
  mr : Len
  mt : Len
  mb : Len
  pl : Rat
  pr : Rat
  pt : Rat
  pb : Rat
  bl : Rat
  br : Rat
  bt : Rat
  bb : Rat
  justifySelf : SelfAlign
  alignSelf : SelfAlign
  deriving Repr, Inhabited

structure GContainer where
  templateRows : Option (List TElem)
  templateCols : Option (List TElem)
  autoRows : List TrackSize
  autoCols : List TrackSize
  flowColumn : Bool
  dense : Bool
  areas : Option (List (List (Option String)))
  colGap : Rat
  rowGap : Rat
  width : Rat
  height : Len
  justifyContent : ContentAlign
  alignContent : ContentAlign
  justifyItems : SelfAlign
  alignItems : SelfAlign
  deriving Repr, Inhabited

/-- `next(cycle(l))` at position `k`. -/
def cycleGet (l : List TrackSize) (k : Nat) : Except GErr TrackSize :=
  match l with
  | [] => throw (.typeError "cycle of empty")     -- StopIteration; the validator never gives ()
  | x :: _ => pure (l.getD (k % l.length) x)

def insertByOrder (x : GItem) : List GItem → List GItem
  | [] => [x]
  | y :: ys => if x.order ≤ y.order then x :: y :: ys else y :: insertByOrder x ys

def sortByOrder : List GItem → List GItem
  | [] => []
  | x :: xs => insertByOrder x (sortByOrder xs)

/-- append a name to the names entry at Python index `i` of the alternating list -/
def addNameAt (l : List TEntry) (i : Int) (name : String) : Except GErr (List TEntry) :=
  let n : Int := l.length
  let k : Int := if i < 0 then n + i else i
  if k < 0 ∨ k ≥ n then throw (.indexError "implicit line names")
  else pure (l.mapIdx fun j e => if (j : Int) == k then
    (match e with | .names ns => .names (ns ++ [name]) | x => x) else e)

def allNames (l : List TEntry) : List String := (lineNames l).flatten

/-- "Add implicit line names": start names in reading order, end names in reverse order. -/
def addImplicitNames (areas : List (List (Option String))) (rows cols : List TEntry) :
    Except GErr (List TEntry × List TEntry) := do
  let mut rows := rows
  let mut cols := cols
  let mut y : Int := 0
  for row in areas do
    let mut x : Int := 0
    for a in row do
      match a with
      | none => pure ()
      | some name =>
        let s := name ++ "-start"
        if !(allNames rows).contains s then rows ← addNameAt rows (2 * y) s
        if !(allNames cols).contains s then cols ← addNameAt cols (2 * x) s
      x := x + 1
    y := y + 1
  y := 0
  for row in areas.reverse do
    let mut x : Int := 0
    for a in row.reverse do
      match a with
      | none => pure ()
      | some name =>
        let s := name ++ "-end"
        if !(allNames rows).contains s then rows ← addNameAt rows (-2 * y - 1) s
        if !(allNames cols).contains s then cols ← addNameAt cols (-2 * x - 1) s
      x := x + 1
    y := y + 1
  pure (rows, cols)

/-- Placement state of step 1. -/
structure PState where
  positions : List (Nat × Area)        -- insertion-ordered `children_positions`
  cursorFirst : Int
  cursorSecond : Int
  implicitFirst2 : Int

def PState.areas (s : PState) : List Area := s.positions.map (·.2)

def mkArea (firstFlowRow : Bool) (firstI firstSize secondI secondSize : Int) : Area :=
  if firstFlowRow then (secondI, firstI, secondSize, firstSize)
  else (firstI, secondI, firstSize, secondSize)

def areaIntersects (a : Area) (positions : List Area) : Bool :=
  intersectWithChildren a.1 a.2.1 a.2.2.1 a.2.2.2 positions

/-- placement of the first axis for an auto-placed item at row (resp. column) `k`:
`first_start == 'auto'` → `(None, k+1, None) / first_end`, else `first_start / (None, k+1+span, None)` -/
def placeAt (start end_ : Place) (lines : List (List String)) (k : Int) : Except GErr (Int × Int) :=
  if start == .auto then getPlacement! (lineNo (k + 1)) end_ lines
  else getPlacement! start (lineNo (k + 1 + getSpan start)) lines

/-- dense, second axis given: `for first_i in count(cursor_first)` -/
def denseLocked (firstFlowRow : Bool) (fs fe : Place) (flines : List (List String))
    (secondI secondSize cursorFirst : Int) (positions : List Area) :
    Nat → Int → Except GErr (Int × Int)
  | 0, _ => throw (.nonTermination "grid_layout.dense.count")
  | fuel + 1, k => do
    let (fi, fsz) ← placeAt fs fe flines k
    if fi < cursorFirst then denseLocked firstFlowRow fs fe flines secondI secondSize cursorFirst positions fuel (k + 1)
    else if areaIntersects (mkArea firstFlowRow fi fsz secondI secondSize) positions then
      denseLocked firstFlowRow fs fe flines secondI secondSize cursorFirst positions fuel (k + 1)
    else pure (fi, fsz)

/-- sparse, second axis given: `for cursor_first in count(cursor_first)`, the first axis resolved from
`cursor_first` (line `cursor_first + 1`, or `cursor_first + 1 + span` as the end line of a span).
Returns `(cursor_first, first_i, first_size)`. -/
def sparseLocked (firstFlowRow : Bool) (fs fe : Place) (flines : List (List String))
    (secondI secondSize : Int) (positions : List Area) :
    Nat → Int → Except GErr (Int × Int × Int)
  | 0, _ => throw (.nonTermination "grid_layout.sparse.count")
  | fuel + 1, cf => do
    let (fi, fsz) ← placeAt fs fe flines cf
    if fi < cf then sparseLocked firstFlowRow fs fe flines secondI secondSize positions fuel (cf + 1)
    else if areaIntersects (mkArea firstFlowRow fi fsz secondI secondSize) positions then
      sparseLocked firstFlowRow fs fe flines secondI secondSize positions fuel (cf + 1)
    else pure (cf, fi, fsz)

/-- The inner `for second_i in range(cursor_second, implicit_second_2)` of the free branch.
Returns `some (area, first_size, first_i)` when a free place is found, else `none` with the last `first_i`. -/
def scanSecond (firstFlowRow : Bool) (fs fe ss se : Place) (flines slines : List (List String))
    (implicitSecond2 : Int) (positions : List Area) :
    List Int → Int → Except GErr (Option (Area × Int) × Int)
  | [], fi => pure (none, fi)
  | s :: rest, fi => do
    let (fi, fsz) ← placeAt fs fe flines fi
    let (si, ssz) ← placeAt ss se slines s
    let a := mkArea firstFlowRow fi fsz si ssz
    if areaIntersects a positions || si + ssz > implicitSecond2 then
      scanSecond firstFlowRow fs fe ss se flines slines implicitSecond2 positions rest fi
    else pure (some (a, fsz), fi)

/-- `while True` of the free branch (dense and sparse differ only in the caller). Returns
`(area, first_size, cursor_first, cursor_second, implicit_first_2, first_i)`. -/
def freeLoop (firstFlowRow : Bool) (fs fe ss se : Place) (flines slines : List (List String))
    (implicitSecond1 implicitSecond2 : Int) (positions : List Area) :
    Nat → Int → Int → Int → Except GErr (Area × Int × Int × Int × Int × Int)
  | 0, _, _, _ => throw (.nonTermination "grid_layout.while")
  | fuel + 1, cf, cs, if2 => do
    let (found, fi) ← scanSecond firstFlowRow fs fe ss se flines slines implicitSecond2 positions
      (rangeInt cs implicitSecond2) cf
    match found with
    | some (a, fsz) => pure (a, fsz, cf, cs, if2, fi)
    | none =>
      let cf := cf + 1
      let diff := cf + 1 - if2
      let if2 := if diff > 0 then if2 + diff else if2
      freeLoop firstFlowRow fs fe ss se flines slines implicitSecond1 implicitSecond2 positions fuel cf implicitSecond1 if2

/-- Bound of the `while True` loops (they have no counterpart bound in the real code; the model
reports `NonTermination` beyond it). -/
def whileBound : Nat := 400

structure Placed where
  positions : List (Nat × Area)
  implicitX1 : Int
  implicitX2 : Int
  implicitY1 : Int
  implicitY2 : Int
  deriving Repr

def lookupArea (positions : List (Nat × Area)) (id : Nat) : Option Area :=
  (positions.find? fun p => p.1 == id).map (·.2)

def itemFirst (flowColumn : Bool) (i : GItem) : Place × Place :=
  if flowColumn then (i.colStart, i.colEnd) else (i.rowStart, i.rowEnd)
def itemSecond (flowColumn : Bool) (i : GItem) : Place × Place :=
  if flowColumn then (i.rowStart, i.rowEnd) else (i.colStart, i.colEnd)

/-- What step 1.4 needs to know besides its state. -/
structure PCtx where
  firstFlowRow : Bool
  flowColumn : Bool
  dense : Bool
  flines : List (List String)
  slines : List (List String)
  implicitFirst1 : Int
  implicitSecond1 : Int
  implicitSecond2 : Int

/-- Step 1.4, dense packing, second axis given. -/
def step14DenseGiven (ctx : PCtx) (st : PState) (it : GItem) (si ssz : Int) : Except GErr PState := do
  let (fs, fe) := itemFirst ctx.flowColumn it
  let cursorFirst := ctx.implicitFirst1
  let (fi, fsz) ← denseLocked ctx.firstFlowRow fs fe ctx.flines si ssz cursorFirst st.areas countBound cursorFirst
  let diff := fi + fsz - st.implicitFirst2
  pure { positions := st.positions ++ [(it.id, mkArea ctx.firstFlowRow fi fsz si ssz)],
         cursorFirst := cursorFirst, cursorSecond := si,
         implicitFirst2 := if diff > 0 then st.implicitFirst2 + diff else st.implicitFirst2 }

/-- Step 1.4, dense packing, both axes free. -/
def step14DenseFree (ctx : PCtx) (st : PState) (it : GItem) : Except GErr PState := do
  let (fs, fe) := itemFirst ctx.flowColumn it
  let (ss, se) := itemSecond ctx.flowColumn it
  let (a, fsz, cf, cs, if2, _) ← freeLoop ctx.firstFlowRow fs fe ss se ctx.flines ctx.slines
    ctx.implicitSecond1 ctx.implicitSecond2 st.areas whileBound ctx.implicitFirst1 ctx.implicitSecond1
    st.implicitFirst2
  let diff := cf + fsz - 1 - if2
  pure { positions := st.positions ++ [(it.id, a)], cursorFirst := cf, cursorSecond := cs,
         implicitFirst2 := if diff > 0 then if2 + diff else if2 }

/-- Step 1.4, sparse packing, second axis given. -/
def step14SparseGiven (ctx : PCtx) (st : PState) (it : GItem) (si ssz : Int) : Except GErr PState := do
  let (fs, fe) := itemFirst ctx.flowColumn it
  let cursorFirst := if si < st.cursorSecond then st.cursorFirst + 1 else st.cursorFirst
  let (cf, fi, fsz) ← sparseLocked ctx.firstFlowRow fs fe ctx.flines si ssz st.areas countBound cursorFirst
  let diff := fi + fsz - st.implicitFirst2
  pure { positions := st.positions ++ [(it.id, mkArea ctx.firstFlowRow fi fsz si ssz)],
         cursorFirst := cf, cursorSecond := si,
         implicitFirst2 := if diff > 0 then st.implicitFirst2 + diff else st.implicitFirst2 }

/-- Step 1.4, sparse packing, both axes free. -/
def step14SparseFree (ctx : PCtx) (st : PState) (it : GItem) : Except GErr PState := do
  let (fs, fe) := itemFirst ctx.flowColumn it
  let (ss, se) := itemSecond ctx.flowColumn it
  let (a, _, cf, cs, if2, _) ← freeLoop ctx.firstFlowRow fs fe ss se ctx.flines ctx.slines
    ctx.implicitSecond1 ctx.implicitSecond2 st.areas whileBound st.cursorFirst st.cursorSecond
    st.implicitFirst2
  pure { positions := st.positions ++ [(it.id, a)], cursorFirst := cf, cursorSecond := cs,
         implicitFirst2 := if2 }

/-- Step 1.4 for one of the remaining grid items (the four branches: dense / sparse, second axis
given / free). -/
def step14 (ctx : PCtx) (st : PState) (it : GItem) : Except GErr PState := do
  let sp ← getPlacement (itemSecond ctx.flowColumn it).1 (itemSecond ctx.flowColumn it).2 ctx.slines
  match ctx.dense, sp with
  | true, some (si, ssz) => step14DenseGiven ctx st it si ssz
  | true, none => step14DenseFree ctx st it
  | false, some (si, ssz) => step14SparseGiven ctx st it si ssz
  | false, none => step14SparseFree ctx st it

/-- Step 1 of `grid_layout`: the placement algorithm. `rows`/`cols` are the alternating lists after
the implicit names were added; `nRowsAreas`/`nColsAreas` = `len(grid_areas)`, `len(grid_areas[0])`. -/
def place (c : GContainer) (rows cols : List TEntry) (nRowsAreas nColsAreas : Nat)
    (items : List GItem) : Except GErr Placed := do
  let firstFlowRow := !c.flowColumn
  let firstTracks := if firstFlowRow then rows else cols
  let secondTracks := if firstFlowRow then cols else rows
  let flines := lineNames firstTracks
  let slines := lineNames secondTracks
  -- 1.1
  let mut positions : List (Nat × Area) := []
  for it in items do
    let cp ← getPlacement it.colStart it.colEnd (lineNames cols)
    let rp ← getPlacement it.rowStart it.rowEnd (lineNames rows)
    match cp, rp with
    | some (x, w), some (y, h) => positions := positions ++ [(it.id, (x, y, w, h))]
    | _, _ => pure ()
  -- 1.2
  let children := sortByOrder items
  for it in children do
    if (lookupArea positions it.id).isSome then continue
    let (fs, fe) := itemFirst c.flowColumn it
    match ← getPlacement fs fe flines with
    | none => continue
    | some fp =>
      let (ss, se) := itemSecond c.flowColumn it
      let sp ← getSecondPlacement fp ss se (mixedLines secondTracks) (positions.map (·.2)) firstFlowRow c.dense
      positions := positions ++ [(it.id, mkArea firstFlowRow fp.1 fp.2 sp.1 sp.2)]
  -- 1.3
  let mut implicitSecond1 : Int := 0
  let mut implicitSecond2 : Int := if firstFlowRow then nColsAreas else nRowsAreas
  let mut remaining : List GItem := []
  for it in children do
    match lookupArea positions it.id with
    | some (x, y, w, h) =>
      let (i, size) := if firstFlowRow then (x, w) else (y, h)
      implicitSecond1 := min i implicitSecond1
      implicitSecond2 := max (i + size) implicitSecond2
    | none =>
      let (ss, se) := itemSecond c.flowColumn it
      remaining := remaining ++ [it]
      match ← getPlacement ss se slines with
      | some (i, size) =>
        implicitSecond1 := min i implicitSecond1
        implicitSecond2 := max (i + size) implicitSecond2
      | none => pure ()
  for it in remaining do
    let (ss, se) := itemSecond c.flowColumn it
    -- `span = second_start[1]` (may be `None`), then `span or 1`
    let span : Int := match ss, se with
      | .mk true n _, _ => numOr1 n
      | _, .mk true n _ => numOr1 n
      | _, _ => 1
    implicitSecond2 := max (implicitSecond1 + span) implicitSecond2
  -- 1.4
  let mut implicitFirst1 : Int := 0
  let mut implicitFirst2 : Int := if firstFlowRow then nRowsAreas else nColsAreas
  for (_, (x, y, w, h)) in positions do
    let (i, size) := if firstFlowRow then (y, h) else (x, w)
    implicitFirst1 := min i implicitFirst1
    implicitFirst2 := max (i + size) implicitFirst2
  let ctx := PCtx.mk firstFlowRow c.flowColumn c.dense flines slines implicitFirst1 implicitSecond1 implicitSecond2
  let st0 := PState.mk positions implicitFirst1 implicitSecond1 implicitFirst2
  let st ← remaining.foldlM (step14 ctx) st0
  positions := st.positions
  implicitFirst2 := st.implicitFirst2
  if firstFlowRow then
    pure { positions := positions, implicitX1 := implicitSecond1, implicitX2 := implicitSecond2,
           implicitY1 := implicitFirst1, implicitY2 := implicitFirst2 }
  else
    pure { positions := positions, implicitX1 := implicitFirst1, implicitX2 := implicitFirst2,
           implicitY1 := implicitSecond1, implicitY2 := implicitSecond2 }

/-! #### explicit grid -/

/-- number of tracks of an alternating list: `int((len(rows) - 1) / 2)` -/
def nTracks (l : List TEntry) : Nat := (l.length - 1) / 2

structure Explicit where
  rows : List TEntry
  cols : List TEntry
  nRowsAreas : Nat
  nColsAreas : Nat
  autoRowsUsed : Nat          -- how many `next(auto_rows)` were consumed
  autoColsUsed : Nat

/-- "Define explicit grid" up to and including the implicit line names. -/
def explicitGrid (c : GContainer) : Except GErr Explicit := do
  let areas0 : List (List (Option String)) := match c.areas with | none => [[none]] | some a => a
  let mut rows := getTemplateTracks c.templateRows
  let mut cols := getTemplateTracks c.templateCols
  let areasCols := match areas0 with | [] => 0 | r :: _ => r.length
  let mut areas := areas0
  let mut usedR := 0
  let mut usedC := 0
  -- rows
  let nr := nTracks rows
  if nr > areas.length then
    areas := areas ++ List.replicate (nr - areas.length) (List.replicate areasCols none)
  else
    for _ in List.range (areas.length - nr) do
      rows := rows ++ [.size (← cycleGet c.autoRows usedR), .names []]
      usedR := usedR + 1
  -- columns
  let nc := nTracks cols
  if nc > areasCols then
    areas := areas.map fun r => r ++ List.replicate (nc - areasCols) none
  else
    for _ in List.range (areasCols - nc) do
      cols := cols ++ [.size (← cycleGet c.autoCols usedC), .names []]
      usedC := usedC + 1
  let (rows', cols') ← addImplicitNames areas rows cols
  pure { rows := rows', cols := cols', nRowsAreas := areas.length,
         nColsAreas := (match areas with | [] => 0 | r :: _ => r.length),
         autoRowsUsed := usedR, autoColsUsed := usedC }

/-- Prepend / append the implicit tracks. -/
def addImplicitTracks (l : List TEntry) (auto : List TrackSize) (used : Nat) (before after : Nat) :
    Except GErr (List TEntry) := do
  let mut l := l
  for k in List.range before do
    -- `cycle(auto[::-1])`
    l := [.names [], .size (← cycleGet auto.reverse k)] ++ l
  for k in List.range after do
    l := l ++ [.size (← cycleGet auto (used + k)), .names []]
  pure l

/-! #### step 3.5 -/

/-- positions of the tracks along one axis (`free` = the free space, gaps subtracted, floored at 0). -/
def alignTracks (a : ContentAlign) (start free gap : Rat) (sizes : List Rat) : List Rat :=
  let n := sizes.length
  let (x0, between) : Rat × Rat :=
    match a with
    | .center => (start + free / 2, gap)
    | .endLike => (start + free, gap)
    | .spaceAround => (start + free / 2 / n, free / n + gap)
    | .spaceBetween => (start, if n ≥ 2 then free / (n - 1 : Nat) + gap else 0)
    | .spaceEvenly => (start + free / (n + 1 : Nat), free / (n + 1 : Nat) + gap)
    | _ => (start, gap)
  let stay := a == .spaceBetween && n < 2
  let rec go : List Rat → Rat → List Rat
    | [], _ => []
    | s :: rest, x => x :: go rest (if stay then x else x + s + between)
  go sizes x0

/-! #### step 4: item boxes -/

structure Rect where
  id : Nat
  x : Rat
  y : Rat
  w : Rat
  h : Rat
  deriving Repr, Inhabited

def lenOr0 : Len → Rat
  | none => 0
  | some q => q

/-- `block_level_width` (ltr, no min/max) for a box of width `w` in a containing block of width `cb`:
returns `(margin_left, width, margin_right)`. -/
def blockLevelWidth (cb : Rat) (ml : Len) (w : Len) (mr : Len) (pb : Rat) : Rat × Rat × Rat :=
  let (ml, mr) : Len × Len :=
    match w with
    | some w =>
      let total := pb + w + lenOr0 ml + lenOr0 mr
      if total > cb then (some (lenOr0 ml), some (lenOr0 mr)) else (ml, mr)
    | none => (ml, mr)
  match w with
  | none =>
    let ml := lenOr0 ml
    let mr := lenOr0 mr
    (ml, cb - (pb + ml + mr), mr)
  | some w =>
    let marginSum := cb - pb - w
    match ml, mr with
    | none, none => (marginSum / 2, w, marginSum / 2)
    | none, some r => (marginSum - r, w, r)
    | some l, none => (l, w, marginSum - l)
    | some l, some r => (l, w, r)

def isStretch : SelfAlign → Bool
  | .normal | .stretch => true
  | _ => false

def resolveSelf (items : SelfAlign) (s : SelfAlign) : SelfAlign := if s == .auto then items else s

/-- Step 4 for one item in its area: `areaW`/`areaH` are the sums of the spanned tracks and gaps. -/
def itemRect (c : GContainer) (it : GItem) (px py areaW areaH : Rat) : Rect :=
  let hpb := it.pl + it.pr + it.bl + it.br
  let vpb := it.pt + it.pb + it.bt + it.bb
  let childW := areaW - (lenOr0 it.ml + lenOr0 it.mr + hpb)
  let childH := areaH - (lenOr0 it.mt + lenOr0 it.mb + vpb)
  let js := resolveSelf c.justifyItems it.justifySelf
  let as := resolveSelf c.alignItems it.alignSelf
  let sW : Len := if isStretch js && it.sWidth.isNone then some childW else it.sWidth
  let sH : Len := if isStretch as && it.sHeight.isNone then some childH else it.sHeight
  -- block layout of the empty child in the anonymous parent (areaW × areaH)
  let (ml, w, _) := blockLevelWidth areaW it.ml sW it.mr hpb
  -- `handle_min_max_width`: `min_width` is 0
  let (ml, w, _) := if w < 0 then blockLevelWidth areaW it.ml (some 0) it.mr hpb else (ml, w, (0 : Rat))
  let mt := lenOr0 it.mt
  -- `max(min(height, max_height), min_height)`
  let h := max 0 (lenOr0 sH)
  let x := px + ml
  let y := py + mt
  -- horizontal
  let (x, w) : Rat × Rat :=
    if isStretch js then (x, max childW w)
    else
      -- `max_content_width(context, new_child, outer=False)`: the content width
      let mc := lenOr0 sW
      let diff := childW - mc
      let x := if js == .center then x + diff / 2
               else if js == .endLike || js == .right then x + diff else x
      (x, mc)
  let (y, h) : Rat × Rat :=
    if isStretch as then (y, max childH h)
    else
      let diff := childH - h
      let y := if as == .center then y + diff / 2 else if as == .endLike then y + diff else y
      (y, h)
  { id := it.id, x := x, y := y, w := w + hpb, h := h + vpb }

structure Result where
  height : Rat
  positions : List (Nat × Area)
  colSizes : List Rat
  rowSizes : List Rat
  rects : List Rect
  deriving Repr

def sumR (l : List Rat) : Rat := l.foldl (· + ·) 0

/-- intrinsic contributions of an item (margin box of an empty block) -/
def contributions (positions : List (Nat × Area)) (items : List GItem) (dirX : Bool) : List Contribution :=
  positions.filterMap fun (id, (x, y, w, h)) =>
    match items.find? (·.id == id) with
    | none => none
    | some it =>
      let (coord, size) := if dirX then (x, w) else (y, h)
      let mw := lenOr0 it.sWidth + lenOr0 it.ml + lenOr0 it.mr + it.pl + it.pr + it.bl + it.br
      let mh := lenOr0 it.sHeight + lenOr0 it.mt + lenOr0 it.mb + it.pt + it.pb + it.bt + it.bb
      some { coord := coord, size := size, minContent := mw, maxContent := mw, height := mh }

def isStretchContent : ContentAlign → Bool
  | .normal | .stretch => true
  | _ => false

/-- `grid_layout` for a container whose content box is at (0, 0). -/
def layout (c : GContainer) (items : List GItem) : Except GErr Result := do
  let ex ← explicitGrid c
  let pl ← place c ex.rows ex.cols ex.nRowsAreas ex.nColsAreas items
  let cols ← addImplicitTracks ex.cols c.autoCols ex.autoColsUsed (0 - pl.implicitX1).toNat
    (pl.implicitX2 - ex.nColsAreas).toNat
  let rows ← addImplicitTracks ex.rows c.autoRows ex.autoRowsUsed (0 - pl.implicitY1).toNat
    (pl.implicitY2 - ex.nRowsAreas).toNat
  let rowFns := (trackSizes rows).map getSizingFunctions
  let colFns := (trackSizes cols).map getSizingFunctions
  -- 3.1
  let colT ← resolveTracks colFns (some c.width) (contributions pl.positions items true)
    pl.implicitX1 true c.colGap (isStretchContent c.justifyContent)
  let colSizes := colT.map (·.base)
  -- 3.2
  let rowT ← resolveTracks rowFns c.height (contributions pl.positions items false)
    pl.implicitY1 false c.rowGap (isStretchContent c.alignContent)
  let rowSizes := rowT.map (·.base)
  -- 3.5
  let freeW := max 0 (c.width - sumR colSizes - ((colSizes.length : Int) - 1 : Int) * c.colGap)
  let colPos := alignTracks c.justifyContent 0 freeW c.colGap colSizes
  let freeH : Rat := match c.height with
    | none => 0
    | some h => max 0 (h - sumR rowSizes - ((rowSizes.length : Int) - 1 : Int) * c.rowGap)
  let rowPos := alignTracks c.alignContent 0 freeH c.rowGap rowSizes
  -- 4
  let height : Rat := match c.height with
    | some h => h
    | none => sumR rowSizes + ((rowSizes.length : Int) - 1 : Int) * c.rowGap
  let mut rects : List Rect := []
  for it in sortByOrder items do
    match lookupArea pl.positions it.id with
    | none => throw (.typeError "KeyError children_positions")
    | some (x, y, w, h) =>
      if y < 0 then continue
      match pyGet? colPos x, pyGet? rowPos y with
      | some px, some py =>
        let areaW := sumR (pySlice colSizes x (x + w)) + ((w : Int) - 1 : Int) * c.colGap
        let areaH := sumR (pySlice rowSizes y (y + h)) + ((h : Int) - 1 : Int) * c.rowGap
        rects := rects ++ [itemRect c it px py areaW areaH]
      | _, _ => throw (.indexError "columns_positions[x]")
  pure { height := height, positions := pl.positions, colSizes := colSizes, rowSizes := rowSizes, rects := rects }

end Wp.Grid
