/-
`collapse_table_borders` of `weasyprint/layout/table.py`, mirrored branch for branch on an abstract
table (colours are opaque ids, 0 = `TRANSPARENT`).

The imperative function is modelled as: the list of grid operations it performs, in its order
(`genOps`: forced strong null borders inside spanning cells and the `set_one_border` offers of cells,
rows, row groups, columns, column groups, table), applied one by one to the two grids (`runOps`),
followed by the used border widths of the cells and of the table (`max_vertical_width`,
`max_horizontal_width`, halves).  Python's negative indices (the rtl branches) and slices are
modelled literally (`pyIndex`, `pySlice`); out-of-range indices and `max()` of an empty sequence are
explicit errors.  No Mathlib: linked into `driver_c10`.
-/
import WpModel.Model.Wire
import WpModel.Model.BorderTypes
import WpModel.Gen.BorderStyles

namespace Wp.Borders
open Wp

/-- `style_scores[style]` = position in `reversed([...])`. -/
def styleRank (s : BStyle) : Nat := Gen.BorderStyles.styleOrder.reverse.idxOf s

/-- `style_map.get(style, style)`. -/
def mapStyle (s : BStyle) : BStyle :=
  match Gen.BorderStyles.styleMap.lookup s with
  | some t => t
  | none => s

structure Border where
  style : BStyle
  width : Rat
  color : Nat
  deriving Repr, DecidableEq

/-- `(1 if style == 'hidden' else 0, width, style_scores[style])`, compared as a Python tuple. -/
structure Score where
  hidden : Nat
  width : Rat
  rank : Nat
  deriving Repr, DecidableEq

def Score.lt (a b : Score) : Bool :=
  decide (a.hidden < b.hidden) ||
  (decide (a.hidden = b.hidden) &&
    (decide (a.width < b.width) || (decide (a.width = b.width) && decide (a.rank < b.rank))))

def score (b : Border) : Score :=
  ⟨if b.style = .hidden then 1 else 0, b.width, styleRank b.style⟩

/-- One entry of a border grid: `(score, (style, width, color))`. -/
structure Edge where
  score : Score
  border : Border
  deriving Repr, DecidableEq

def nullEdge (n : Nat × Nat × BStyle) : Edge :=
  ⟨⟨n.1, (n.2.1 : Rat), styleRank n.2.2⟩, ⟨n.2.2, (n.2.1 : Rat), 0⟩⟩

def weakNull : Edge := nullEdge Gen.BorderStyles.weakNull
def strongNull : Edge := nullEdge Gen.BorderStyles.strongNull

abbrev Grid := List (List Edge)

structure Sides where
  top : Border
  right : Border
  bottom : Border
  left : Border
  deriving Repr

structure BCell where
  gridX : Nat
  colspan : Nat
  rowspan : Nat
  sides : Sides
  deriving Repr

structure BRow where
  sides : Sides
  cells : List BCell
  deriving Repr

structure BGroup where
  sides : Sides
  rows : List BRow
  deriving Repr

structure BCol where
  gridX : Nat
  sides : Sides
  deriving Repr

structure BColGroup where
  gridX : Nat
  span : Nat
  sides : Sides
  cols : List BCol
  deriving Repr

structure BTable where
  ltr : Bool
  sides : Sides
  groups : List BGroup
  colGroups : List BColGroup
  deriving Repr

/-! ### operations on the grids -/

inductive Which where
  | V | H
  deriving Repr, DecidableEq

/-- Who makes an offer, in the order of CSS 2.1 §17.6.2 (and of the code). -/
inductive Src where
  | cell | row | rowGroup | column | columnGroup | table
  deriving Repr, DecidableEq

def Src.rank : Src → Nat
  | .cell => 0 | .row => 1 | .rowGroup => 2 | .column => 3 | .columnGroup => 4 | .table => 5

/-- One write to a grid: `border = none` is `grid[y][x] = strong_null_border`, `some b` is
`set_one_border` with that border. `x` may be negative (rtl branches). -/
structure Op where
  which : Which
  x : Int
  y : Nat
  border : Option Border
  src : Src
  deriving Repr

/-- `range(a, a + n)`. -/
def rangeUp (a : Int) (n : Nat) : List Int := (List.range n).map (fun (k : Nat) => a + (k : Int))
/-- `range(a, a - n, -1)`. -/
def rangeDown (a : Int) (n : Nat) : List Int := (List.range n).map (fun (k : Nat) => a - (k : Int))
def rangeNat (a n : Nat) : List Nat := (List.range n).map (fun k => a + k)

/-- `set_borders(box, x, y, w, h)`. -/
def setBorders (ltr : Bool) (src : Src) (s : Sides) (x y w h : Nat) : List Op :=
  if ltr then
    (rangeNat y h).flatMap (fun yy =>
      [⟨.V, (x : Int), yy, some s.left, src⟩, ⟨.V, ((x + w : Nat) : Int), yy, some s.right, src⟩]) ++
    (rangeUp (x : Int) w).flatMap (fun xx =>
      [⟨.H, xx, y, some s.top, src⟩, ⟨.H, xx, y + h, some s.bottom, src⟩])
  else
    (rangeNat y h).flatMap (fun yy =>
      [⟨.V, -1 - (w : Int) - (x : Int), yy, some s.left, src⟩, ⟨.V, -1 - (x : Int), yy, some s.right, src⟩]) ++
    (rangeDown (-1 - (x : Int)) w).flatMap (fun xx =>
      [⟨.H, xx, y, some s.top, src⟩, ⟨.H, xx, y + h, some s.bottom, src⟩])

/-- The cell part of the first loop: null borders inside the span, then the cell's own borders. -/
def cellOps (ltr : Bool) (c : BCell) (gridY : Nat) : List Op :=
  let vx := if ltr then rangeUp ((c.gridX : Int) + 1) (c.colspan - 1)
            else rangeDown (-2 - (c.gridX : Int)) (c.colspan - 1)
  let hx := if ltr then rangeUp (c.gridX : Int) c.colspan
            else rangeDown (-1 - (c.gridX : Int)) c.colspan
  vx.flatMap (fun xx => (rangeNat gridY c.rowspan).map (fun yy => (⟨.V, xx, yy, none, .cell⟩ : Op))) ++
  hx.flatMap (fun xx => (rangeNat (gridY + 1) (c.rowspan - 1)).map (fun yy => (⟨.H, xx, yy, none, .cell⟩ : Op))) ++
  setBorders ltr .cell c.sides c.gridX gridY c.colspan c.rowspan

/-- All rows of the table with their `grid_y`. -/
def rowsWithY (groups : List BGroup) : List (Nat × BRow) :=
  (groups.flatMap (·.rows)).zipIdx.map (fun (r, i) => (i, r))

/-- Row groups with the `grid_y` of their first row. -/
def groupsWithY : Nat → List BGroup → List (Nat × BGroup)
  | _, [] => []
  | y, g :: gs => (y, g) :: groupsWithY (y + g.rows.length) gs

/-- Every grid write of `collapse_table_borders`, in execution order. -/
def genOps (t : BTable) (gw gh : Nat) : List Op :=
  (rowsWithY t.groups).flatMap (fun (y, r) => r.cells.flatMap (fun c => cellOps t.ltr c y)) ++
  (rowsWithY t.groups).flatMap (fun (y, r) => setBorders t.ltr .row r.sides 0 y gw 1) ++
  (groupsWithY 0 t.groups).flatMap (fun (y, g) => setBorders t.ltr .rowGroup g.sides 0 y gw g.rows.length) ++
  t.colGroups.flatMap (fun cg => cg.cols.flatMap (fun c => setBorders t.ltr .column c.sides c.gridX 0 1 gh)) ++
  t.colGroups.flatMap (fun cg => setBorders t.ltr .columnGroup cg.sides cg.gridX 0 cg.span gh) ++
  setBorders t.ltr .table t.sides 0 0 gw gh

/-- Python list indexing with a possibly negative index. -/
def pyIndex (len : Nat) (i : Int) : Option Nat :=
  if i < 0 then (if (-i).toNat ≤ len then some (len - (-i).toNat) else none)
  else (if i.toNat < len then some i.toNat else none)

/-- `set_one_border` on one entry: strict `<`, so the earlier offer wins a tie. -/
def offerEdge (prev : Edge) (b : Border) : Edge :=
  if prev.score.lt (score b) then ⟨score b, ⟨mapStyle b.style, b.width, b.color⟩⟩ else prev

def applyEdge (prev : Edge) (b : Option Border) : Edge :=
  match b with
  | none => strongNull
  | some b => offerEdge prev b

/-- One write to one grid. -/
def applyTo (g : Grid) (x : Int) (y : Nat) (b : Option Border) : Except PyErr Grid :=
  match g[y]? with
  | none => .error (.indexError "border_grid[y]")
  | some row =>
    match pyIndex row.length x with
    | none => .error (.indexError "border_grid[y][x]")
    | some xi =>
      match row[xi]? with
      | none => .error (.indexError "border_grid[y][x]")
      | some prev => .ok (g.set y (row.set xi (applyEdge prev b)))

def applyOp (st : Grid × Grid) (op : Op) : Except PyErr (Grid × Grid) :=
  match op.which with
  | .V => (applyTo st.1 op.x op.y op.border).map (fun v => (v, st.2))
  | .H => (applyTo st.2 op.x op.y op.border).map (fun h => (st.1, h))

def runOps : Grid × Grid → List Op → Except PyErr (Grid × Grid)
  | st, [] => .ok st
  | st, op :: ops =>
    match applyOp st op with
    | .error e => .error e
    | .ok st' => runOps st' ops

def initGrids (gw gh : Nat) : Grid × Grid :=
  (List.replicate gh (List.replicate (gw + 1) weakNull),
   List.replicate (gh + 1) (List.replicate gw weakNull))

/-! ### used border widths -/

def maxList : List Rat → Option Rat
  | [] => none
  | x :: xs => match maxList xs with
    | none => some x
    | some m => some (if m > x then m else x)

/-- Clamp of a slice bound. -/
def pyClamp (len : Nat) (i : Int) : Nat :=
  if i < 0 then (if (-i).toNat ≤ len then len - (-i).toNat else 0) else min i.toNat len

/-- `l[a:b]` (`b = None` ↦ `none`). -/
def pySlice {α} (l : List α) (a : Int) (b : Option Int) : List α :=
  let s := pyClamp l.length a
  let e := match b with
    | none => l.length
    | some b => pyClamp l.length b
  (l.drop s).take (e - s)

def allOk {α} : List (Except PyErr α) → Except PyErr (List α)
  | [] => .ok []
  | x :: xs => match x, allOk xs with
    | .error e, _ => .error e
    | .ok _, .error e => .error e
    | .ok v, .ok vs => .ok (v :: vs)

/-- `max(grid_row[x][1][1] for grid_row in vertical_borders[y1:y2])`. -/
def maxVertical (v : Grid) (x : Int) (y1 y2 : Nat) : Except PyErr Rat :=
  let rows := (v.drop y1).take (y2 - y1)
  let widths := allOk (rows.map (fun row =>
    match pyIndex row.length x with
    | none => .error (.indexError "grid_row[x]")
    | some xi => match row[xi]? with
      | none => .error (.indexError "grid_row[x]")
      | some e => .ok e.border.width))
  match widths with
  | .error e => .error e
  | .ok ws => match maxList ws with
    | none => .error (.valueError "max")
    | some m => .ok m

/-- `max(width for _, (_, width, _) in horizontal_borders[y][x1:x2])`. -/
def maxHorizontal (h : Grid) (x1 : Int) (y : Nat) (x2 : Option Int) : Except PyErr Rat :=
  match h[y]? with
  | none => .error (.indexError "horizontal_borders[y]")
  | some row =>
    match maxList ((pySlice row x1 x2).map (·.border.width)) with
    | none => .error (.valueError "max")
    | some m => .ok m

/-- Used widths `(top, right, bottom, left)`. -/
structure Used where
  top : Rat
  right : Rat
  bottom : Rat
  left : Rat
  deriving Repr, DecidableEq

/-- The four `set_border_used_width(cell, side, max…)` of one cell (evaluation order: top, bottom,
left, right; the stored value is `twice_width / 2`). -/
def cellUsed (ltr : Bool) (v h : Grid) (c : BCell) (y : Nat) : Except PyErr Used :=
  let x : Int := c.gridX
  let cs : Int := c.colspan
  let rs := c.rowspan
  if ltr then do
    let top ← maxHorizontal h x y (some (x + cs))
    let bottom ← maxHorizontal h x (y + rs) (some (x + cs))
    let left ← maxVertical v x y (y + rs)
    let right ← maxVertical v (x + cs) y (y + rs)
    pure ⟨top / 2, right / 2, bottom / 2, left / 2⟩
  else do
    let stop : Option Int := if -x = 0 then none else some (-x)    -- `-x or None`
    let top ← maxHorizontal h (-cs - x) y stop
    let bottom ← maxHorizontal h (-cs - x) (y + rs) stop
    let left ← maxVertical v (-1 - cs - x) y (y + rs)
    let right ← maxVertical v (-1 - x) y (y + rs)
    pure ⟨top / 2, right / 2, bottom / 2, left / 2⟩

def tableUsed (v h : Grid) (gw gh : Nat) : Except PyErr Used := do
  let top ← maxHorizontal h 0 0 (some (gw : Int))
  let bottom ← maxHorizontal h 0 gh (some (gw : Int))
  let left ← maxVertical v 0 0 1
  let right ← maxVertical v (gw : Int) 0 1
  pure ⟨top / 2, right / 2, bottom / 2, left / 2⟩

structure Out where
  vertical : Grid
  horizontal : Grid
  cells : List Used          -- in document order
  table : Option Used        -- `none`: empty grid, nothing is set
  deriving Repr

/-- `collapse_table_borders(table, grid_width, grid_height)`. -/
def collapse (t : BTable) (gw gh : Nat) : Except PyErr Out :=
  if gw = 0 ∨ gh = 0 then .ok ⟨[], [], [], none⟩
  else
    match runOps (initGrids gw gh) (genOps t gw gh) with
    | .error e => .error e
    | .ok (v, h) =>
      let cells := allOk ((rowsWithY t.groups).flatMap (fun (y, r) =>
        r.cells.map (fun c => cellUsed t.ltr v h c y)))
      match cells with
      | .error e => .error e
      | .ok cs =>
        match tableUsed v h gw gh with
        | .error e => .error e
        | .ok tu => .ok ⟨v, h, cs, some tu⟩

end Wp.Borders
