/-
Model of the box-decoration removal of `weasyprint/formatting_structure/boxes.py` (C05 clauses (a)(b)(g): the
used margins, paddings and borders of the fragments of a box that is split between pages or lines):

  ParentBox._reset_spacing(side)          margin, padding and border of `side` become 0; `side` is recorded in
                                          `remove_decoration_sides` (read by `resolve_radii_percentages` and the painter)
  ParentBox.remove_decoration(start, end) top / bottom, unless `box-decoration-break: clone`
  InlineBox.remove_decoration(start, end) left / right in ltr, right / left in rtl, unless `clone`

The used values are those of `BoxEdges.EBox`; `remove_decoration_sides` is a set of at most four sides.
No Mathlib: linked into the driver.
-/
import WpModel.Model.BoxEdges

namespace Wp.BoxDeco
open Wp Wp.BoxEdges

inductive Side where
  | top | right | bottom | left
  deriving Repr, DecidableEq

/-- `remove_decoration_sides`: a Python `set` of side names. -/
structure Sides where
  top : Bool
  right : Bool
  bottom : Bool
  left : Bool
  deriving Repr, DecidableEq

def Sides.empty : Sides := { top := false, right := false, bottom := false, left := false }

def Sides.mem (s : Sides) : Side → Bool
  | .top => s.top
  | .right => s.right
  | .bottom => s.bottom
  | .left => s.left

/-- `self.remove_decoration_sides.add(side)` -/
def Sides.add (s : Sides) : Side → Sides
  | .top => { s with top := true }
  | .right => { s with right := true }
  | .bottom => { s with bottom := true }
  | .left => { s with left := true }

/-- A box with its used values and its `remove_decoration_sides`. -/
structure DBox where
  box : EBox
  removed : Sides
  deriving Repr, DecidableEq

/-- `ParentBox._reset_spacing(side)`:
```python
self.remove_decoration_sides.add(side)
setattr(self, f'margin_{side}', 0); setattr(self, f'padding_{side}', 0); setattr(self, f'border_{side}_width', 0)
``` -/
def resetSpacing (side : Side) (b : DBox) : DBox :=
  let removed := b.removed.add side
  match side with
  | .top => { box := { b.box with mt := 0, pt := 0, bt := 0 }, removed }
  | .right => { box := { b.box with mr := 0, pr := 0, br := 0 }, removed }
  | .bottom => { box := { b.box with mb := 0, pb := 0, bb := 0 }, removed }
  | .left => { box := { b.box with ml := 0, pl := 0, bl := 0 }, removed }

/-- `ParentBox.remove_decoration(start, end)`; `clone` = `style['box_decoration_break'] == 'clone'`. -/
def removeDecoration (clone start end_ : Bool) (b : DBox) : DBox :=
  if clone then b
  else
    let b := if start then resetSpacing .top b else b
    if end_ then resetSpacing .bottom b else b

/-- `InlineBox.remove_decoration(start, end)`; `ltr` = `style['direction'] == 'ltr'`. -/
def removeDecorationInline (clone ltr start end_ : Bool) (b : DBox) : DBox :=
  if clone then b
  else
    let b := if start then resetSpacing (if ltr then .left else .right) b else b
    if end_ then resetSpacing (if ltr then .right else .left) b else b

end Wp.BoxDeco
