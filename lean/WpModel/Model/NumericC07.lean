/-
C07 — the numeric `@single_token` validators of weasyprint/css/validation/properties.py
(`orphans`, `widows`, `column-count`, `max-lines`, `bookmark-level`, `tab-size`, `z-index`, `order`, `font-weight`,
`line-height`, `flex-grow`, `flex-shrink`): each is a short sequence of `if` clauses on one token

    number with an int_value [>= K | in (…)]  → the integer
    get_keyword(token) == / in keywords        → the keyword
    number / percentage / dimension [>= K]     → token.value, Dimension(value, None | '%'), get_length(token)
    return get_length(token, negative=…, percentage=…)

The clause lists (bounds, keyword tuples, flags, `elif`) are regenerated from the source by AST
(Gen/NumericC07, py/extract/c07_numeric.py); this file is the interpreter of a clause list, i.e. the Python
`if` / `elif` / `return` semantics, plus `single_token` (exactly one token).
`get_length` is the model of Model/LengthC07.
No Mathlib, no Std: linked into the driver.
-/
import WpModel.Model.Wire
import WpModel.Model.LengthC07
import WpModel.Gen.NumericC07

namespace Wp.Num07
open Wp Wp.Len07

/-- What the numeric validators read of a token. -/
structure NTok where
  intValue : Option Int       -- `token.int_value` of a number token (None when not written as an integer)
  keyword : Option String     -- `get_keyword(token)`: `lower_value` of an ident token
  ltok : LTok                 -- type, `value`, unit
  deriving Repr, BEq, DecidableEq

/-- What a numeric validator returns. -/
inductive NVal where
  | int (n : Int)               -- `token.int_value`
  | kw (k : String)
  | num (q : Rat)               -- `token.value`
  | len (s : Spec)              -- a `Dimension`
  deriving Repr, BEq, DecidableEq

structure Clause where
  kind : String
  lower : Option Int
  allowed : List Int
  keywords : List String
  isElif : Bool
  flagA : Bool
  flagB : Bool
  deriving Repr, BEq, DecidableEq

def Clause.ofGen (c : Gen.NumericC07.Clause) : Clause :=
  { kind := c.1, lower := c.2.1, allowed := c.2.2.1, keywords := c.2.2.2.1, isElif := c.2.2.2.2.1,
    flagA := c.2.2.2.2.2.1, flagB := c.2.2.2.2.2.2 }

def NTok.isNumber (t : NTok) : Bool := match t.ltok with | .number _ => true | _ => false

/-- `token.value >= K` (always true without a bound). -/
def geBound (lower : Option Int) (v : Rat) : Bool :=
  match lower with
  | none => true
  | some k => decide ((k : Rat) ≤ v)

/-- The test of the `if` of a clause. -/
def Clause.test (c : Clause) (t : NTok) : Bool :=
  if c.kind == "int" then t.isNumber && t.intValue.isSome
  else if c.kind == "kw" then (match t.keyword with | some k => c.keywords.contains k | none => false)
  else if c.kind == "number" then (match t.ltok with | .number v => geBound c.lower v | _ => false)
  else if c.kind == "percentage" then (match t.ltok with | .percentage v => geBound c.lower v | _ => false)
  else if c.kind == "dimension" then (match t.ltok with | .dimension v _ _ => geBound c.lower v | _ => false)
  else c.kind == "length"          -- the final unconditional `return get_length(…)`

/-- `int_value >= K` (when there is a bound) and `int_value in (…)` (when there is a tuple). -/
def Clause.intOk (c : Clause) (n : Int) : Bool :=
  (match c.lower with | none => true | some k => decide (k ≤ n)) && (c.allowed.isEmpty || c.allowed.contains n)

/-- What the body of the clause returns once its test holds (`none`: falls out of the `if` without `return`, or
returns `None`). -/
def Clause.value (c : Clause) (t : NTok) : Option NVal :=
  if c.kind == "int" then
    match t.intValue with
    | some n => if c.intOk n then some (.int n) else none
    | none => none
  else if c.kind == "kw" then t.keyword.map .kw
  else if c.kind == "number" then
    (match t.ltok with | .number v => some (if c.flagA then .len (.dim v none) else .num v) | _ => none)
  else if c.kind == "percentage" then
    (match t.ltok with | .percentage v => some (.len (.dim v (some "%"))) | _ => none)
  else if c.kind == "dimension" then (getLength true false t.ltok).map .len
  else if c.kind == "length" then (getLength c.flagA c.flagB t.ltok).map .len
  else none

/-- A `return get_length(…)` whose result is `None` ends the function all the same. -/
def Clause.returnsAlways (c : Clause) : Bool := c.kind == "length" || c.kind == "dimension"

/-- The statement sequence: `taken` = an earlier branch of the current `if … elif …` chain was entered. -/
def evalClauses : List Clause → Bool → NTok → Option NVal
  | [], _, _ => none
  | c :: rest, taken, t =>
    if c.isElif && taken then evalClauses rest taken t
    else if c.test t then
      match c.value t with
      | some v => some v
      | none => if c.returnsAlways then none else evalClauses rest true t
    else evalClauses rest (c.isElif && taken) t

/-- The clause list of a property (generated). -/
def clausesOf (name : String) : Option (List Clause) :=
  (Gen.NumericC07.numericValidators.lookup name).map fun e => e.2.map Clause.ofGen

/-- `PROPERTIES[name](tokens)` for a numeric property: `single_token` (exactly one token), then the clauses.
Outer `none`: not a numeric property; inner `none`: Python `None` (invalid). -/
def validate (name : String) (tokens : List NTok) : Option (Option NVal) :=
  match clausesOf name with
  | none => none
  | some cs =>
    match tokens with
    | [t] => some (evalClauses cs false t)
    | _ => some none

/-! ### "One or two lengths": `border-spacing`, `border-*-radius` -/

/-- `lengths = [get_length(token, negative, percentage) for token in tokens]`, `if all(lengths)`: one length is
doubled, two are kept, anything else (no token, three tokens, a token that is not such a length) is `None`. -/
def lengthList (negative percentage : Bool) (toks : List LTok) : Option (Spec × Spec) :=
  match toks.map (getLength negative percentage) with
  | [some a] => some (a, a)
  | [some a, some b] => some (a, b)
  | _ => none

/-- The flags of a property's "one or two lengths" validator (generated). -/
def lengthListFlags (name : String) : Option (Bool × Bool) :=
  (Gen.NumericC07.lengthListValidators.lookup name).map fun e => (e.2.1, e.2.2)

/-- `PROPERTIES[name](tokens)` for such a property. Outer `none`: not one of them. -/
def validateLengthList (name : String) (toks : List LTok) : Option (Option (Spec × Spec)) :=
  (lengthListFlags name).map fun f => lengthList f.1 f.2 toks

/-! ### `opacity`: a clamp, not a range -/

/-- `min(1, max(0, v))`. -/
def clamp01 (v : Rat) : Rat :=
  let m := if 0 < v then v else 0      -- max(0, v)
  if m < 1 then m else 1               -- min(1, m)

/-- `opacity(token)` (`@single_token`): a number or a percentage, clamped to [0, 1]. -/
def opacityValidate : LTok → Option Rat
  | .number v => some (clamp01 v)
  | .percentage v => some (clamp01 (v / 100))
  | _ => none

/-! ### `image-resolution`: `get_resolution` (css/utils.py) and what the value is used for -/

/-- `RESOLUTION_TO_DPPX[unit]` = `{'dppx': 1, 'dpi': 1 / LENGTHS_TO_PIXELS['in'], 'dpcm': 1 / LENGTHS_TO_PIXELS['cm']}`
on the generated unit table (the unit is compared as written). -/
def resolutionFactor (unit : String) : Option Rat :=
  if unit == "dppx" then some 1
  else if unit == "dpi" then (factor "in").map fun k => 1 / k
  else if unit == "dpcm" then (factor "cm").map fun k => 1 / k
  else none

/-- `get_resolution(token)`: any dimension in a resolution unit, whatever its sign. -/
def getResolution : LTok → Option Rat
  | .dimension v u _ => (resolutionFactor u).map fun k => v * k
  | _ => none

/-- The validator of `image-resolution` (`@single_token def image_resolution(token)`, since `fix:` d011d54):
`resolution = get_resolution(token); if resolution is not None and resolution > 0: return resolution`. -/
def imageResolution (t : LTok) : Option Rat :=
  match getResolution t with
  | some r => if 0 < r then some r else none
  | none => none

/-- `RasterImage.get_intrinsic_size(resolution, font_size)`: `self.width / resolution, self.height / resolution`. -/
def rasterIntrinsicSize (width height resolution : Rat) : Except PyErr (Rat × Rat) :=
  if resolution == 0 then throw (.zeroDivision "get_intrinsic_size")
  else pure (width / resolution, height / resolution)

end Wp.Num07
