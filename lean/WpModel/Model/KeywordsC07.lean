/-
C07 — the keyword-only validators of weasyprint/css/validation/properties.py
(`@single_keyword def f(keyword): return keyword in (...)`, optionally under `@comma_separated_list`),
mirrored through the table regenerated from the source (Gen/KeywordsC07), with the two decorators of
weasyprint/css/utils.py (`single_keyword`, `comma_separated_list`) and `get_single_keyword`.
No Mathlib, no Std: linked into the driver.
-/
import WpModel.Model.Wire
import WpModel.Gen.KeywordsC07

namespace Wp.Kw
open Wp

/-- A token as `get_single_keyword` sees it: an identifier with its `lower_value`, or anything else. -/
abbrev KTok := Option String

/-- `get_single_keyword(tokens)`. -/
def singleKeyword : List KTok → Option String
  | [some kw] => some kw
  | _ => none

/-- The generated entry of a property. -/
def entry (name : String) : Option (List String × Bool) := Gen.KeywordsC07.keywordValidators.lookup name

/-- `single_keyword(function)(tokens)`: the keyword when `function(keyword)` holds, else `None`. -/
def validateOne (keywords : List String) (tokens : List KTok) : Option String :=
  match singleKeyword tokens with
  | some kw => if keywords.contains kw then some kw else none
  | none => none

/-- `comma_separated_list(function)(tokens)` over the comma-separated parts (whitespace already removed):
every part must validate; the value is the tuple of results. -/
def validateParts (keywords : List String) : List (List KTok) → Option (List String)
  | [] => some []
  | part :: rest =>
    match validateOne keywords part, validateParts keywords rest with
    | some kw, some kws => some (kw :: kws)
    | _, _ => none

/-- The registered validator of a keyword-only property on a token list given as its comma-separated parts
(`parts = [tokens]` when the value has no top-level comma). `none` = Python `None` (invalid). -/
def validate (name : String) (parts : List (List KTok)) : Option (Option (List String)) :=
  match entry name with
  | none => none                                  -- not a keyword-only property
  | some (keywords, commaSeparated) =>
    if commaSeparated then some (validateParts keywords parts)
    else
      match parts with
      | [tokens] => some ((validateOne keywords tokens).map ([·]))
      -- a top-level comma is a token like any other: more than one token, `get_single_keyword` gives None
      | _ => some none

end Wp.Kw
