/-
C09 — "the width left between floats" for nested inline boxes: `get_next_linebox` when
`context.excluded_shapes` is not empty and the line box holds text boxes and inline boxes (ltr, one
font).  It composes, exactly as the source does, the pieces modelled elsewhere:

* `inline_min_content_width(context, linebox, skip_stack=skip_stack, first_line=True)`
  (`Model/InlinePreferred`, with the **resume position** of the line: this is the only caller that
  passes a `skip_stack` into `inline_line_widths`, down through the nested inline boxes),
* `avoid_collisions` (C11's model, imported unchanged) with that width and the strut height,
* `split_inline_box` on the line box in the width left there (`Model/InlineRun.splitLine`),
* `remove_last_whitespace`, the second `avoid_collisions` (with `line.width` *before* the trailing
  space was removed and `line.height` = font size: finding float-align-width-not-of-line-box),
  `text_align` in the width it returns.

With one text box this is `Model/LineFloats`; with no float it is `Model/InlineRun.nextLine`
(`Lemmas/LineFloatsInline`).  No Mathlib: linked into the driver.
-/
import WpModel.Model.LineFloats

namespace Wp.LFI
open Wp Wp.Py Wp.LB Wp.Floats Wp.IR

/-- used line-height of the strut: 0 when the font size is 0 -/
def strutHeight (p : IR.Para) : Rat := if p.st.fs = 0 then 0 else p.lineHeight

/-- the tentative size of the line box: (0, 0) without floats, else the min-content width of the
first line from the resume position and the strut height -/
def tentative (shapes : List Shape) (p : IR.Para) (skip : Option Skip) : Except PyErr (Rat × Rat) :=
  if shapes.isEmpty then .ok (0, 0)
  else (IP.minContentWidth p.st p.kids p.indent true true false skip).map fun w => (w, strutHeight p)

/-- One `get_next_linebox` next to floats (ltr). -/
def nextLine (shapes : List Shape) (p : IR.Para) (skip : Option Skip) (y : Rat) (first : Bool) :
    Except PyErr (Option IR.OutLine) :=
  (skipFirst p.st.ws depthBound (.box 0 0 false p.kids) skip).bind fun sr =>
    match sr with
    | .cont => .ok none
    | .skip skip' =>
      let cb : CB := { cx := p.cbx, w := p.width, rtl := false }
      (tentative shapes p skip').bind fun wh =>
      (avoidCollisions shapes (LF.lineABox y wh.1 wh.2) cb false).bind fun place =>
        let indent := if first then p.indent else 0
        let lineX := place.x
        let maxX := lineX + place.avail
        let posX := lineX + indent
        (splitLine p.st depthBound p.kids posX lineX maxX skip').bind fun lo =>
          if phantomL lo.kids && !lo.preserved then
            .ok (some { x := lineX, y := place.y, w := lo.w, h := 0, kids := lo.kids, resume := lo.resume })
          else
            (removeLast p.st depthBound lo.kids).bind fun rl =>
              let lineW := lo.w - rl.2
              let last := lo.resume.isNone || lo.preserved
              -- `linebox.width, linebox.height = line.width, line.height` were set before remove_last_whitespace
              (avoidCollisions shapes (LF.lineABox place.y lo.w p.st.fs) cb false).bind fun place2 =>
                (textAlign p.align (.inl lineX lineW false []) lineW place2.avail last).map fun r =>
                  let off := r.1
                  some { x := lineX + off, y := place.y, w := lineW, h := p.lineHeight,
                         kids := translateL off rl.1, resume := lo.resume }

def iterLines (shapes : List Shape) (p : IR.Para) :
    Nat → Option Skip → Rat → Bool → Option (Except PyErr (List IR.OutLine))
  | 0, _, _, _ => none
  | fuel + 1, skip, y, first =>
    match nextLine shapes p skip y first with
    | .error e => some (.error e)
    | .ok none => some (.ok [])
    | .ok (some line) =>
      match line.resume with
      | none => some (.ok [line])
      | some r => (iterLines shapes p fuel (some r) (line.y + line.h) false).map (·.map (line :: ·))

def paragraph (shapes : List Shape) (p : IR.Para) : Except PyErr (List IR.OutLine) :=
  match iterLines shapes p (2 * textLenL p.kids + 4) none p.y true with
  | some r => r
  | none => .error (.recursion "iter_line_boxes")

/-! ### a line taller than the strut: the second pass of `get_next_linebox`

When the laid-out line is higher than the height the line box was first placed with (`candidate_height`:
the strut), `avoid_collisions` is asked again with the real line; if it answers another position, the
line is laid out again **there, in the width available there**, and so on.  `lineH`: the height of every
line of the paragraph (an inline box with a larger `line-height` spans the whole text); `strut`: the used
line-height of the block. -/

/-- the `while True` loop of `get_next_linebox` from the position `(px, py)` with `avail` -/
def tallLoop (shapes : List Shape) (p : IR.Para) (lineH : Rat) (skip' : Option Skip) (first : Bool) :
    Nat → Rat → Rat → Rat → Rat → Except PyErr (Option IR.OutLine)
  | 0, _, _, _, _ => .error (.recursion "get_next_linebox")
  | n + 1, px, py, avail, candidate =>
    let cb : CB := { cx := p.cbx, w := p.width, rtl := false }
    let indent := if first then p.indent else 0
    let lineX := px
    let maxX := lineX + avail
    let posX := lineX + indent
    (splitLine p.st depthBound p.kids posX lineX maxX skip').bind fun lo =>
      if phantomL lo.kids && !lo.preserved then
        .ok (some { x := lineX, y := py, w := lo.w, h := 0, kids := lo.kids, resume := lo.resume })
      else
        (removeLast p.st depthBound lo.kids).bind fun rl =>
          let lineW := lo.w - rl.2
          let last := lo.resume.isNone || lo.preserved
          (avoidCollisions shapes (LF.lineABox py lo.w p.st.fs) cb false).bind fun place2 =>
            (textAlign p.align (.inl lineX lineW false []) lineW place2.avail last).bind fun r =>
              let off := r.1
              let line : IR.OutLine := { x := lineX + off, y := py, w := lineW, h := lineH,
                                         kids := translateL off rl.1, resume := lo.resume }
              -- `if line.height <= candidate_height: break`
              if lineH ≤ candidate then .ok (some line)
              else
                (avoidCollisions shapes (LF.lineABox py lineW lineH) cb false).bind fun place3 =>
                  -- `(position_x, position_y) == (original_position_x, original_position_y)`
                  if place3.x = lineX ∧ place3.y = py then .ok (some line)
                  else tallLoop shapes p lineH skip' first n place3.x place3.y place3.avail lineH

/-- One `get_next_linebox` next to floats for a paragraph whose lines are `lineH` high while the strut of
the block is `strut` (ltr). -/
def nextLineTall (shapes : List Shape) (p : IR.Para) (strut lineH : Rat) (skip : Option Skip) (y : Rat) (first : Bool) :
    Except PyErr (Option IR.OutLine) :=
  (skipFirst p.st.ws depthBound (.box 0 0 false p.kids) skip).bind fun sr =>
    match sr with
    | .cont => .ok none
    | .skip skip' =>
      let cb : CB := { cx := p.cbx, w := p.width, rtl := false }
      (if shapes.isEmpty then .ok ((0 : Rat), (0 : Rat))
        else (IP.minContentWidth p.st p.kids p.indent true true false skip').map fun w => (w, strut)).bind fun wh =>
      (avoidCollisions shapes (LF.lineABox y wh.1 wh.2) cb false).bind fun place =>
        tallLoop shapes p lineH skip' first (shapes.length + 3) place.x place.y place.avail wh.2

def iterLinesTall (shapes : List Shape) (p : IR.Para) (strut lineH : Rat) :
    Nat → Option Skip → Rat → Bool → Option (Except PyErr (List IR.OutLine))
  | 0, _, _, _ => none
  | fuel + 1, skip, y, first =>
    match nextLineTall shapes p strut lineH skip y first with
    | .error e => some (.error e)
    | .ok none => some (.ok [])
    | .ok (some line) =>
      match line.resume with
      | none => some (.ok [line])
      | some r => (iterLinesTall shapes p strut lineH fuel (some r) (line.y + line.h) false).map (·.map (line :: ·))

def paragraphTall (shapes : List Shape) (p : IR.Para) (strut lineH : Rat) : Except PyErr (List IR.OutLine) :=
  match iterLinesTall shapes p strut lineH (2 * textLenL p.kids + 4) none p.y true with
  | some r => r
  | none => .error (.recursion "iter_line_boxes")

end Wp.LFI
