/-
C09 — "the width left between floats" for nested inline boxes: `get_next_linebox` when
`context.excluded_shapes` is not empty and the line box holds text boxes and inline boxes (ltr, one
font).  It composes, exactly as the source does, the pieces modelled elsewhere:

* `inline_min_content_width(context, linebox, skip_stack=skip_stack, first_line=True)`
  (`Model/InlinePreferred`, with the **resume position** of the line: this is the only caller that
  passes a `skip_stack` into `inline_line_widths`, down through the nested inline boxes),
* `avoid_collisions` (C11's model, imported unchanged) with that width and the strut height,
* `split_inline_box` on the line box in the width left there (`Model/InlineRun.splitLine`),
* `remove_last_whitespace`, the second `avoid_collisions` (with `line.width` *before* the trailing
  space was removed and `line.height` = font size: finding float-align-width-not-of-line-box),
  `text_align` in the width it returns.

With one text box this is `Model/LineFloats`; with no float it is `Model/InlineRun.nextLine`
(`Lemmas/LineFloatsInline`).  No Mathlib: linked into the driver.
-/
import WpModel.Model.LineFloats

namespace Wp.LFI
open Wp Wp.Py Wp.LB Wp.Floats Wp.IR

/-- used line-height of the strut: 0 when the font size is 0 -/
def strutHeight (p : IR.Para) : Rat := if p.st.fs = 0 then 0 else p.lineHeight

/-- the tentative size of the line box: (0, 0) without floats, else the min-content width of the
first line from the resume position and the strut height -/
def tentative (shapes : List Shape) (p : IR.Para) (skip : Option Skip) : Except PyErr (Rat × Rat) :=
  if shapes.isEmpty then .ok (0, 0)
  else (IP.minContentWidth p.st p.kids p.indent true true false skip).map fun w => (w, strutHeight p)

/-- One `get_next_linebox` next to floats (ltr). -/
def nextLine (shapes : List Shape) (p : IR.Para) (skip : Option Skip) (y : Rat) (first : Bool) :
    Except PyErr (Option IR.OutLine) :=
  (skipFirst p.st.ws depthBound (.box 0 0 false p.kids) skip).bind fun sr =>
    match sr with
    | .cont => .ok none
    | .skip skip' =>
      let cb : CB := { cx := p.cbx, w := p.width, rtl := false }
      (tentative shapes p skip').bind fun wh =>
      (avoidCollisions shapes (LF.lineABox y wh.1 wh.2) cb false).bind fun place =>
        let indent := if first then p.indent else 0
        let lineX := place.x
        let maxX := lineX + place.avail
        let posX := lineX + indent
        (splitLine p.st depthBound p.kids posX lineX maxX skip').bind fun lo =>
          if phantomL lo.kids && !lo.preserved then
            .ok (some { x := lineX, y := place.y, w := lo.w, h := 0, kids := lo.kids, resume := lo.resume })
          else
            (removeLast p.st depthBound lo.kids).bind fun rl =>
              let lineW := lo.w - rl.2
              let last := lo.resume.isNone || lo.preserved
              -- `linebox.width, linebox.height = line.width, line.height` were set before remove_last_whitespace
              (avoidCollisions shapes (LF.lineABox place.y lo.w p.st.fs) cb false).bind fun place2 =>
                (textAlign p.align (.inl lineX lineW false []) lineW place2.avail last).map fun r =>
                  let off := r.1
                  some { x := lineX + off, y := place.y, w := lineW, h := p.lineHeight,
                         kids := translateL off rl.1, resume := lo.resume }

def iterLines (shapes : List Shape) (p : IR.Para) :
    Nat → Option Skip → Rat → Bool → Option (Except PyErr (List IR.OutLine))
  | 0, _, _, _ => none
  | fuel + 1, skip, y, first =>
    match nextLine shapes p skip y first with
    | .error e => some (.error e)
    | .ok none => some (.ok [])
    | .ok (some line) =>
      match line.resume with
      | none => some (.ok [line])
      | some r => (iterLines shapes p fuel (some r) (line.y + line.h) false).map (·.map (line :: ·))

def paragraph (shapes : List Shape) (p : IR.Para) : Except PyErr (List IR.OutLine) :=
  match iterLines shapes p (2 * textLenL p.kids + 4) none p.y true with
  | some r => r
  | none => .error (.recursion "iter_line_boxes")

end Wp.LFI
