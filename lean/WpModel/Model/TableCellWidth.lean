/-
Intrinsic widths of a table cell (`weasyprint/layout/preferred.py`), mirrored branch for branch *given*
the min- and max-content widths of the cell's children (text measurement: not modelled):

* `minMax`        ↔ `min_max(box, width)` for a box that is not replaced (px `min-width` / `max-width`;
                     `auto` and percentages count as 0 / inf)
* `marginWidth`   ↔ `margin_width(box, width)` (px margins and paddings added, percentages summed and
                     divided out, borders: the *used* widths in the collapsing model)
* `adjust`        ↔ `adjust(box, outer, width)`
* `cellMin`       ↔ `table_cell_min_content_width`: the widest min-content width over **every child
                     that is not absolutely positioned** — floats and running elements included
* `cellMinMax`    ↔ `table_cell_min_max_content_width` (with `block_max_content_width` of the cell:
                     the children's max-content widths for `width: auto | %`, else the px width)

No Mathlib: linked into `driver_c10`.
-/
import WpModel.Model.Wire
import WpModel.Model.TableWidths

namespace Wp.TableCellWidth
open Wp Wp.Table

/-- Positioning scheme of a child: `is_absolutely_positioned()` is `position ∈ {absolute, fixed}`;
floats, running elements and footnotes are out of normal flow but *not* absolutely positioned. -/
inductive Pos where
  | normal | floated | running | absolute
  deriving Repr, DecidableEq

structure Child where
  minW : Rat            -- min_content_width(context, child)   (outer)
  maxW : Rat            -- max_content_width(context, child)   (outer)
  pos : Pos
  deriving Repr

/-- What the functions read of the cell box. -/
structure CellBox where
  children : List Child
  width : Dim                -- style['width']
  minWidth : Rat             -- style['min_width'] in px, else 0
  maxWidth : Option Rat      -- style['max_width'] in px, else inf (`none`)
  marginL : Dim              -- style['margin_left'] …
  marginR : Dim
  padL : Dim
  padR : Dim
  borL : Rat                 -- border width `margin_width` adds on the left (used width when collapsing)
  borR : Rat
  deriving Repr

def maxR (a b : Rat) : Rat := if b > a then b else a
def minR (a b : Rat) : Rat := if b < a then b else a

/-- `max(xs) if xs else 0`. -/
def maxOr0 : List Rat → Rat
  | [] => 0
  | x :: xs => xs.foldl maxR x

/-- `min_max(box, width)`: `max(min_width, min(width, max_width))`. -/
def minMax (b : CellBox) (w : Rat) : Rat :=
  maxR b.minWidth (match b.maxWidth with | none => w | some m => minR w m)

/-- px part and percentage part of one margin / padding value (`auto` adds nothing). -/
def pxPart : Dim → Rat
  | .px v => v
  | _ => 0
def pctPart : Dim → Rat
  | .pct v => v
  | _ => 0

/-- `margin_width(box, width)` (both sides). -/
def marginWidth (b : CellBox) (w : Rat) : Rat :=
  let px := pxPart b.marginL + pxPart b.padL + pxPart b.marginR + pxPart b.padR
  let pct := pctPart b.marginL + pctPart b.padL + pctPart b.marginR + pctPart b.padR
  let total := w + px + b.borL + b.borR
  if pct < 100 then total / (1 - pct / 100) else 0

/-- `adjust(box, outer, width)`. -/
def adjust (b : CellBox) (outer : Bool) (w : Rat) : Rat :=
  if outer then marginWidth b (minMax b w) else minMax b w

/-- `not child.is_absolutely_positioned()`. -/
def counts (c : Child) : Bool := c.pos ≠ .absolute

/-- `table_cell_min_content_width(context, box, outer)`. -/
def cellMin (b : CellBox) (outer : Bool) : Rat :=
  adjust b outer (maxOr0 ((b.children.filter counts).map (·.minW)))

/-- `block_max_content_width(context, box, outer)` of the cell. -/
def blockMax (b : CellBox) (outer : Bool) : Rat :=
  match b.width with
  | .px v => adjust b outer v
  | _ => adjust b outer (maxOr0 ((b.children.filter counts).map (·.maxW)))

/-- `table_cell_min_max_content_width(context, box, outer)`. -/
def cellMinMax (b : CellBox) (outer : Bool) : Rat × Rat :=
  let mn := cellMin b outer
  (mn, maxR mn (blockMax b outer))

end Wp.TableCellWidth
