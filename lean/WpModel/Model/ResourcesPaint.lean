/-
C20 — what is painted for a box whose border image or mask border image could not be loaded:

  weasyprint/layout/background.py   `layout_box_backgrounds`: `box.border_image` / `box.mask_border_image`
                                    (`get_image_from_uri(url=value)` for a `url()`, the gradient otherwise; not set — the
                                    class attribute `None` — when the source is `none`)
  weasyprint/draw/border.py         `draw_border` (the precedence of the border image over the ordinary borders),
                                    `set_mask_border`

A failed fetch leaves `None`: the box must be painted as with `border-image-source: none` / `mask-border-source: none`.
No Mathlib.
-/
import WpModel.Model.Resources

namespace Wp.Res.Paint
open Wp Wp.Res

/-- `style['border_image_source'][0]` / `style['mask_border_source'][0]`. -/
inductive Source where
  | noneKw
  | url
  | gradient
  deriving Repr, BEq, DecidableEq, Inhabited

/-- `box.border_image is not None` after `layout_box_backgrounds`, given what `get_image_from_uri` returned for a
`url()` source. -/
def imageSet (source : Source) (fetched : Option Img) : Bool :=
  match source with
  | .noneKw => false               -- never assigned: `Box.border_image = None`
  | .url => fetched.isSome
  | .gradient => true

/-- What `draw_border` paints (column rules aside). -/
inductive BorderPaint where
  | nothing        -- hidden box, or all four widths are 0
  | image          -- `draw_border_image`
  | borders        -- the ordinary `border-style` / `border-color` borders
  deriving Repr, BEq, DecidableEq, Inhabited

/-- `draw_border(stream, box)`. -/
def drawBorder (visible : Bool) (source : Source) (hasImage : Bool) (allWidthsZero : Bool) : BorderPaint :=
  if !visible then .nothing
  -- "If there's a border image, that takes precedence."
  else if source != .noneKw && hasImage then .image
  else if allWidthsZero then .nothing
  else .borders

/-- `set_mask_border(stream, box)`: is an alpha state with the mask image set? -/
def setMaskBorder (source : Source) (hasImage : Bool) : Bool :=
  !(source == .noneKw || !hasImage)

end Wp.Res.Paint
