/-
Trace checker for C04 on rendered documents (tables, row groups, nested blocks): for two adjacent
siblings, the break values meeting between them (in tree order), the page of the last fragment of the
first, the page of the first fragment of the second and that page's side. No Mathlib.
-/
import WpModel.Model.Break
import WpModel.Model.Paginate

namespace Wp.BreakTrace
open Wp

structure Obs where
  values : List Brk
  pageA : Nat
  pageB : Nat
  rightB : Bool
  ltr : Bool
  deriving Repr, Inhabited

/-- A forced break must separate the two siblings, and a requested side must be the side of the page the
second one starts on. -/
def obsOk (o : Obs) : Bool :=
  let r := resolve o.values
  if forces false r then
    decide (o.pageA < o.pageB) &&
      (match PM.requestedSide o.ltr (some r) with
       | some side => o.rightB == side
       | none => true)
  else true

def badObs (os : List Obs) : List Nat :=
  (os.zipIdx.filter (fun (o, _) => !obsOk o)).map Prod.snd

end Wp.BreakTrace
