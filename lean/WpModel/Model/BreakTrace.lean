/-
Trace checker for C04 on rendered documents (tables, row groups, nested blocks): for two adjacent
siblings, the break values meeting between them (in tree order), the page of the last fragment of the
first, the page of the first fragment of the second and that page's side. No Mathlib.
-/
import WpModel.Model.Break
import WpModel.Model.Paginate

namespace Wp.BreakTrace
open Wp

structure Obs where
  values : List Brk
  pageA : Nat
  pageB : Nat
  rightB : Bool
  ltr : Bool
  deriving Repr, Inhabited

/-- A forced break must separate the two siblings, and a requested side must be the side of the page the
second one starts on. -/
def obsOk (o : Obs) : Bool :=
  let r := resolve o.values
  if forces false r then
    decide (o.pageA < o.pageB) &&
      (match PM.requestedSide o.ltr (some r) with
       | some side => o.rightB == side
       | none => true)
  else true

def badObs (os : List Obs) : List Nat :=
  (os.zipIdx.filter (fun (o, _) => !obsOk o)).map Prod.snd

/-- `break-before/after: avoid` meeting between two adjacent siblings `A`, `B`: the page of the last fragment of
`A`, the page of the first fragment of `B`, and whether `A` was the first content placed on its page (then no
other legal break point exists on that page before `A`: the page would otherwise stay empty). -/
structure AvoidObs where
  values : List Brk
  pageA : Nat
  pageB : Nat
  aFirst : Bool
  deriving Repr, Inhabited

def avoidOk (o : AvoidObs) : Bool :=
  if avoids false (resolve o.values) then o.pageA == o.pageB || o.aFirst else true

def badAvoid (os : List AvoidObs) : List Nat :=
  (os.zipIdx.filter (fun (o, _) => !avoidOk o)).map Prod.snd

/-- A unit with `break-inside: avoid`: the number of pages its content appears on, and whether it was the first
content placed on the first of them (the only case in which it may be split). -/
structure InsideObs where
  value : Brk
  pages : Nat
  first : Bool
  deriving Repr, Inhabited

def insideOk (o : InsideObs) : Bool :=
  if avoids false o.value then decide (o.pages ≤ 1) || o.first else true

def badInside (os : List InsideObs) : List Nat :=
  (os.zipIdx.filter (fun (o, _) => !insideOk o)).map Prod.snd

end Wp.BreakTrace
