/-
Mirror of `weasyprint/urls.py::get_link_attribute` — the function that decides whether an `<a href>` is
an **internal** link (a destination of this document: `href="#name"`, or a URL that is the document's
own URL plus a fragment) or an **external** one (the URL resolved against the base URL) — and of
`urllib.parse.unquote` (Python 3.12: `_generate_unquoted_parts`, `_unquote_impl`,
`bytes.decode('utf-8', 'replace')`) which it applies to the fragment.

Built on the C20 models of `urlsplit`, `urljoin`, `iri_to_uri`, `get_url_attribute`
(Model/ResourcesUrl.lean, Model/Resources.lean; same restrictions: no `[` `]` in the authority, so
`urlsplit` raises no `ValueError`; `str.strip()` strips ASCII white space).
Strings are `List Char`.  No Mathlib: linked into the driver.
-/
import WpModel.Model.ResourcesUrl

namespace Wp.LinkAttr
open Wp Wp.Res Wp.Res.Url

/-! ## urllib.parse.unquote -/

def hexVal? (c : Char) : Option Nat :=
  let n := c.toNat
  if 48 ≤ n && n < 58 then some (n - 48)
  else if 97 ≤ n && n < 103 then some (n - 87)
  else if 65 ≤ n && n < 71 then some (n - 55)
  else none

/-- `_unquote_impl` on an ASCII run: `%XX` with two hexadecimal digits becomes the byte, any other `%`
stays (`bits = string.split(b'%')`; `_hextobyte[item[:2]]` or `KeyError`). -/
def unquoteBytes : List Char → List Nat
  | [] => []
  | '%' :: a :: b :: rest =>
    match hexVal? a, hexVal? b with
    | some x, some y => (x * 16 + y) :: unquoteBytes rest
    | _, _ => 37 :: unquoteBytes (a :: b :: rest)
  | c :: rest => c.toNat :: unquoteBytes rest

def isCont (b : Nat) : Bool := 128 ≤ b && b < 192

/-- `bytes.decode('utf-8', 'replace')`: every maximal invalid subpart becomes U+FFFD (an invalid start
byte alone; a lead byte with the valid continuation bytes that follow it when the sequence is cut
short by an invalid byte or by the end of the input).  Overlong forms (C0, C1, E0 80–9F, F0 80–8F),
surrogates (ED A0–BF) and code points above U+10FFFF (F4 90–BF, F5–FF) are invalid. -/
def utf8Decode : List Nat → List Nat
  | [] => []
  | b :: rest =>
    if b < 128 then b :: utf8Decode rest
    else if b < 194 then 65533 :: utf8Decode rest
    else if b < 224 then
      match rest with
      | [] => [65533]
      | c :: rest1 =>
        if isCont c then ((b - 192) * 64 + (c - 128)) :: utf8Decode rest1 else 65533 :: utf8Decode (c :: rest1)
    else if b < 240 then
      match rest with
      | [] => [65533]
      | c :: rest1 =>
        if (if b == 224 then 160 else 128) ≤ c && c < (if b == 237 then 160 else 192) then
          match rest1 with
          | [] => [65533]
          | d :: rest2 =>
            if isCont d then ((b - 224) * 4096 + (c - 128) * 64 + (d - 128)) :: utf8Decode rest2
            else 65533 :: utf8Decode (d :: rest2)
        else 65533 :: utf8Decode (c :: rest1)
    else if b < 245 then
      match rest with
      | [] => [65533]
      | c :: rest1 =>
        if (if b == 240 then 144 else 128) ≤ c && c < (if b == 244 then 144 else 192) then
          match rest1 with
          | [] => [65533]
          | d :: rest2 =>
            if isCont d then
              match rest2 with
              | [] => [65533]
              | e :: rest3 =>
                if isCont e then
                  ((b - 240) * 262144 + (c - 128) * 4096 + (d - 128) * 64 + (e - 128)) :: utf8Decode rest3
                else 65533 :: utf8Decode (e :: rest3)
            else 65533 :: utf8Decode (d :: rest2)
        else 65533 :: utf8Decode (c :: rest1)
    else 65533 :: utf8Decode rest
termination_by l => l.length

/-- One maximal ASCII run of `_asciire = re.compile('([\x00-\x7f]+)')`. -/
def asciiRun (s : List Char) : List Char × List Char := (s.takeWhile (·.toNat < 128), s.dropWhile (·.toNat < 128))

/-- `_generate_unquoted_parts`: ASCII runs are unquoted and decoded, the rest is kept. -/
def unquoteParts : Nat → List Char → List Char
  | 0, s => s
  | fuel + 1, s =>
    match s with
    | [] => []
    | c :: rest =>
      if c.toNat < 128 then
        let r := asciiRun (c :: rest)
        (utf8Decode (unquoteBytes r.1)).map Char.ofNat ++ unquoteParts fuel r.2
      else c :: unquoteParts fuel rest

/-- `unquote(string)` (`encoding='utf-8', errors='replace'`). -/
def unquote (s : List Char) : List Char :=
  if !s.contains '%' then s else unquoteParts (s.length + 1) s

/-! ## get_link_attribute -/

inductive LinkKind where
  | internal | external
  deriving Repr, BEq, DecidableEq

/-- The comparison "with fragments removed": `parsed[:-1] == parsed_base[:-1]` on the 5-tuples of
`urlsplit` — scheme, netloc, path **and query**. -/
def sameDocument (p q : List Char × List Char × List Char × List Char × List Char) : Bool :=
  p.1 == q.1 && p.2.1 == q.2.1 && p.2.2.1 == q.2.2.1 && p.2.2.2.1 == q.2.2.2.1

/-- `get_link_attribute(element, attr_name, base_url)` → `('url', (kind, target))` or `None`.
`attr = none`: attribute missing; `base = none`: `base_url is None`. -/
def getLinkAttribute (attr : Option (List Char)) (base : Option (List Char)) : Option (LinkKind × List Char) :=
  match pyStrip (attr.getD []) with
  | '#' :: c :: rest => some (.internal, unquote (c :: rest))
  | _ =>
    match getUrlAttribute attr base true with
    | none => none
    | some uri =>
      if uri.isEmpty then none
      else if (base.getD []).isEmpty then some (.external, uri)
      else
        let parsed := urlsplit uri []
        let parsedBase := urlsplit (base.getD []) []
        if !parsed.2.2.2.2.isEmpty && sameDocument parsed parsedBase then
          some (.internal, unquote parsed.2.2.2.2)
        else some (.external, uri)

end Wp.LinkAttr

/-! ## from an element to its entries in `Page.links` / `Page.anchors`

`weasyprint/css/html5_ua.css`: `[id] { -weasy-anchor: attr(id) }`, `a[name] { -weasy-anchor: attr(name) }`
(the second rule is more specific: on an `<a>` with both attributes the name wins),
`a[href] { -weasy-link: attr(href) }`; `css/computed_values.py::anchor`, `::link`;
`html.py::element_has_link_type`; `boxes.py::Box.is_attachment`; the `attachment` switch of
`gather_anchors`. -/

namespace Wp.LinkAttr

def isHtmlWs (c : Char) : Bool := c == ' ' || c == '\t' || c == '\n' || c == '\x0c' || c == '\r'

/-- `ascii_lower`: only `A`–`Z` are mapped. -/
def asciiLower (c : Char) : Char := if 65 ≤ c.toNat && c.toNat ≤ 90 then Char.ofNat (c.toNat + 32) else c

/-- `HTML_SPACE_SEPARATED_TOKENS_RE.findall(value)`: maximal runs of non-white-space. -/
def tokensAux : List Char → List Char → List (List Char)
  | [], cur => if cur.isEmpty then [] else [cur.reverse]
  | c :: rest, cur =>
    if isHtmlWs c then (if cur.isEmpty then tokensAux rest [] else cur.reverse :: tokensAux rest [])
    else tokensAux rest (c :: cur)

def tokens (s : List Char) : List (List Char) := tokensAux s []

/-- `element_has_link_type(element, link_type)`; `rel = none`: no `rel` attribute. -/
def hasLinkType (rel : Option (List Char)) (linkType : List Char) : Bool :=
  (tokens (rel.getD [])).any fun t => t.map asciiLower == linkType

/-- The attributes of an element that decide its links and anchors. -/
structure El where
  tag : String
  id : Option (List Char) := none
  name : Option (List Char) := none
  href : Option (List Char) := none
  rel : Option (List Char) := none
  deriving Repr, DecidableEq

/-- `Box.is_attachment()`. -/
def isAttachment (e : El) : Bool := e.tag == "a" && hasLinkType e.rel "attachment".toList

/-- `style.element.get(key) or None`. -/
def attrOrNone (v : Option (List Char)) : Option (List Char) :=
  match v with
  | some s => if s.isEmpty then none else some s
  | none => none

/-- Computed `anchor`: `a[name]` beats `[id]` in the cascade (also when the name is empty). -/
def anchorOf (e : El) : Option (List Char) :=
  if e.tag == "a" && e.name.isSome then attrOrNone e.name
  else if e.id.isSome then attrOrNone e.id
  else none

/-- The `(link_type, target)` that `gather_anchors` records for the boxes of the element. -/
def linkOf (e : El) (base : Option (List Char)) : Option (String × List Char) :=
  if e.tag == "a" && e.href.isSome then
    match getLinkAttribute e.href base with
    | none => none
    | some (.internal, t) => some ("internal", t)
    | some (.external, t) => some (if isAttachment e then "attachment" else "external", t)
  else none

/-- Anchor names of the elements in document order → the destinations (first occurrence of each). -/
def firstNames : List (List Char) → List (List Char) → List (List Char)
  | [], _ => []
  | n :: rest, seen => if seen.contains n then firstNames rest seen else n :: firstNames rest (seen ++ [n])

/-- Elements (with the harness's identifier) in document order → link elements and destinations. -/
def documentLinks (els : List (Nat × El)) (base : Option (List Char)) :
    List (Nat × String × List Char) × List (List Char) :=
  (els.filterMap fun (k, e) => (linkOf e base).map fun l => (k, l.1, l.2),
   firstNames (els.filterMap fun (_, e) => anchorOf e) [])

end Wp.LinkAttr
