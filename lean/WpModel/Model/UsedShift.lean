/-
C05 — the metamorphic pair "uniform translation" of the property's `observe_at`, as an executable comparator
of two trees of *used values* read from two renderings of the same document (any grammar):

  the second rendering has the page area moved by (dx, dy) — page size and left / top page margins grown by
  (dx, dy) — so every box of every page must be where `Box.translate(dx, dy)` (boxes.py) would put it:
  `position_x + dx`, `position_y + dy`, all sizes, margins, paddings and borders unchanged, same tree shape.

Layout code that uses an absolute coordinate where a relative one is meant (the page origin instead of the
containing block's, a position kept from a previous pass) is not translation invariant; the property's
clauses themselves are (`C05Shift.usedOk_shift`).  Lengths come from binary floats: comparisons allow `eps`.
Soundness and completeness are in Props/C05Shift.lean.  No Mathlib: linked into the driver.
-/
import WpModel.Model.UsedCheck

namespace Wp.UsedShift
open Wp Wp.UsedCheck

/-- `Box.translate(dx, dy)` on the used values of one box: only the position moves. -/
def shiftBox (dx dy : Rat) (b : UBox) : UBox := { b with x := b.x + dx, y := b.y + dy }

mutual
/-- `Box.translate(dx, dy)` on a tree: the box and all its descendants. -/
def shiftTree (dx dy : Rat) : UTree → UTree
  | .mk b kids => .mk (shiftBox dx dy b) (shiftList dx dy kids)
def shiftList (dx dy : Rat) : List UTree → List UTree
  | [] => []
  | t :: ts => shiftTree dx dy t :: shiftList dx dy ts
end

/-- `b` is `a` moved by `(dx, dy)`: position moved, the fourteen other lengths and the kind unchanged. -/
def boxMoved (eps dx dy : Rat) (a b : UBox) : Bool :=
  near eps (a.x + dx) b.x && near eps (a.y + dy) b.y && near eps a.w b.w && near eps a.h b.h &&
  near eps a.ml b.ml && near eps a.mr b.mr && near eps a.mt b.mt && near eps a.mb b.mb &&
  near eps a.pl b.pl && near eps a.pr b.pr && near eps a.pt b.pt && near eps a.pb b.pb &&
  near eps a.bl b.bl && near eps a.br b.br && near eps a.bt b.bt && near eps a.bb b.bb &&
  decide (a.kind = b.kind)

mutual
/-- The second tree is the first one moved by `(dx, dy)`: same shape, every box moved. -/
def treeMoved (eps dx dy : Rat) : UTree → UTree → Bool
  | .mk a ka, .mk b kb => boxMoved eps dx dy a b && listMoved eps dx dy ka kb
def listMoved (eps dx dy : Rat) : List UTree → List UTree → Bool
  | [], [] => true
  | a :: as, b :: bs => treeMoved eps dx dy a b && listMoved eps dx dy as bs
  | _, _ => false
end

mutual
/-- Every box of the tree, preorder. -/
def boxes : UTree → List UBox
  | .mk b kids => b :: boxesList kids
def boxesList : List UTree → List UBox
  | [] => []
  | t :: ts => boxes t ++ boxesList ts
end

/-- For the report: preorder index of the first box that is not where the translation puts it, or `shape`
when the two trees do not have the same shape. -/
def firstUnmoved (eps dx dy : Rat) (a b : UTree) : Option String :=
  if treeMoved eps dx dy a b then none
  else
    let pairs := (boxes a).zip (boxes b)
    match pairs.zipIdx.find? (fun (p, _) => !boxMoved eps dx dy p.1 p.2) with
    | some (_, i) => some s!"moved {i}"
    | none => some "shape"

end Wp.UsedShift
