/-
"Layout column groups and columns" of `table_layout` (`weasyprint/layout/table.py`), mirrored branch
for branch: the boxes of the `<col>`s and `<colgroup>`s of one table fragment (what their backgrounds
are painted on).

    columns_height = position_y - initial_position_y          (minus one border_spacing_y if table.children)
    for column in group.children:
        if column.grid_x < len(column_positions):  x, y, w, h = column_positions[grid_x], initial_position_y,
                                                                column_widths[grid_x], columns_height
        else:                                       x, y, w, h = 0, 0, 0, 0      ("Ignore extra empty columns")
    first, last = group.children[0], group.children[-1]
    group: x = first.position_x, y = initial_position_y,
           width = last.position_x + last.width - first.position_x, height = columns_height

`column_positions` / `column_widths` are the *logical* lists (column 0 first: the rightmost one in rtl);
the reversed copies for drawing are made afterwards.  No Mathlib: linked into `driver_c10`.
-/
import WpModel.Model.Wire
import WpModel.Model.TableWidths

namespace Wp.TableColumns
open Wp Wp.Table

structure Box4 where
  x : Rat
  y : Rat
  w : Rat
  h : Rat
  deriving Repr, DecidableEq

/-- `columns_height`: `endY` is `position_y` after the row groups (it includes the spacing after the last
one), `y0` is `initial_position_y`. -/
def columnsHeight (endY y0 sp : Rat) (hasChildren : Bool) : Rat :=
  endY - y0 - (if hasChildren then sp else 0)

/-- One `<col>` box. -/
def columnBox (pos cw : List Rat) (y0 h : Rat) (gridX : Nat) : Except PyErr Box4 :=
  if gridX < pos.length then
    match pos[gridX]?, cw[gridX]? with
    | some x, some w => .ok ⟨x, y0, w, h⟩
    | _, _ => .error (.indexError "column_widths[column.grid_x]")
  else .ok ⟨0, 0, 0, 0⟩

/-- One `<colgroup>` box from the boxes of its columns. -/
def groupBox (cols : List Box4) (y0 h : Rat) : Except PyErr Box4 :=
  match cols.head?, cols.getLast? with
  | some first, some last => .ok ⟨first.x, y0, last.x + last.w - first.x, h⟩
  | _, _ => .error (.indexError "group.children[0]")

def allOk {α} : List (Except PyErr α) → Except PyErr (List α)
  | [] => .ok []
  | .error e :: _ => .error e
  | .ok x :: rest => match allOk rest with | .error e => .error e | .ok xs => .ok (x :: xs)

/-- One column group (the `grid_x` of its columns): its columns' boxes and its own box. -/
def layoutGroup (pos cw : List Rat) (y0 h : Rat) (gridXs : List Nat) : Except PyErr (List Box4 × Box4) :=
  match allOk (gridXs.map (columnBox pos cw y0 h)) with
  | .error e => .error e
  | .ok cols =>
    match groupBox cols y0 h with
    | .error e => .error e
    | .ok g => .ok (cols, g)

end Wp.TableColumns
