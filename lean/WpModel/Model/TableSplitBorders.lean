/-
The bookkeeping `table_layout` (`weasyprint/layout/table.py`) does for a *split* table in the
collapsing border model, mirrored branch for branch:

* `skippedRows`, `splitCells` ↔ the block "Set border top width on tables with collapsed borders and
                                 split cells": the number of rows of `table.children` that come before
                                 the row where this fragment resumes (header rows included), and
                                 whether that row is resumed inside its cells
* `borderTop`                 ↔ `table.border_top_width = max(width … horizontal_borders[skipped_rows]) / 2`
                                 (only `if not split_cells and not has_header`, and only for a
                                 non-empty grid)
* `skipTop`                   ↔ `table.skip_cell_border_top = True` (a cell laid out with a truthy
                                 `cell_skip_stack`, no header)
* `skipBottom`                ↔ `table.skip_cell_border_bottom = True` (`break_cell`, no footer)

* `splitCellY`                ↔ `cell.position_y += max(header.border_bottom_width …)` for the cells of a
                                 resumed row under a repeated header

`table.skipped_rows` and the two flags are what `draw_collapsed_borders` reads
(`Model/TableBorderDraw.lean`).  No Mathlib: linked into `driver_c10`.
-/
import WpModel.Model.Wire
import WpModel.Model.TableWidths

namespace Wp.SplitBorders
open Wp Wp.Table

/-- The table's skip stack as this block reads it: `{group: None}` ↦ `(g, none)`;
`{group: {row: cells}}` ↦ `(g, some (r, bool(cells)))`. -/
abbrev Skip := Option (Nat × Option (Nat × Bool))

/-- `skipped_rows`. -/
def skippedRows (skip : Skip) (groupLens : List Nat) : Nat :=
  match skip with
  | none => 0
  | some (g, inner) =>
    (match inner with | some (r, _) => r | none => 0) + (groupLens.take g).sum

/-- `table.skipped_rows` as stored on the fragment: the rows of a header that does not fit and is not
rendered on the *first* fragment are skipped rows too (repair 02afb22:
`if collapse and has_header and header is None and skip_stack is None:
skipped_rows = len(table.children[0].children)`).  `headerShown` = the fragment repeats the header. -/
def finalSkippedRows (skip : Skip) (groupLens : List Nat) (hasHeader headerShown : Bool) : Nat :=
  if hasHeader && !headerShown && skip.isNone then
    (match groupLens with | h :: _ => h | [] => 0)
  else skippedRows skip groupLens

/-- `split_cells`. -/
def splitCells (skip : Skip) : Bool :=
  match skip with
  | some (_, some (_, cells)) => cells
  | _ => false

def maxList : List Rat → Option Rat
  | [] => none
  | x :: xs => some (xs.foldl (fun a b => if b > a then b else a) x)

/-- `table.border_top_width` after the block; `before` is its value after the first
`remove_decoration`; `hwidths` the widths of `horizontal_borders`, line by line. -/
def borderTop (skip : Skip) (groupLens : List Nat) (hasHeader : Bool) (hwidths : List (List Rat))
    (before : Rat) : Except PyErr Rat :=
  if !splitCells skip && !hasHeader then
    match hwidths with
    | [] => .ok before                               -- `if horizontal_borders:`
    | _ =>
      match hwidths[skippedRows skip groupLens]? with
      | none => .error (.indexError "horizontal_borders[skipped_rows]")
      | some line =>
        match maxList line with
        | none => .error (.valueError "max")
        | some m => .ok (m / 2)
  else .ok before

/-- `table.skip_cell_border_top` at the end of the call. -/
def skipTop (skip : Skip) (hasHeader : Bool) : Bool := splitCells skip && !hasHeader

/-- `table.skip_cell_border_bottom`: `brokenInRow` = the fragment ends inside a row (`break_cell`). -/
def skipBottom (brokenInRow hasFooter : Bool) : Bool := brokenInRow && !hasFooter

/-- `cell.position_y` of a cell of the row being resumed ("Adapt cell and table collapsing borders when
a row is split"): under a repeated header the rest of the cell starts below the header's bottom
border, `row.position_y + max(header.border_bottom_width for header in header_rows[-1].children)`;
`headerBottoms` = those widths (`[]` when the header has no row or its last row no cell);
`resumed` = the cell is given a truthy skip stack. -/
def splitCellY (rowY : Rat) (collapse hasHeader resumed : Bool) (headerBottoms : List Rat) : Rat :=
  if resumed && collapse && hasHeader then
    match maxList headerBottoms with
    | some m => rowY + m
    | none => rowY
  else rowY

/-- Border-box height of a cell (not row-spanning) of the first body row of a fragment after the
stretching pass of `group_layout`: every cell reaches the bottom of its row, from wherever it starts
(`splitCellY`). -/
def splitCellHeight (rowY rowHeight : Rat) (collapse hasHeader resumed : Bool) (headerBottoms : List Rat) : Rat :=
  rowY + rowHeight - splitCellY rowY collapse hasHeader resumed headerBottoms

end Wp.SplitBorders
