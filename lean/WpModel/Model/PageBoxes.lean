/-
Page box and margin box dimensions: mirror of weasyprint/layout/page.py
  `OrientedBox` (sugar / outer / outer setter / outer_min_content_size / outer_max_content_size),
  `page_width_or_height`, `page_width` / `page_height` under `handle_min_max_width/height`
  (layout/min_max.py), `compute_fixed_dimension`, `compute_variable_dimension`,
  the geometry part of `make_margin_boxes` (tables from `Gen/MarginBoxes.lean`) and of `make_page`
  (`resolve_percentages` restricted to the properties the page code reads).
Lengths are `Rat`, `'auto'` is `none`.  Python failure points (`assert`) are explicit (`Except PyErr`).
No Mathlib, no Std: linked into the compiled driver.
-/
import WpModel.Model.Wire
import WpModel.Gen.MarginBoxes

namespace Wp.PageBoxes
open Wp

/-! ## Computed lengths and `percentage()` -/

/-- A computed `<length-percentage> | auto`. -/
inductive Dim where
  | auto
  | px (v : Rat)
  | pct (v : Rat)
  deriving Repr, BEq, DecidableEq, Inhabited

/-- `percent.percentage(value, refer_to)`. -/
def Dim.resolve (d : Dim) (referTo : Rat) : Len :=
  match d with
  | .auto => none
  | .px v => some v
  | .pct v => some (referTo * v / 100)

/-! ## OrientedBox -/

/-- `OrientedBox` as seen by `page_width_or_height` / `compute_fixed_dimension`: the three values
that may be `'auto'`, `padding_plus_border`. -/
structure OBox where
  inner : Len
  ma : Len
  mb : Len
  ppb : Rat
  deriving Repr, BEq, DecidableEq, Inhabited

/-- A box all of whose three values are numbers (what `restore_box_attributes` writes back when
nothing is `'auto'` any more). -/
structure RBox where
  inner : Rat
  ma : Rat
  mb : Rat
  deriving Repr, BEq, DecidableEq, Inhabited

def RBox.outer (r : RBox) (ppb : Rat) : Rat := r.ma + ppb + r.inner + r.mb

/-! ## page_width_or_height -/

/-- `page_width_or_height(box, containing_block_size)`: every branch ends with three numbers. -/
def pageWidthOrHeight (b : OBox) (cb : Rat) : RBox :=
  let remaining := cb - b.ppb
  match b.inner, b.ma, b.mb with
  | none, ma, mb =>
    -- if box.inner == 'auto': auto margins become 0, inner takes the remainder
    let ma := match ma with | none => 0 | some v => v
    let mb := match mb with | none => 0 | some v => v
    ⟨remaining - ma - mb, ma, mb⟩
  | some w, none, none =>
    -- elif box.margin_a == box.margin_b == 'auto'
    ⟨w, (remaining - w) / 2, (remaining - w) / 2⟩
  | some w, none, some mb =>
    -- elif box.margin_a == 'auto'
    ⟨w, remaining - w - mb, mb⟩
  | some w, some ma, none =>
    -- elif box.margin_b == 'auto'
    ⟨w, ma, remaining - w - ma⟩
  | some w, some ma, some mb =>
    -- over-constrained: the given values are kept
    ⟨w, ma, mb⟩

/-- `handle_min_max_width(page_width)` / `handle_min_max_height(page_height)`:
`maxV = none` is `inf`. The computed margins are restored before each re-run. -/
def pageDimMinMax (b : OBox) (cb : Rat) (minV : Rat) (maxV : Option Rat) : RBox :=
  let r1 := pageWidthOrHeight b cb
  let r2 :=
    match maxV with
    | some mx => if r1.inner > mx then pageWidthOrHeight { b with inner := some mx } cb else r1
    | none => r1
  if r2.inner < minV then pageWidthOrHeight { b with inner := some minV } cb else r2

/-! ## compute_fixed_dimension -/

def orZero : Len → Len
  | none => some 0
  | some v => some v

def sumNonAuto (xs : List Len) : Rat :=
  xs.foldl (fun acc x => match x with | none => acc | some v => acc + v) 0

def countAuto (xs : List Len) : Nat :=
  (xs.filter (fun x => x.isNone)).length

/-- Rule 2. -/
def fixedRule2 (b : OBox) (outer : Rat) : OBox :=
  let total := b.ppb + sumNonAuto [b.ma, b.mb, b.inner]
  if total > outer then { b with ma := orZero b.ma, mb := orZero b.mb, inner := orZero b.inner } else b

/-- Rule 3 (over-constrained). -/
def fixedRule3 (b : OBox) (topOrLeft : Bool) : OBox :=
  match b.ma, b.mb, b.inner with
  | some _, some _, some _ => if topOrLeft then { b with ma := none } else { b with mb := none }
  | _, _, _ => b

/-- Rule 4 (exactly one `'auto'`). -/
def fixedRule4 (b : OBox) (outer : Rat) : OBox :=
  if countAuto [b.ma, b.mb, b.inner] = 1 then
    match b.inner, b.ma, b.mb with
    | none, some ma, some mb => { b with inner := some (outer - b.ppb - ma - mb) }
    | some w, none, some mb => { b with ma := some (outer - b.ppb - mb - w) }
    | some w, some ma, none => { b with mb := some (outer - b.ppb - ma - w) }
    | _, _, _ => b
  else b

/-- Rule 5 (`inner` still `'auto'`). -/
def fixedRule5 (b : OBox) (outer : Rat) : OBox :=
  match b.inner with
  | none =>
    let ma := match b.ma with | none => 0 | some v => v
    let mb := match b.mb with | none => 0 | some v => v
    { b with ma := some ma, mb := some mb, inner := some (outer - b.ppb - ma - mb) }
  | some _ => b

/-- Rule 6 (both margins `'auto'`); `inner` is a number here in every reachable state, an `'auto'`
inner would be a Python `TypeError` (`outer - ppb - 'auto'`), surfaced as the final assertion. -/
def fixedRule6 (b : OBox) (outer : Rat) : OBox :=
  match b.ma, b.mb, b.inner with
  | none, none, some w => { b with ma := some ((outer - b.ppb - w) / 2), mb := some ((outer - b.ppb - w) / 2) }
  | _, _, _ => b

/-- `compute_fixed_dimension(context, box, outer, vertical, top_or_left)` on the oriented box. -/
def computeFixed (b : OBox) (outer : Rat) (topOrLeft : Bool) : Except PyErr RBox :=
  let b := fixedRule2 b outer
  let b := fixedRule3 b topOrLeft
  let b := fixedRule4 b outer
  let b := fixedRule5 b outer
  let b := fixedRule6 b outer
  match b.ma, b.mb, b.inner with
  | some ma, some mb, some w => .ok ⟨w, ma, mb⟩
  | _, _, _ => .error (.assertFailed "compute_fixed_dimension")

/-! ## compute_variable_dimension -/

/-- An oriented box of `compute_variable_dimension` after its first loop (`'auto'` margins → 0),
with the min/max-content sizes of its content (`HorizontalBox`: from `preferred.py`;
`VerticalBox`: the constants 0 and 1e6). -/
structure VBox where
  inner : Len
  ma : Rat
  mb : Rat
  ppb : Rat
  minC : Rat
  maxC : Rat
  deriving Repr, BEq, DecidableEq, Inhabited

/-- `VerticalBox.min_content_size` / `max_content_size`. -/
def verticalMinContent : Rat := 0
def verticalMaxContent : Rat := 1000000

def VBox.sugar (b : VBox) : Rat := b.ppb + b.ma + b.mb

/-- `outer_min_content_size`. -/
def VBox.outerMin (b : VBox) : Rat :=
  b.sugar + (match b.inner with | none => b.minC | some w => w)

/-- `outer_max_content_size`. -/
def VBox.outerMax (b : VBox) : Rat :=
  b.sugar + (match b.inner with | none => b.maxC | some w => w)

/-- The `outer` setter: `inner = min(max(min_content_size, new_outer - sugar), max_content_size)`. -/
def VBox.setOuter (b : VBox) (newOuter : Rat) : VBox :=
  { b with inner := some (min (max b.minC (newOuter - b.sugar)) b.maxC) }

/-- `if flex_factor_sum == 0: flex_factor_sum = 1`. -/
def flexSum (x : Rat) : Rat := if x = 0 then 1 else x

/-- First loop of `compute_variable_dimension` on one box. -/
def toVBox (b : OBox) (minC maxC : Rat) : VBox :=
  { inner := b.inner
    ma := (match b.ma with | none => 0 | some v => v)
    mb := (match b.mb with | none => 0 | some v => v)
    ppb := b.ppb, minC := minC, maxC := maxC }

/-- B is not generated, A and C both `'auto'`: the three flex-fit branches. -/
def varNoBBothAuto (a c : VBox) (avail : Rat) : VBox × VBox :=
  if avail > a.outerMax + c.outerMax then
    let flexSpace := avail - a.outerMax - c.outerMax
    let fa := a.outerMax
    let fc := c.outerMax
    let s := flexSum (fa + fc)
    (a.setOuter (a.maxC + flexSpace * fa / s), c.setOuter (c.maxC + flexSpace * fc / s))
  else if avail > a.outerMin + c.outerMin then
    let flexSpace := avail - a.outerMin - c.outerMin
    let fa := a.maxC - a.minC
    let fc := c.maxC - c.minC
    let s := flexSum (fa + fc)
    (a.setOuter (a.minC + flexSpace * fa / s), c.setOuter (c.minC + flexSpace * fc / s))
  else
    let flexSpace := avail - a.outerMin - c.outerMin
    let fa := a.minC
    let fc := c.minC
    let s := flexSum (fa + fc)
    (a.setOuter (a.minC + flexSpace * fa / s), c.setOuter (c.minC + flexSpace * fc / s))

/-- B is generated and `'auto'`: resolve B against the imaginary box AC. -/
def varResolveB (a b c : VBox) (avail : Rat) : VBox :=
  let acMax := 2 * max a.outerMax c.outerMax
  if avail > b.outerMax + acMax then
    let flexSpace := avail - b.outerMax - acMax
    let fb := b.outerMax
    let s := flexSum (fb + acMax)
    b.setOuter (b.maxC + flexSpace * fb / s)
  else
    let acMin := 2 * max a.outerMin c.outerMin
    if avail > b.outerMin + acMin then
      let flexSpace := avail - b.outerMin - acMin
      let fb := b.maxC - b.minC
      let fac := acMax - acMin
      let s := flexSum (fb + fac)
      b.setOuter (b.minC + flexSpace * fb / s)
    else
      let flexSpace := avail - b.outerMin - acMin
      let fb := b.minC
      let s := flexSum (fb + acMin)
      b.setOuter (b.minC + flexSpace * fb / s)

/-- The body of `compute_variable_dimension` between the first loop and the final assertion. -/
def variableStep (a b c : VBox) (bGenerated : Bool) (avail : Rat) : Except PyErr (VBox × VBox × VBox) :=
  if !bGenerated then
    -- assert box_b.inner == 0
    if b.inner != some 0 then .error (.assertFailed "compute_variable_dimension:b.inner")
    else
      match a.inner, c.inner with
      | none, none => .ok ((varNoBBothAuto a c avail).1, b, (varNoBBothAuto a c avail).2)
      | none, some ci => .ok (a.setOuter (avail - (c.sugar + ci)), b, c)
      | some ai, none => .ok (a, b, c.setOuter (avail - (a.sugar + ai)))
      | some _, some _ => .ok (a, b, c)
  else
    let b' := match b.inner with
      | none => varResolveB a b c avail
      | some _ => b
    match b'.inner with
    | none => .error (.assertFailed "compute_variable_dimension:auto")
    | some bi =>
      let bOuter := b'.sugar + bi
      let a' := match a.inner with | none => a.setOuter ((avail - bOuter) / 2) | some _ => a
      let c' := match c.inner with | none => c.setOuter ((avail - bOuter) / 2) | some _ => c
      .ok (a', b', c')

/-- `compute_variable_dimension(context, side_boxes, vertical, available_size)` on the three
oriented boxes; `bGenerated` is `box_b.box.is_generated`.  Result: the three `inner` values and the
(now numeric) margins that `restore_box_attributes` writes back. -/
def computeVariable (a b c : VBox) (bGenerated : Bool) (avail : Rat) : Except PyErr (RBox × RBox × RBox) :=
  match variableStep a b c bGenerated avail with
  | .error e => .error e
  | .ok (a, b, c) =>
    -- assert 'auto' not in [box.inner for box in side_boxes]
    match a.inner, b.inner, c.inner with
    | some ai, some bi, some ci => .ok (⟨ai, a.ma, a.mb⟩, ⟨bi, b.ma, b.mb⟩, ⟨ci, c.ma, c.mb⟩)
    | _, _, _ => .error (.assertFailed "compute_variable_dimension:auto")

/-! ## Margin boxes of one page (`make_margin_boxes`, geometry) -/

/-- The used values of one margin box before the page-margin algorithms: what `make_box` leaves
after `resolve_percentages` (or the zeroes of a non-generated box). -/
structure MBox where
  kw : String
  generated : Bool
  width : Len
  height : Len
  mt : Len
  mr : Len
  mb : Len
  ml : Len
  pt : Rat
  pr : Rat
  pb : Rat
  pl : Rat
  bt : Rat
  br : Rat
  bb : Rat
  bl : Rat
  minC : Rat
  maxC : Rat
  deriving Repr, BEq, Inhabited

/-- Computed style of one margin box (what the cascade gives `make_box`). -/
structure MStyle where
  kw : String
  generated : Bool
  width : Dim
  height : Dim
  mt : Dim
  mr : Dim
  mb : Dim
  ml : Dim
  pt : Dim
  pr : Dim
  pb : Dim
  pl : Dim
  bt : Rat
  br : Rat
  bb : Rat
  bl : Rat
  minC : Rat
  maxC : Rat
  deriving Repr, BEq, Inhabited

def numOr0 : Len → Rat
  | none => 0
  | some v => v

/-- `make_box` after `resolve_percentages(box, containing_block)` for a `MarginBox` (not a
`PageBox`: vertical margins / paddings refer to the containing block *width*), then the zeroing of
a box that is not generated.  Paddings are never `'auto'` (validation), a `Dim.auto` there reads 0. -/
def makeBox (s : MStyle) (cbW cbH : Rat) : MBox :=
  if s.generated then
    { kw := s.kw, generated := true
      width := s.width.resolve cbW, height := s.height.resolve cbH
      mt := s.mt.resolve cbW, mr := s.mr.resolve cbW, mb := s.mb.resolve cbW, ml := s.ml.resolve cbW
      pt := numOr0 (s.pt.resolve cbW), pr := numOr0 (s.pr.resolve cbW)
      pb := numOr0 (s.pb.resolve cbW), pl := numOr0 (s.pl.resolve cbW)
      bt := s.bt, br := s.br, bb := s.bb, bl := s.bl, minC := s.minC, maxC := s.maxC }
  else
    { kw := s.kw, generated := false, width := some 0, height := some 0
      mt := some 0, mr := some 0, mb := some 0, ml := some 0
      pt := 0, pr := 0, pb := 0, pl := 0, bt := 0, br := 0, bb := 0, bl := 0
      minC := s.minC, maxC := s.maxC }

/-- `HorizontalBox(context, box)`. -/
def MBox.horizontal (m : MBox) : OBox := ⟨m.width, m.ml, m.mr, m.pl + m.pr + m.bl + m.br⟩
/-- `VerticalBox(context, box)`. -/
def MBox.vertical (m : MBox) : OBox := ⟨m.height, m.mt, m.mb, m.pt + m.pb + m.bt + m.bb⟩

def MBox.restoreH (m : MBox) (r : RBox) : MBox := { m with width := some r.inner, ml := some r.ma, mr := some r.mb }
def MBox.restoreV (m : MBox) (r : RBox) : MBox := { m with height := some r.inner, mt := some r.ma, mb := some r.mb }

/-- Page geometry read by `make_margin_boxes`. -/
structure PageGeom where
  marginTop : Rat
  marginRight : Rat
  marginBottom : Rat
  marginLeft : Rat
  maxBoxWidth : Rat     -- page.border_width()
  maxBoxHeight : Rat    -- page.border_height()
  deriving Repr, BEq, DecidableEq, Inhabited

/-- Variables assigned from the page box. -/
def PageGeom.evalBase (g : PageGeom) : MSym → Rat
  | .zero => 0
  | .marginTop => g.marginTop
  | .marginBottom => g.marginBottom
  | .marginLeft => g.marginLeft
  | .marginRight => g.marginRight
  | .maxBoxWidth => g.maxBoxWidth
  | .maxBoxHeight => g.maxBoxHeight
  | .pageEndX => 0
  | .pageEndY => 0

/-- All variables; `page_end_x`, `page_end_y` by their (generated) definitions. -/
def PageGeom.eval (g : PageGeom) : MSym → Rat
  | .pageEndX => g.evalBase Gen.pageEndXDef.1 + g.evalBase Gen.pageEndXDef.2
  | .pageEndY => g.evalBase Gen.pageEndYDef.1 + g.evalBase Gen.pageEndYDef.2
  | s => g.evalBase s

/-- A laid-out margin box: position of its margin box corner and its used values. -/
structure Placed where
  kw : String
  x : Rat
  y : Rat
  ml : Rat
  width : Rat
  mr : Rat
  mt : Rat
  height : Rat
  mb : Rat
  ppbH : Rat
  ppbV : Rat
  deriving Repr, BEq, DecidableEq, Inhabited

def Placed.marginWidth (p : Placed) : Rat := p.ml + p.ppbH + p.width + p.mr
def Placed.marginHeight (p : Placed) : Rat := p.mt + p.ppbV + p.height + p.mb

/-- The style of `@<kw>` (default: a box that is not generated, all zero). -/
def findStyle (styles : List MStyle) (kw : String) : MStyle :=
  match styles.find? (fun s => s.kw == kw) with
  | some s => s
  | none => { kw := kw, generated := false, width := .auto, height := .auto, mt := .px 0, mr := .px 0,
              mb := .px 0, ml := .px 0, pt := .px 0, pr := .px 0, pb := .px 0, pl := .px 0,
              bt := 0, br := 0, bb := 0, bl := 0, minC := 0, maxC := 0 }

/-- One iteration of the inner loop `for box, offset in zip(side_boxes, [0, 0.5, 1])` for a
generated box whose variable dimension is resolved. -/
def placeSide (row : SideRow) (g : PageGeom) (variableOuter fixedOuter : Rat) (m : MBox) (offset : Rat) :
    Except PyErr Placed :=
  let topOrLeft := Gen.topOrLeftPrefixes.contains row.pre
  if row.vertical then
    -- height is resolved; compute_fixed_dimension(context, box, fixed_outer, not vertical = False, …)
    match m.height, m.mt, m.mb with
    | some h, some mt, some mb =>
      let ppbV := m.pt + m.pb + m.bt + m.bb
      let marginHeight := mt + ppbV + h + mb
      match computeFixed m.horizontal fixedOuter topOrLeft with
      | .error e => .error e
      | .ok r =>
        .ok { kw := m.kw, x := g.eval row.posX, y := g.eval row.posY + offset * (variableOuter - marginHeight)
              ml := r.ma, width := r.inner, mr := r.mb, mt := mt, height := h, mb := mb
              ppbH := m.pl + m.pr + m.bl + m.br, ppbV := ppbV }
    | _, _, _ => .error (.assertFailed "make_margin_boxes:unresolved")
  else
    match m.width, m.ml, m.mr with
    | some w, some ml, some mr =>
      let ppbH := m.pl + m.pr + m.bl + m.br
      let marginWidth := ml + ppbH + w + mr
      match computeFixed m.vertical fixedOuter topOrLeft with
      | .error e => .error e
      | .ok r =>
        .ok { kw := m.kw, x := g.eval row.posX + offset * (variableOuter - marginWidth), y := g.eval row.posY
              ml := ml, width := w, mr := mr, mt := r.ma, height := r.inner, mb := r.mb
              ppbH := ppbH, ppbV := m.pt + m.pb + m.bt + m.bb }
    | _, _, _ => .error (.assertFailed "make_margin_boxes:unresolved")

/-- One row of the side loop. -/
def sideBoxes (row : SideRow) (g : PageGeom) (styles : List MStyle) : Except PyErr (List Placed) :=
  let cb0 := g.eval row.cb0
  let cb1 := g.eval row.cb1
  let suffixes := if row.vertical then Gen.verticalSuffixes else Gen.horizontalSuffixes
  let fixedFirst := if row.vertical then Gen.verticalFixedFirst else Gen.horizontalFixedFirst
  let fixedOuter := if fixedFirst then cb0 else cb1
  let variableOuter := if fixedFirst then cb1 else cb0
  let boxes := suffixes.map (fun sfx => makeBox (findStyle styles ("@" ++ row.pre ++ "-" ++ sfx)) cb0 cb1)
  match boxes with
  | [a, b, c] =>
    if !(a.generated || b.generated || c.generated) then .ok []
    else
      let mk (m : MBox) : VBox :=
        if row.vertical then toVBox m.vertical verticalMinContent verticalMaxContent
        else toVBox m.horizontal m.minC m.maxC
      match computeVariable (mk a) (mk b) (mk c) b.generated variableOuter with
      | .error e => .error e
      | .ok (ra, rb, rc) =>
        let restore (m : MBox) (r : RBox) : MBox := if row.vertical then m.restoreV r else m.restoreH r
        let placed := [(restore a ra, Gen.offsets[0]?), (restore b rb, Gen.offsets[1]?), (restore c rc, Gen.offsets[2]?)]
        placed.foldlM (fun acc (m, off) =>
          if !m.generated then .ok acc
          else match off with
            | none => .error (.indexError "make_margin_boxes:offsets")
            | some o =>
              match placeSide row g variableOuter fixedOuter m o with
              | .error e => .error e
              | .ok p => .ok (acc ++ [p])) []
  | _ => .error (.valueError "make_margin_boxes:side_boxes")

/-- One row of the corner loop. -/
def cornerBox (row : CornerRow) (g : PageGeom) (styles : List MStyle) : Except PyErr (List Placed) :=
  let cbW := g.eval row.cbW
  let cbH := g.eval row.cbH
  let m := makeBox (findStyle styles row.kw) cbW cbH
  if !m.generated then .ok []
  else
    match computeFixed m.vertical cbH row.isTop with
    | .error e => .error e
    | .ok rv =>
      match computeFixed m.horizontal cbW row.isLeft with
      | .error e => .error e
      | .ok rh =>
        .ok [{ kw := m.kw, x := g.eval row.posX, y := g.eval row.posY
               ml := rh.ma, width := rh.inner, mr := rh.mb, mt := rv.ma, height := rv.inner, mb := rv.mb
               ppbH := m.pl + m.pr + m.bl + m.br, ppbV := m.pt + m.pb + m.bt + m.bb }]

/-- `make_margin_boxes` (geometry): the generated boxes in the order they are yielded. -/
def makeMarginBoxes (g : PageGeom) (styles : List MStyle) : Except PyErr (List Placed) := do
  let sides ← Gen.sideTable.foldlM (fun acc row => do
    let ps ← sideBoxes row g styles
    pure (acc ++ ps)) []
  let corners ← Gen.cornerTable.foldlM (fun acc row => do
    let ps ← cornerBox row g styles
    pure (acc ++ ps)) []
  pure (sides ++ corners)

/-! ## The page box (`make_page`, geometry) -/

/-- Computed style of the page box as far as `make_page` reads it for its geometry. -/
structure PStyle where
  sizeW : Rat
  sizeH : Rat
  width : Dim
  height : Dim
  minW : Dim       -- `auto` reads 0
  maxW : Option Dim -- `none` is the initial value `inf px`
  minH : Dim
  maxH : Option Dim
  mt : Dim
  mr : Dim
  mb : Dim
  ml : Dim
  pt : Dim
  pr : Dim
  pb : Dim
  pl : Dim
  bt : Rat
  br : Rat
  bb : Rat
  bl : Rat
  deriving Repr, BEq, Inhabited

/-- Used values of the page box after `page_width` and `page_height`. -/
structure PageBox where
  width : Rat
  height : Rat
  mt : Rat
  mr : Rat
  mb : Rat
  ml : Rat
  pt : Rat
  pr : Rat
  pb : Rat
  pl : Rat
  bt : Rat
  br : Rat
  bb : Rat
  bl : Rat
  deriving Repr, BEq, DecidableEq, Inhabited

/-- `box.margin_width()` = `Page.width`. -/
def PageBox.marginWidth (p : PageBox) : Rat := p.ml + p.bl + p.pl + p.width + p.pr + p.br + p.mr
/-- `box.margin_height()` = `Page.height`. -/
def PageBox.marginHeight (p : PageBox) : Rat := p.mt + p.bt + p.pt + p.height + p.pb + p.bb + p.mb
def PageBox.borderWidth (p : PageBox) : Rat := p.bl + p.pl + p.width + p.pr + p.br
def PageBox.borderHeight (p : PageBox) : Rat := p.bt + p.pt + p.height + p.pb + p.bb

def PageBox.geom (p : PageBox) : PageGeom :=
  ⟨p.mt, p.mr, p.mb, p.ml, p.borderWidth, p.borderHeight⟩

/-- `resolve_one_percentage` for `min_*` (`'auto'` → 0) and `max_*` (`inf` stays `inf`). -/
def resolveMin (d : Dim) (r : Rat) : Rat := numOr0 (d.resolve r)
def resolveMax (d : Option Dim) (r : Rat) : Option Rat :=
  match d with
  | none => none
  | some d => d.resolve r   -- 'auto' is not a valid max-width; read as `inf`

/-- `make_page` up to `page_height(page, context, cb_height)`:
`resolve_percentages(page, device_size)` — for a `PageBox` vertical margins and paddings refer to
the *height* of the page sheet — then `page_width`, `page_height`. -/
def makePageBox (s : PStyle) : PageBox :=
  let cbW := s.sizeW
  let cbH := s.sizeH
  let pl := numOr0 (s.pl.resolve cbW)
  let pr := numOr0 (s.pr.resolve cbW)
  let pt := numOr0 (s.pt.resolve cbH)
  let pb := numOr0 (s.pb.resolve cbH)
  let h := pageDimMinMax ⟨s.width.resolve cbW, s.ml.resolve cbW, s.mr.resolve cbW, pl + pr + s.bl + s.br⟩ cbW
    (resolveMin s.minW cbW) (resolveMax s.maxW cbW)
  let v := pageDimMinMax ⟨s.height.resolve cbH, s.mt.resolve cbH, s.mb.resolve cbH, pt + pb + s.bt + s.bb⟩ cbH
    (resolveMin s.minH cbH) (resolveMax s.maxH cbH)
  { width := h.inner, height := v.inner, mt := v.ma, mr := h.mb, mb := v.mb, ml := h.ma
    pt := pt, pr := pr, pb := pb, pl := pl, bt := s.bt, br := s.br, bb := s.bb, bl := s.bl }

end Wp.PageBoxes
