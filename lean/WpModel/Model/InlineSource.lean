/-
C09 — from the text of the source to the boxes `split_inline_box` lays out: the white-space half of
"breaks occur only at allowed opportunities (collapsible spaces, preserved newlines …) as selected by
white-space", for the inline content of one block (text and inline elements).

* `build.process_whitespace` on trees of text boxes and inline boxes: the `following_collapsible_space`
  state threaded through the children, run once per element from the innermost outwards (each
  `element_to_box` calls it on its own box) — the `TextBox` branch is C08's `Bx.processText`
  (`Model/Whitespace.lean`, imported unchanged);
* the first loop of `build.inline_in_block`: `leading_collapsible_space` forced on the box after an
  emptied text box, emptied text boxes removed, `trailing_collapsible_space` of a box = the state left
  by its last (emptied) children — the flag `split_inline_box` reads as the break opportunity of a
  space that collapsed away (`Node.flagged`).

No Mathlib: linked into the driver.
-/
import WpModel.Model.InlineRun
import WpModel.Model.Whitespace

namespace Wp.IS
open Wp Wp.Py Wp.LB Wp.IR

/-- inline content as written in the source -/
inductive Src where
  | text (s : Text)
  | box (ls rs : Rat) (deco : Bool) (kids : List Src)
  deriving Repr, Inhabited

/-- boxes between the two passes: a text box with its `leading_collapsible_space`, an inline box -/
inductive PNode where
  | text (s : Text) (lcs : Bool)
  | box (ls rs : Rat) (deco : Bool) (kids : List PNode)
  deriving Repr, Inhabited

def toBxWS : WS → Bx.WS
  | .normal => .normal | .nowrap => .nowrap | .pre => .pre | .preWrap => .preWrap | .preLine => .preLine

def encode (t : Text) : Bx.Text := t.map Char.toNat
def decode (t : Bx.Text) : Text := t.map Char.ofNat

mutual
/-- `process_whitespace(box, following_collapsible_space)` → (box, returned state) -/
def pw (ws : WS) : PNode → Bool → PNode × Bool
  | .text s lcs, following =>
    if s.isEmpty then (.text s lcs, following)
    else
      let r := Bx.processText (toBxWS ws) (encode s) following
      (.text (decode r.text) (lcs || r.setLeading), r.following)
  | .box ls rs deco kids, following =>
    let r := pwKids ws kids following
    (.box ls rs deco r.1, r.2)
/-- the `for child in box.children` loop (text boxes and inline boxes in normal flow) -/
def pwKids (ws : WS) : List PNode → Bool → List PNode × Bool
  | [], following => ([], following)
  | c :: cs, following =>
    let r := pw ws c following
    let rest := pwKids ws cs r.2
    (r.1 :: rest.1, rest.2)
end

mutual
/-- `element_to_box`: the children first, then `process_whitespace(box)` on this element's box -/
def element (ws : WS) : Src → PNode
  | .text s => .text s false
  | .box ls rs deco kids => .box ls rs deco (pwKids ws (elementL ws kids) false).1
def elementL (ws : WS) : List Src → List PNode
  | [] => []
  | k :: ks => element ws k :: elementL ws ks
end

mutual
/-- `inline_in_block(child)` on an inline box: its filtered children and its `trailing_collapsible_space` -/
def iibBox : PNode → Node
  | .text s _ => .text s
  | .box ls rs deco kids =>
    -- `if not box.children: return box`
    if kids.isEmpty then .box ls rs deco []
    else
      let r := iibKids false kids
      if r.2 then .flagged (.box ls rs deco r.1) else .box ls rs deco r.1
/-- the first loop of `inline_in_block`: (`children`, final `trailing_collapsible_space`) -/
def iibKids (trailing : Bool) : List PNode → List Node × Bool
  | [] => ([], trailing)
  | .text s lcs :: cs =>
    -- `if trailing_collapsible_space: child.leading_collapsible_space = True`
    if s.isEmpty then iibKids (lcs || trailing) cs
    else
      let rest := iibKids false cs
      (.text s :: rest.1, rest.2)
  | .box ls rs deco kids :: cs =>
    let rest := iibKids false cs
    (iibBox (.box ls rs deco kids) :: rest.1, rest.2)
end

mutual
/-- a readable form of the nodes (texts quoted, boxes bracketed, `^` = `trailing_collapsible_space`), for stating
examples: `Node` is a nested inductive without derived `DecidableEq` -/
def render : Node → Text
  | .text s => '"' :: s ++ ['"']
  | .box _ _ _ kids => '[' :: renderL kids ++ [']']
  | .flagged n => '^' :: render n
def renderL : List Node → Text
  | [] => []
  | n :: ns => render n ++ renderL ns
end

/-- "Do not append white space at the start of a line": a text box that is exactly one collapsed space -/
def isLineStartSpace (ws : WS) : Node → Bool
  | .text s => s == [' '] && Gen.lineStartSpaceWs.contains (toBxWS ws)
  | _ => false

/-- the children of the line box of a block whose inline content is `kids` (the second half of
`inline_in_block` for a block with only inline-level children: leading collapsed spaces are not put
into the line box) -/
def lineKids (ws : WS) (kids : List Src) : List Node :=
  ((iibKids false (pwKids ws (elementL ws kids) false).1).1).dropWhile (isLineStartSpace ws)

end Wp.IS
