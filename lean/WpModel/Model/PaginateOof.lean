/-
PM stage 2a — the pagination model extended with out-of-flow block-level children: absolutely
positioned boxes (`position: absolute`, `top/bottom: auto` → static position) and full-width left floats
(`float: left; width: 100%`), plus `clear: left` on floats and in-flow blocks.

Branch-for-branch transcription of the out-of-flow parts of
  weasyprint/layout/block.py     block_level_layout (clearance), block_container_layout (the
                                 `not child.is_in_normal_flow()` branch, `broken_out_of_flow` bookkeeping,
                                 formatting contexts), _out_of_flow_layout, _in_flow_layout (translation of
                                 earlier out-of-flow siblings, clearance, `page_is_empty_with_no_children`,
                                 "only absolute children" rule), find_earlier_page_break,
                                 find_last_in_flow_child, remove_placeholders
  weasyprint/layout/float.py     float_layout, find_float_position, get_clearance, avoid_collisions
                                 (restricted to full-width left floats: a colliding box never fits beside)
  weasyprint/layout/absolute.py  AbsolutePlaceholder, absolute_layout, absolute_box_layout, absolute_block
                                 (vertical part; `top = bottom = auto`: `translate_y = 0`)
  weasyprint/layout/inline.py    get_next_linebox (a line box avoids the floats)
  weasyprint/layout/page.py      make_page (continuation of `context.broken_out_of_flow`, layout of the
                                 page's absolute boxes, `root_box.children = out_of_flow_boxes + …`),
                                 make_all_pages (`context.broken_out_of_flow.clear()` at the end)
  weasyprint/layout/__init__.py  create/finish_block_formatting_context
on top of stage 1 (`Model/Paginate.lean`), whose style, resume, geometry, context, line-breaking and
margin definitions are reused unchanged.

Grammar: stage 1 (nested `block`s, `para`s of `n` lines) where every box carries `pos` (static / abs /
float) and `clear`. Validated restriction (driver): the root and its single child are static.
Round 3: out-of-flow boxes may hold out-of-flow boxes — floats in floats and in absolutely positioned boxes,
absolutely positioned boxes in floats — which needs `finish_block_formatting_context` for every box that
establishes a formatting context (`finishTail`), the translation of the placeholders inside a float when
`find_float_position` moves it (`floatDone`), and the layout of the placeholders inside the continuation of a
float with the page's (`remakePage`). Round 4: absolutely positioned boxes inside absolutely positioned boxes
(`layoutAbs`: `absolute_block`'s own `absolute_boxes` list, laid out recursively right after the box, registered
in `broken_out_of_flow` before it), on the page where the box starts and on the pages where it is continued.
Repairs of /repo followed (round 3): e3ac9f0 (`finishBlock`, abort removes the placeholders of `new_children`),
cdccac3 (`keptBroken`), 50ab141 then 1bc67ce (`placeFloat`, zero-height float); round 4: 24ce8bf
(`OFrag.cutEnd` in `findEarlierGo`: the box that `find_earlier_page_break` cuts loses its bottom decoration), 0d665d0 (`floatStep`, a postponed float forgets what is nested in it).

State of the Python code that is threaded explicitly (`World`):
  `context.excluded_shapes` (floats of the current block formatting context; the float *objects*, so a
  later translation of the float moves the shape), the page's `absolute_boxes` list (placeholder objects),
  `context.broken_out_of_flow` (dict keyed by laid-out box objects). Object identity is modelled by a
  serial number drawn at each placeholder creation / float layout.
-/
import WpModel.Model.Paginate

namespace Wp.PMO
open Wp Wp.PM

inductive Pos where
  | static | abs | float
  deriving Repr, Inhabited, DecidableEq

structure OStyle extends PStyle where
  pos : Pos
  clear : Bool           -- clear: left
  deriving Repr, Inhabited, BEq

inductive OBox where
  | para (id : Nat) (n : Nat) (lineH : Rat) (st : OStyle)
  | block (id : Nat) (st : OStyle) (kids : List OBox)
  deriving Repr, Inhabited

def OBox.st : OBox → OStyle
  | .para _ _ _ st => st
  | .block _ st _ => st

def OBox.id : OBox → Nat
  | .para id _ _ _ => id
  | .block id _ _ => id

/-- `is_in_normal_flow()` -/
def OBox.inFlow (b : OBox) : Bool := b.st.pos == .static

/-- `establishes_formatting_context()` (floats and absolutely positioned boxes; `overflow: visible`). -/
def OStyle.bfc (st : OStyle) : Bool := st.pos != .static

/-- Laid-out fragments. `ser` = identity of the Python object when it matters (floats: key of
`broken_out_of_flow` and member of `excluded_shapes`; placeholders: member of `absolute_boxes`), 0
otherwise. `ph` = an `AbsolutePlaceholder` whose box is not laid out yet. -/
inductive OFrag where
  | para (ser id idx : Nat) (st : OStyle) (n : Nat) (g : Geo) (lines : List (Nat × Rat))
  | block (ser id idx : Nat) (st : OStyle) (g : Geo) (kids : List OFrag)
  | ph (ser id idx : Nat) (y : Rat)
  deriving Repr, Inhabited

def dummyGeo : Geo := { y := 0, mt := 0, mb := 0, pt := 0, pb := 0, bt := 0, bb := 0, h := 0 }

def OFrag.geo : OFrag → Geo
  | .para _ _ _ _ _ g _ => g
  | .block _ _ _ _ g _ => g
  | .ph _ _ _ y => { dummyGeo with y := y }
def OFrag.idx : OFrag → Nat
  | .para _ _ i _ _ _ _ => i
  | .block _ _ i _ _ _ => i
  | .ph _ _ i _ => i
def OFrag.ser : OFrag → Nat
  | .para s _ _ _ _ _ _ => s
  | .block s _ _ _ _ _ => s
  | .ph s _ _ _ => s
def OFrag.withIdx : OFrag → Nat → OFrag
  | .para ser id _ st n g ls, i => .para ser id i st n g ls
  | .block ser id _ st g ks, i => .block ser id i st g ks
  | .ph ser id _ y, i => .ph ser id i y
def OFrag.withSer : OFrag → Nat → OFrag
  | .para _ id i st n g ls, ser => .para ser id i st n g ls
  | .block _ id i st g ks, ser => .block ser id i st g ks
  | .ph _ id i y, ser => .ph ser id i y
/-- `is_in_normal_flow()` (a placeholder answers for its absolutely positioned box). -/
def OFrag.inFlow : OFrag → Bool
  | .para _ _ _ st _ _ _ => st.pos == .static
  | .block _ _ _ st _ _ => st.pos == .static
  | .ph _ _ _ _ => false
def OFrag.isPh : OFrag → Bool
  | .ph _ _ _ _ => true
  | _ => false
/-- `is_absolutely_positioned()` -/
def OFrag.isAbs : OFrag → Bool
  | .para _ _ _ st _ _ _ => st.pos == .abs
  | .block _ _ _ st _ _ => st.pos == .abs
  | .ph _ _ _ _ => true
/-- The break style read by `find_earlier_page_break` (`child.style['break_inside']`). -/
def OFrag.brkInside : OFrag → Brk
  | .para _ _ _ st _ _ _ => st.brkInside
  | .block _ _ _ st _ _ => st.brkInside
  | .ph _ _ _ _ => .auto

def _root_.Wp.PM.Geo.marginHeight (g : Geo) : Rat := g.h + g.pt + g.pb + g.bt + g.bb + g.mt + g.mb

mutual
/-- `Box.translate(dy=…)`: the box, its descendants and its lines. -/
def OFrag.translate (dy : Rat) : OFrag → OFrag
  | .para ser id idx st n g lines =>
    .para ser id idx st n { g with y := g.y + dy } (lines.map fun l => (l.1, l.2 + dy))
  | .block ser id idx st g kids => .block ser id idx st { g with y := g.y + dy } (translateList dy kids)
  | .ph ser id idx y => .ph ser id idx (y + dy)
def translateList (dy : Rat) : List OFrag → List OFrag
  | [] => []
  | f :: fs => f.translate dy :: translateList dy fs
end

mutual
/-- Serial numbers of the objects of a fragment tree (what `remove_placeholders` walks). -/
def fragSers : OFrag → List Nat
  | .para ser _ _ _ _ _ _ => [ser]
  | .block ser _ _ _ _ kids => ser :: fragSersList kids
  | .ph ser _ _ _ => [ser]
def fragSersList : List OFrag → List Nat
  | [] => []
  | f :: fs => fragSers f ++ fragSersList fs
end

/-! ### the threaded state -/

/-- A member of `context.excluded_shapes`: a laid-out full-width left float (`position_y`,
`margin_height()`). -/
structure Shape where
  ser : Nat
  y : Rat
  mh : Rat
  deriving Repr, Inhabited, BEq

/-- A member of `absolute_boxes`: placeholder of `box` (child number `idx`), static position `y`. -/
structure AbsEntry where
  ser : Nat
  box : OBox
  idx : Nat
  y : Rat
  oof : box.inFlow = false     -- only out-of-flow boxes get a placeholder
  deriving Repr

/-- An item of `context.broken_out_of_flow`: key (serial of the laid-out fragment), the source box, its
`.index` attribute (as `frag_wire` reads it: 0 for floats, whose source box never gets one), and where to
resume. -/
structure Broken where
  ser : Nat
  box : OBox
  idx : Nat
  resume : Resume
  oof : box.inFlow = false     -- only out-of-flow boxes are continued by `make_page`
  deriving Repr

structure World where
  next : Nat                 -- next serial number
  shapes : List Shape        -- `context.excluded_shapes` of the current formatting context
  absL : List AbsEntry       -- `absolute_boxes` (of the page)
  broken : List Broken       -- `context.broken_out_of_flow`
  crash : Bool               -- `float_layout` got `None` from `block_container_layout` (AttributeError)
  deriving Repr, Inhabited

def World.empty : World := { next := 1, shapes := [], absL := [], broken := [], crash := false }

/-- `remove_placeholders`: drop the objects with these serials from `absolute_boxes` and
`context.broken_out_of_flow`. -/
def World.remove (w : World) (sers : List Nat) : World :=
  { w with absL := w.absL.filter (fun e => !sers.contains e.ser),
           broken := w.broken.filter (fun e => !sers.contains e.ser) }

/-- `remove_placeholders` on the part of `before` that is not kept in `after`. -/
def World.removeDropped (w : World) (before after : List OFrag) : World :=
  w.remove ((fragSersList before).filter (fun s => !(fragSersList after).contains s))

/-- A translation of laid-out floats / placeholders moves the shared objects. -/
def World.shift (w : World) (sers : List Nat) (dy : Rat) : World :=
  { w with shapes := w.shapes.map (fun s => if sers.contains s.ser then { s with y := s.y + dy } else s),
           absL := w.absL.map (fun e => if sers.contains e.ser then { e with y := e.y + dy } else e) }

/-! ### floats: `get_clearance`, `avoid_collisions` -/

/-- `get_clearance(context, box, collapsed_margin)`; `hyp` = `box.position_y + collapsed_margin`. -/
def getClearance (shapes : List Shape) (clear : Bool) (hyp : Rat) : Option Rat :=
  shapes.foldl (fun acc s =>
    if clear && decide (hyp < s.y + s.mh) then
      let cur : Rat := match acc with | some a => a | none => 0
      let v := s.y + s.mh - hyp
      some (if cur ≥ v then cur else v)
    else acc) none

/-- The three-way vertical collision test of `avoid_collisions`. -/
def Shape.collides (s : Shape) (y h : Rat) : Bool :=
  (decide (s.y < y) && decide (y < s.y + s.mh)) ||
  (decide (s.y < y + h) && decide (y + h < s.y + s.mh)) ||
  (decide (s.y ≥ y) && decide (s.y + s.mh ≤ y + h))

def minRat : List Rat → Option Rat
  | [] => none
  | x :: xs => match minRat xs with
    | none => some x
    | some m => some (if x ≤ m then x else m)

/-- The `while True` loop of `avoid_collisions` for a box of positive width in a containing block
whose whole width is taken by every float: a colliding box does not fit, it goes to the lowest bottom of
a colliding shape below it, if any. `fuel` = number of shapes + 1. -/
def avoidY (shapes : List Shape) (h : Rat) : Nat → Rat → Rat
  | 0, y => y
  | fuel + 1, y =>
    let lower := ((shapes.filter (fun s => s.collides y h)).map (fun s => s.y + s.mh)).filter (fun b => decide (b > y))
    match minRat lower with
    | none => y
    | some y' => avoidY shapes h fuel y'

/-- `position_y` given to a line box by `get_next_linebox`. -/
def avoidLine (shapes : List Shape) (lineH y : Rat) : Rat := avoidY shapes lineH (shapes.length + 1) y

/-! ### break values meeting between a laid-out fragment and a source box -/

mutual
def fragAfterChain : OFrag → List Brk
  | .para _ _ _ st _ _ _ => [st.brkAfter]
  | .block _ _ _ st _ kids => st.brkAfter :: fragAfterChainLast kids
  | .ph _ _ _ _ => []            -- a placeholder is not a `BlockLevelBox`
def fragAfterChainLast : List OFrag → List Brk
  | [] => []
  | f :: rest => match rest with
    | [] => fragAfterChain f
    | _ :: _ => fragAfterChainLast rest
end

mutual
def boxBeforeChain : OBox → List Brk
  | .para _ _ _ st => [st.brkBefore]
  | .block _ st kids => st.brkBefore :: boxBeforeChainFirst kids
def boxBeforeChainFirst : List OBox → List Brk
  | [] => []
  | b :: _ => boxBeforeChain b
end

mutual
def fragBeforeChain : OFrag → List Brk
  | .para _ _ _ st _ _ _ => [st.brkBefore]
  | .block _ _ _ st _ kids => st.brkBefore :: fragBeforeChainFirst kids
  | .ph _ _ _ _ => []
def fragBeforeChainFirst : List OFrag → List Brk
  | [] => []
  | b :: _ => fragBeforeChain b
end

/-- `block_level_page_break(last_in_flow_child, child)` (`None` before: only the values after). -/
def breakBetween (before : Option OFrag) (after : OBox) : Brk :=
  resolve ((match before with | some b => (fragAfterChain b).reverse | none => []) ++ boxBeforeChain after)

def breakBetweenFrags (before : OFrag) (after : Option OFrag) : Brk :=
  resolve ((fragAfterChain before).reverse ++ (match after with | none => [] | some a => fragBeforeChain a))

/-! ### `page_values()`: children in normal flow only -/

mutual
def boxPageStart : OBox → String
  | .para _ _ _ st => st.page
  | .block _ st kids => let s := boxPageStartFirst kids; if s = "" then st.page else s
def boxPageStartFirst : List OBox → String
  | [] => ""
  | b :: rest => if b.inFlow then boxPageStart b else boxPageStartFirst rest
end

def hasInFlow (fs : List OFrag) : Bool := fs.any OFrag.inFlow

mutual
def fragPageEnd : OFrag → String
  | .para _ _ _ st _ _ _ => st.page
  | .block _ _ _ st _ kids => let s := fragPageEndLast kids; if s = "" then st.page else s
  | .ph _ _ _ _ => ""
def fragPageEndLast : List OFrag → String
  | [] => ""
  | f :: rest => if hasInFlow rest then fragPageEndLast rest else if f.inFlow then fragPageEnd f else ""
end

/-- `find_last_in_flow_child(children)` -/
def lastInFlow : List OFrag → Option OFrag
  | [] => none
  | f :: rest => match lastInFlow rest with
    | some l => some l
    | none => if f.inFlow then some f else none

/-! ### paragraphs: the line loop with floats to avoid -/

/-- The `for i, (line, resume_at) in enumerate(lines_iterator)` loop of `_linebox_layout`; `y0` is the
`position_y` handed to `get_next_linebox` for line `i`, the line goes to `avoidLine shapes lineH y0`. -/
def lineLoop (c : Ctx) (st : PStyle) (b : BoxSt) (n : Nat) (lineH : Rat) (pageIsEmpty : Bool) (bs : Rat)
    (shapes : List Shape) : (fuel : Nat) → (i : Nat) → (y0 : Rat) → LineLoop → LineOutcome
  | 0, _, _, s => .done s
  | fuel + 1, i, y0, s =>
    let y := avoidLine shapes lineH y0
    let resume := lineResume n i
    let newPosY := y + lineH
    let dbd := s.dbd || resume.isNone
    let offset := if dbd then b.bb + b.pb else 0
    let overflow := (!s.lines.isEmpty || !pageIsEmpty) && c.overflowsPage bs (newPosY + offset)
    if overflow then
      let (abort, stop, r, lines') := breakLine st n i s.lines pageIsEmpty s.skip resume
      .broke abort stop r { s with lines := lines', dbd := dbd }
    else
      let shift := pageIsEmpty && c.overflowsPage bs newPosY
      let newPosY' := if shift then newPosY - s.mt else newPosY
      let lineY := if shift then y - s.mt else y
      let mt' := if shift then 0 else s.mt
      lineLoop c st b n lineH pageIsEmpty bs shapes fuel (i + 1) (y + lineH)
        { lines := s.lines ++ [(i, lineY)], posY := newPosY', skip := resume, mt := mt', dbd := dbd }

def lineboxLoop (c : Ctx) (st : PStyle) (b : BoxSt) (n : Nat) (lineH : Rat) (pageIsEmpty : Bool)
    (adj : List Rat) (bs : Rat) (posY : Rat) (skip : Option Resume) (dbd : Bool) (shapes : List Shape)
    : LineOutcome :=
  lineLoop c st b n lineH pageIsEmpty bs shapes (n - skipLine skip) (skipLine skip) (lineStart adj posY)
    { lines := [], posY := lineStart adj posY, skip := skip, mt := b.mt, dbd := dbd }

def lineboxLayout (c : Ctx) (st : PStyle) (b : BoxSt) (n : Nat) (lineH : Rat) (pageIsEmpty : Bool)
    (adj : List Rat) (bs : Rat) (posY : Rat) (skip : Option Resume) (dbd : Bool) (shapes : List Shape)
    : LineResult :=
  match lineboxLoop c st b n lineH pageIsEmpty adj bs posY skip dbd shapes with
  | .done s =>
    { abort := false, stop := false, resume := lastLineResume n s.lines none, posY := s.posY,
      lines := s.lines, mt := s.mt, dbd := s.dbd }
  | .broke a st' r s =>
    { abort := a, stop := st', resume := lastLineResume n s.lines r, posY := s.posY,
      lines := s.lines, mt := s.mt, dbd := s.dbd }

/-! ### `find_earlier_page_break` -/

structure EarlierState where
  found : Option (List OFrag × Resume)
  prev : Option OFrag          -- `previous_in_flow`
  nxt : Option Nat             -- `.index` of the sibling that follows in the list
  deriving Inhabited

def findEarlierPara (ser id idx : Nat) (st : OStyle) (n : Nat) (g : Geo) (lines : List (Nat × Rat))
    : Option (OFrag × Resume) :=
  if lines.isEmpty then none
  else
    let index : Int := (lines.length : Int) - (st.widows : Int)
    if index < (st.orphans : Int) then none
    else
      let kept := lines.take index.toNat
      match kept.getLast? with
      | some (i, _) => some (.para ser id idx st n g kept, .node 0 (lineResume n i))
      | none => none

/-- `new_child.remove_decoration(start=False, end=True)` on the box that `find_earlier_page_break` cuts
(repair 24ce8bf): unless `box-decoration-break: clone`, the bottom margin, padding and border go (the height
is not recomputed). -/
def OFrag.cutEnd : OFrag → OFrag
  | .para ser id idx st n g lines => .para ser id idx st n (g.cutBottom st.toPStyle) lines
  | .block ser id idx st g kids => .block ser id idx st (g.cutBottom st.toPStyle) kids
  | f => f

mutual
/-- The reversed loop of `find_earlier_page_break(children)`, as a right fold. Children out of the
normal flow are passed over (`is_in_normal_flow()` guards both halves of the loop body); the resume
position of a break after `x` is the `.index` of the *next list element*, in flow or not. -/
def findEarlierGo : List OFrag → EarlierState
  | [] => { found := none, prev := none, nxt := none }
  | x :: xs =>
    let s := findEarlierGo xs
    match s.found with
    | some (kept, r) => { found := some (x :: kept, r), prev := s.prev, nxt := some x.idx }
    | none =>
      if !x.inFlow then { found := none, prev := s.prev, nxt := some x.idx }
      else
        let pb := breakBetweenFrags x s.prev
        let breakAfter : Option Nat := match s.prev with
          | some _ => if !avoidsPage pb then s.nxt else none
          | none => none
        match breakAfter with
        | some i => { found := some ([x], .node i none), prev := s.prev, nxt := some x.idx }
        | none =>
          if !avoidsPage x.brkInside then
            match findEarlierFrag x with
            | some (x', r) =>
              { found := some ([x'.cutEnd], .node x.idx (some r)), prev := some x, nxt := some x.idx }
            | none => { found := none, prev := some x, nxt := some x.idx }
          else { found := none, prev := some x, nxt := some x.idx }
def findEarlierFrag : OFrag → Option (OFrag × Resume)
  | .para ser id idx st n g lines => findEarlierPara ser id idx st n g lines
  | .block ser id idx st g kids =>
    match (findEarlierGo kids).found with
    | some (kids', r) => some (.block ser id idx st g kids', r)
    | none => none
  | .ph _ _ _ _ => none
end

def findEarlierList (kids : List OFrag) : Option (List OFrag × Resume) := (findEarlierGo kids).found

/-! ### block containers -/

structure LayoutResult where
  frag : Option OFrag
  resume : Option Resume
  nextPage : NextPage
  adj : AdjOut
  collapsingThrough : Bool
  adjL : List Rat              -- final content of the list object passed in
  clearance : Option Rat       -- `new_child.clearance`
  w : World
  deriving Inhabited

/-- State of the children loop of `block_container_layout`. -/
structure KidsLoop where
  newChildren : List OFrag
  posY : Rat
  boxY : Rat                   -- `box.position_y` (moved by the clearance branch of `_in_flow_layout`)
  adjL : List Rat
  cur : List Rat
  curIsL : Bool
  nextPage : NextPage
  skip : Option Resume
  localBroken : List Broken    -- the local `broken_out_of_flow` dict
  w : World
  deriving Inhabited

inductive KidsOutcome where
  | finished (s : KidsLoop)
  | aborted (page : String) (s : KidsLoop)
  | stopped (resume : Option Resume) (s : KidsLoop)
  deriving Inhabited

def KidsLoop.setCur (s : KidsLoop) (l : List Rat) (isL : Bool) : KidsLoop :=
  if isL then { s with cur := l, adjL := l, curIsL := true } else { s with cur := l, curIsL := false }

def KidsLoop.appendCur (s : KidsLoop) (m : Rat) : KidsLoop :=
  if s.curIsL then { s with cur := s.cur ++ [m], adjL := s.cur ++ [m] } else { s with cur := s.cur ++ [m] }

def maxRat (xs : List Rat) (x0 : Rat) : Rat := xs.foldl (fun a x => if x > a then x else a) x0

/-- The tail of `block_container_layout` after the children loop. As stage 1, with: a box that establishes
a formatting context counts like the root; `collapsing_through` also needs `get_clearance(…) is None`. -/
def finishTail (c : Ctx) (st : OStyle) (b : BoxSt) (bs : Rat)
    (cwc : Bool) (dbd : Bool) (resume : Option Resume) (posY : Rat) (adjL : List Rat) (cur : List Rat)
    (curIsL : Bool) (hasKids : Bool) (shapes : List Shape) : FinishTail :=
  let fragmented := resume.isSome
  let b := if cwc then { b with y := b.y + collapseMargin adjL - b.mt } else b
  let (posY, cur, curIsL, through) :=
    if !hasKids then
      let cm := collapseMargin cur
      if (st.height = none || st.height = some 0) && (getClearance shapes st.clear (b.y + cm)).isNone &&
          st.minH = 0 && b.bt = 0 && b.pt = 0 && b.bb = 0 && b.pb = 0
      then (posY, cur, curIsL, true)
      else (posY + cm, ([] : List Rat), false, false)
    else if st.height ≠ none then (posY, ([] : List Rat), false, false)
    else (posY, cur, curIsL, false)
  let (posY, cur, curIsL) :=
    if b.bb ≠ 0 || b.pb ≠ 0 || st.bfc || st.isRoot then (posY + collapseMargin cur, ([] : List Rat), false)
    else (posY, cur, curIsL)
  let nb : BoxSt := if !st.clone && fragmented then { b with mb := 0, pb := 0, bb := 0 } else b
  let contentY := nb.y + nb.mt + nb.bt + nb.pt
  let h0 : Rat := match st.height with | none => posY - contentY | some h => h
  -- `context.finish_block_formatting_context(new_box)` (a box that establishes a formatting context, `height:
  -- auto`): down to the lowest float of its own context (`shapes`; floats nested in a float / absolute box)
  let h0 : Rat := if st.bfc && st.height = none && !shapes.isEmpty
    then h0 + (maxRat (shapes.map fun s => s.y + s.mh) (contentY + h0) - (contentY + h0)) else h0
  let h : Rat :=
    if !fragmented then
      let capped := match st.maxH with | none => h0 | some m => if h0 ≤ m then h0 else m
      if capped ≥ st.minH then capped else st.minH
    else
      let newH := c.pageBottom - bs - nb.y - (nb.mt + nb.mb + nb.bt + nb.bb + nb.pt + nb.pb)
      if newH > h0 then (if dbd then newH + (b.pb + b.bb + b.mb) else newH) else h0
  { geo := geoOf nb h, adj := if curIsL then .alias else .fresh cur, through := through }

/-- `for key, value in broken_out_of_flow.items(): if any(key is child for child in new_children)`: the
floats cut on this page that are still children of the box (one that `find_earlier_page_break` dropped is
laid out again in full on the next page, it must not be continued as well — repair cdccac3). -/
def keptBroken (kids : List OFrag) (localBroken : List Broken) : List Broken :=
  localBroken.filter (fun e => kids.any (fun f => f.ser == e.ser))

@[simp] theorem keptBroken_nil (kids : List OFrag) : keptBroken kids [] = [] := rfl

/-- The end of `block_container_layout`. A fragmented box that must not be is dropped: its children's
placeholders / broken floats are removed, its own broken floats are not registered. Otherwise the local
`broken_out_of_flow` is merged into the context's — the entries whose float is still a child. -/
def finishContainer (c : Ctx) (st : OStyle) (b : BoxSt) (pageIsEmpty : Bool) (bs : Rat)
    (cwc : Bool) (dbd : Bool) (resume : Option Resume) (posY : Rat) (adjL : List Rat) (cur : List Rat)
    (curIsL : Bool) (nextPage : NextPage) (hasKids : Bool) (pageEnd : String)
    (kids : List OFrag) (localBroken : List Broken) (w : World)
    (mk : Geo → OFrag) : LayoutResult :=
  if resume.isSome && avoidsPage st.brkInside && !pageIsEmpty then
    { frag := none, resume := none, nextPage := { brk := none, page := none }, adj := .fresh [],
      collapsingThrough := false, adjL := adjL, clearance := none, w := w.remove (fragSersList kids) }
  else
    let t := finishTail c st b bs cwc dbd resume posY adjL cur curIsL hasKids w.shapes
    let np : NextPage := match nextPage.page with
      | none => { nextPage with page := some pageEnd }
      | some _ => nextPage
    { frag := some (mk t.geo), resume := resume, nextPage := np,
      adj := t.adj, collapsingThrough := t.through, adjL := adjL, clearance := none,
      w := { w with broken := w.broken ++ keptBroken kids localBroken } }

/-- The beginning of `block_level_layout` / `block_container_layout`. New: the clearance of
`block_level_layout` (the box moves below the floats it clears and gets a *fresh* adjoining-margins
list), and a box that establishes a formatting context does not collapse with its children. -/
structure Prep where
  b : BoxSt
  bs : Rat
  adjL : List Rat
  cwc : Bool
  cur : List Rat
  curIsL : Bool
  posY : Rat
  dbd : Bool
  isStart : Bool
  clearance : Option Rat
  callerAdjL : List Rat      -- content of the caller's list (untouched when there is clearance)
  deriving Inhabited

def prepare (c : Ctx) (st : OStyle) (y : Rat) (bs : Rat) (skip : Option Resume) (cbIsRoot : Bool)
    (pageIsEmpty : Bool) (adjL : List Rat) (shapes : List Shape) : Prep :=
  let mt0 := if c.currentPage > 1 && pageIsEmpty && (cbIsRoot || !adjL.isEmpty) && !c.forcedBreak then 0 else st.mt
  -- `collapsed_margin = collapse_margin([*adjoining_margins, box.margin_top])`, `get_clearance`
  let collapsed := collapseMargin (adjL ++ [mt0])
  let clearance := getClearance shapes st.clear (y + collapsed)
  let y := match clearance with | some cl => y + collapsed + cl - mt0 | none => y
  let adjIn := match clearance with | some _ => [] | none => adjL
  let isStart := skip.isNone
  let b : BoxSt := { y := y, mt := mt0, mb := st.mb, pt := st.pt, pb := st.pb, bt := st.bt, bb := st.bb }
  let b := if !st.clone && !isStart then { b with mt := 0, pt := 0, bt := 0 } else b
  let dbd := st.clone
  let bs := if dbd then bs + (b.pb + b.bb + b.mb) else bs
  let adjL' := adjIn ++ [b.mt]
  let cwc := !(b.bt ≠ 0 || b.pt ≠ 0 || st.bfc || st.isRoot)
  if cwc then
    { b := b, bs := bs, adjL := adjL', cwc := true, cur := adjL', curIsL := true, posY := b.y, dbd := dbd,
      isStart := isStart, clearance := clearance, callerAdjL := adjL }
  else
    let b' := { b with y := b.y + collapseMargin adjL' - b.mt }
    { b := b', bs := bs, adjL := adjL', cwc := false, cur := [], curIsL := false,
      posY := b'.y + b'.mt + b'.bt + b'.pt, dbd := dbd, isStart := isStart, clearance := clearance,
      callerAdjL := adjL }

/-- What the caller of `block_level_layout` sees: with clearance, its own list object was not touched and
the returned list is never that object. -/
def Prep.seenByCaller (p : Prep) (r : LayoutResult) : LayoutResult :=
  match p.clearance with
  | none => r
  | some _ =>
    { r with adj := (match r.adj with | .alias => .fresh r.adjL | .fresh l => .fresh l), adjL := p.callerAdjL,
             clearance := p.clearance }

def abortResult (page : Option String) (adjL : List Rat) (w : World) : LayoutResult :=
  { frag := none, resume := none, nextPage := { brk := none, page := page }, adj := .fresh [],
    collapsingThrough := false, adjL := adjL, clearance := none, w := w }

def finishPara (c : Ctx) (st : OStyle) (p : Prep) (pageIsEmpty : Bool) (id idx n : Nat) (r : LineResult)
    (w : World) : LayoutResult :=
  let b := { p.b with mt := r.mt }
  let dbd := p.dbd || r.resume.isNone
  if r.abort then abortResult (some st.page) p.adjL w
  else
    let resume : Option Resume := if r.stop then forgetIfFixed st.toPStyle b r.posY r.resume else none
    finishContainer c st b pageIsEmpty p.bs p.cwc dbd resume r.posY p.adjL [] false
      { brk := none, page := none } (!r.lines.isEmpty) st.page [] [] w
      (fun g => .para 0 id idx st n g r.lines)

def pageEndOf (st : OStyle) (kids : List OFrag) : String :=
  let e := fragPageEndLast kids; if e = "" then st.page else e

def finishBlock (c : Ctx) (st : OStyle) (p : Prep) (pageIsEmpty : Bool) (id idx : Nat) (out : KidsOutcome)
    : LayoutResult :=
  match out with
  | .aborted page s =>
    -- `remove_placeholders(context, [*new_children, *box.children[skip:]], …)` (repair e3ac9f0)
    abortResult (some page) s.adjL (s.w.remove (fragSersList s.newChildren))
  | .stopped resume s =>
    let b := { p.b with y := s.boxY }
    finishContainer c st b pageIsEmpty p.bs p.cwc p.dbd (forgetIfFixed st.toPStyle b s.posY resume)
      s.posY s.adjL [] false s.nextPage (hasInFlow s.newChildren) (pageEndOf st s.newChildren)
      s.newChildren s.localBroken s.w
      (fun g => .block 0 id idx st g s.newChildren)
  | .finished s =>
    let b := { p.b with y := s.boxY }
    finishContainer c st b pageIsEmpty p.bs p.cwc p.dbd none s.posY s.adjL s.cur s.curIsL s.nextPage
      (hasInFlow s.newChildren) (pageEndOf st s.newChildren) s.newChildren s.localBroken s.w
      (fun g => .block 0 id idx st g s.newChildren)

/-- `_in_flow_layout`, part 1: the break between the last laid-out *in-flow* child and `child`. -/
def meetBreak (s : KidsLoop) (child : OBox) : Brk × Bool :=
  match lastInFlow s.newChildren with
  | none => (.auto, false)
  | some l =>
    let pb := breakBetween (some l) child
    let before := fragPageEnd l
    let after := boxPageStart child
    let named := before ≠ after && after ≠ ""
    (pb, named || forcesPage pb)

/-- `_in_flow_layout`, part 2 (only when no in-flow child is laid out yet and the box collapses with its
children): the out-of-flow siblings already placed are moved by the change of the collapsed margin that
`child`'s top margin causes; if `child` then needs clearance they are moved back, the box takes its
collapsed margin now, and the adjoining margins restart. `b` = the box's used values. -/
def preFlow (c : Ctx) (b : BoxSt) (cwc pageIsEmpty : Bool) (child : OBox) (s : KidsLoop) : KidsLoop :=
  if (lastInFlow s.newChildren).isSome || !cwc then s
  else
    let old := collapseMargin s.cur
    let cmt := if c.currentPage > 1 && pageIsEmpty && !c.forcedBreak then 0 else child.st.mt
    let new := collapseMargin (s.cur ++ [cmt])
    let diff := new - old
    -- the siblings (and the shapes that are the same objects) are translated first
    let wShifted := s.w.shift (fragSersList s.newChildren) diff
    match getClearance wShifted.shapes child.st.clear (s.posY + new) with
    | none => { s with newChildren := translateList diff s.newChildren, w := wShifted }
    | some _ =>
      let boxY := s.boxY + old - b.mt
      { s with boxY := boxY, cur := [], curIsL := false, posY := boxY + b.mt + b.bt + b.pt }

/-- `page_is_empty_with_no_children`: placeholders do not count. -/
def pienc (pageIsEmpty : Bool) (s : KidsLoop) : Bool :=
  pageIsEmpty && s.newChildren.all OFrag.isPh

inductive FirstPass where
  | keep (frag : Option OFrag) (posY : Rat)
  | redo (bs' : Rat)
  deriving Inhabited

def firstPass (c : Ctx) (bs : Rat) (pienc : Bool) (posY : Rat) (r : LayoutResult) : FirstPass :=
  match r.frag with
  | none => .keep none posY
  | some f =>
    if r.collapsingThrough then .keep (some f) posY
    else
      let g := f.geo
      let canBreak := !pienc
      if canBreak && c.overflowsPage bs (g.contentBoxY + g.h) then .keep none posY
      else if canBreak && c.overflowsPage bs (g.borderBoxY + g.borderHeight) then .redo (bs + (g.pb + g.bb))
      else .keep (some f) (g.borderBoxY + g.borderHeight)

/-- `remove_placeholders(context, [new_child], …)` when a laid-out child is thrown away. -/
def dropFrag (w : World) (laid kept : Option OFrag) : World :=
  match laid, kept with
  | some f, none => w.remove (fragSers f)
  | _, _ => w

def KidsLoop.adoptAdj (s : KidsLoop) (hadFrag : Bool) (adj : AdjOut) (frag : Option OFrag) : KidsLoop :=
  if !hadFrag then s
  else
    let s := match adj with
      | .alias => s
      | .fresh l => s.setCur l false
    match frag with
    | some f => s.appendCur f.geo.mb
    | none => s

/-- `if new_child and new_child.clearance: position_y = border_box_y + border_height` -/
def clearancePosY (clearance : Option Rat) (frag : Option OFrag) (posY : Rat) : Rat :=
  match frag, clearance with
  | some f, some cl => if cl ≠ 0 then f.geo.borderBoxY + f.geo.borderHeight else posY
  | _, _ => posY

/-- The end of `_in_flow_layout`. New: "this box has only rendered absolute children, keep them for the
next page" (`remove_placeholders` + `new_children = []`), and the removal of what an earlier break
drops. -/
def concludeKid (index : Nat) (pageIsEmpty : Bool) (pb : Brk) (child : OBox) (s : KidsLoop)
    (frag : Option OFrag) (resume : Option Resume) : Option KidsOutcome × KidsLoop :=
  match frag with
  | none =>
    let earlier := if avoidsPage pb then findEarlierList s.newChildren else none
    match earlier with
    | some (kept, r') =>
      (some (.stopped (some r') { s with newChildren := kept, w := s.w.removeDropped s.newChildren kept }), s)
    | none =>
      if avoidsPage pb && !pageIsEmpty then (some (.aborted (boxPageStart child) s), s)
      else
        let s := if s.newChildren.all OFrag.isAbs
          then { s with newChildren := [], w := s.w.remove (fragSersList s.newChildren) } else s
        if !s.newChildren.isEmpty then (some (.stopped (some (.node index none)) s), s)
        else (some (.aborted (boxPageStart child) s), s)
  | some f =>
    let s := { s with newChildren := s.newChildren ++ [f.withIdx index] }
    match resume with
    | some r' => (some (.stopped (some (.node index (some r'))) s), s)
    | none => (none, s)

/-- `_out_of_flow_layout` for an absolutely positioned child: a placeholder at the static position. -/
def placeAbs (index : Nat) (child : OBox) (hc : child.inFlow = false) (s : KidsLoop) : KidsLoop :=
  let y := s.posY + collapseMargin s.cur
  let ser := s.w.next
  { s with newChildren := s.newChildren ++ [.ph ser child.id index y],
           w := { s.w with next := ser + 1, absL := s.w.absL ++ [{ ser := ser, box := child, idx := index, y := y, oof := hc }] } }

/-- `float_layout`, start: static position plus clearance. -/
def floatY (shapes : List Shape) (clear : Bool) (y0 : Rat) : Rat :=
  match getClearance shapes clear y0 with
  | some cl => y0 + cl
  | none => y0

/-- `find_float_position`: not above the last float; then `avoid_collisions` (since repair 1bc67ce a float
whose border box is 0 high is placed like any other: it went to y = 0 before 50ab141, stayed at its static
position over the other floats before 1bc67ce). -/
def placeFloat (shapes : List Shape) (f : OFrag) : OFrag :=
  let f := match shapes.getLast? with
    | some l => if f.geo.y < l.y then f.translate (l.y - f.geo.y) else f
    | none => f
  let g := f.geo
  let y2 : Rat := avoidY shapes g.marginHeight (shapes.length + 1) g.y
  f.translate (y2 - g.y)

/-- `float_layout`, end (`find_float_position`, `context.excluded_shapes.append(box)`): the placed
float with its serial, and the world (`shapes0` = the shapes of the enclosing formatting context). -/
def floatDone (shapes0 : List Shape) (r : LayoutResult) : Option (OFrag × Nat) × World :=
  match r.frag with
  | none => (none, { r.w with shapes := shapes0, crash := true })
  | some f0 =>
    let ser := r.w.next
    let f := (placeFloat shapes0 f0).withSer ser
    -- `box.translate(…)` moves the descendants: the placeholders of absolutely positioned boxes inside the float
    -- are the objects of `absolute_boxes`
    let w := r.w.shift (fragSers f0) (f.geo.y - f0.geo.y)
    (some (f, ser), { w with next := ser + 1,
                             shapes := shapes0 ++ [{ ser := ser, y := f.geo.y, mh := f.geo.marginHeight }] })

/-- `_out_of_flow_layout` for a floated child, after `float_layout` returned `r`. -/
def floatStep (c : Ctx) (index : Nat) (pageIsEmpty : Bool) (bs : Rat) (child : OBox) (hc : child.inFlow = false)
    (s : KidsLoop) (r : LayoutResult) : Option KidsOutcome × KidsLoop :=
  match floatDone s.w.shapes r with
  | (none, w) => (some (.aborted "" { s with w := w }), s)
  | (some (f, ser), w) =>
    let pageOverflow := c.overflowsPage bs (f.geo.y + f.geo.h)
    let add := (pageIsEmpty && s.newChildren.isEmpty) || !pageOverflow
    if add then
      let broken : List Broken := match r.resume with
        | some ρ => [{ ser := ser, box := child, idx := 0, resume := ρ, oof := hc }]
        | none => []
      (none, { s with newChildren := s.newChildren ++ [f.withIdx index], w := w,
                      localBroken := s.localBroken ++ broken })
    else
      -- `remove_placeholders(context, [new_child], …)` (repair 0d665d0): the float is laid out again on the next
      -- page, the placeholders and cut floats nested in this discarded layout are forgotten
      let w := w.remove (fragSers f)
      let pb := breakBetween (lastInFlow s.newChildren) child
      let earlier := if !s.newChildren.isEmpty && avoidsPage pb then findEarlierList s.newChildren else none
      match earlier with
      | some (kept, r') =>
        (some (.stopped (some r') { s with newChildren := kept, w := w.removeDropped s.newChildren kept }), s)
      | none => (some (.stopped (some (.node index none)) { s with w := w }), s)

mutual

/-- `block_level_layout` (+ `block_box_layout`, `block_container_layout`). Also used, with the shapes
emptied (new formatting context), `cbIsRoot = false`, `pageIsEmpty = true`, `adjL = []`, for the layout
of a float (`float_layout`) or of an absolutely positioned box (`absolute_block`): the prelude of
`block_level_layout` is then without effect. -/
def layoutBox (c : Ctx) (box : OBox) (idx : Nat) (y : Rat) (bs : Rat) (skip : Option Resume) (cbIsRoot : Bool)
    (pageIsEmpty : Bool) (adjL : List Rat) (w : World) : LayoutResult :=
  match box with
  | .para id n lineH st =>
    let p := prepare c st y bs skip cbIsRoot pageIsEmpty adjL w.shapes
    let lineSkip : Option Resume := subSkipOf skip
    p.seenByCaller (finishPara c st p pageIsEmpty id idx n
      (lineboxLayout c st.toPStyle p.b n lineH pageIsEmpty p.cur p.bs p.posY lineSkip p.dbd w.shapes) w)
  | .block id st kids =>
    let p := prepare c st y bs skip cbIsRoot pageIsEmpty adjL w.shapes
    let skipIdx := skipIdxOf skip
    let subSkip : Option Resume := subSkipOf skip
    p.seenByCaller (finishBlock c st p pageIsEmpty id idx
      (layoutKids c st p.b p.cwc kids 0 skipIdx p.bs pageIsEmpty
        { newChildren := [], posY := p.posY, boxY := p.b.y, adjL := p.adjL, cur := p.cur, curIsL := p.curIsL,
          nextPage := { brk := none, page := none }, skip := subSkip, localBroken := [], w := w }))

/-- The `for index, child in enumerate(box.children[skip:], start=skip)` loop. -/
def layoutKids (c : Ctx) (st : OStyle) (b : BoxSt) (cwc : Bool) : List OBox → (index : Nat) → (skipIdx : Nat) →
    (bs : Rat) → (pageIsEmpty : Bool) → KidsLoop → KidsOutcome
  | [], _, _, _, _, s => .finished s
  | child :: rest, index, skipIdx, bs, pageIsEmpty, s =>
    if index < skipIdx then layoutKids c st b cwc rest (index + 1) skipIdx bs pageIsEmpty s
    else
      match hpos : child.st.pos with
      | .abs =>
        layoutKids c st b cwc rest (index + 1) skipIdx bs pageIsEmpty
          (placeAbs index child (by simp [OBox.inFlow, hpos]) s)
      | .float =>
        let r := layoutBox c child index (floatY s.w.shapes child.st.clear (s.posY + collapseMargin s.cur)) bs none
          false true [] { s.w with shapes := [] }
        match floatStep c index pageIsEmpty bs child (by simp [OBox.inFlow, hpos]) s r with
        | (some out, _) => out
        | (none, s') => layoutKids c st b cwc rest (index + 1) skipIdx bs pageIsEmpty s'
      | .static =>
        let mb := meetBreak s child
        if mb.2 then
          .stopped (some (.node index none))
            { s with nextPage := { brk := some mb.1, page := some (boxPageStart child) } }
        else
          let s0 := preFlow c { b with y := s.boxY } cwc pageIsEmpty child s
          let pe := pienc pageIsEmpty s0
          let r := layoutBox c child index s.posY bs s0.skip st.isRoot pe s0.cur s0.w
          let s1 := { s0.setCur r.adjL s0.curIsL with w := r.w }
          match firstPass c bs pe s0.posY r with
          | .keep frag posY =>
            let s2 := { s1.adoptAdj r.frag.isSome r.adj frag with
                        posY := clearancePosY r.clearance frag posY, nextPage := r.nextPage, skip := none,
                        w := dropFrag r.w r.frag frag }
            match concludeKid index pageIsEmpty mb.1 child s2 frag r.resume with
            | (some out, _) => out
            | (none, s3) => layoutKids c st b cwc rest (index + 1) skipIdx bs pageIsEmpty s3
          | .redo bs' =>
            let w1 := dropFrag r.w r.frag none
            let r2 := layoutBox c child index s.posY bs' s0.skip st.isRoot pe s1.cur w1
            let s1' := { s1.setCur r2.adjL s1.curIsL with w := r2.w }
            let posY := match r2.frag with
              | some f2 => f2.geo.borderBoxY + f2.geo.borderHeight
              | none => s0.posY
            let s2 := { s1'.adoptAdj true r2.adj r2.frag with
                        posY := clearancePosY r2.clearance r2.frag posY, nextPage := r2.nextPage, skip := none }
            match concludeKid index pageIsEmpty mb.1 child s2 r2.frag r2.resume with
            | (some out, _) => out
            | (none, s3) => layoutKids c st b cwc rest (index + 1) skipIdx bs pageIsEmpty s3

end

/-! ### pages -/

structure Page where
  type : PageType
  root : OFrag
  resume : Option Resume
  nextPage : NextPage
  broken : List Broken         -- `context.broken_out_of_flow` when the page is finished
  rootTop : Rat                -- `root_box.content_box_y()` as the next `make_page` will read it
  crash : Bool
  deriving Inhabited

structure Doc where
  pageH : Rat
  rootLtr : Bool
  root : OBox
  deriving Inhabited

def firstRight (d : Doc) : Bool :=
  match d.root.st.brkBefore with
  | .right => true
  | .left => false
  | .recto => d.rootLtr
  | .verso => !d.rootLtr
  | _ => d.rootLtr

def emptyRoot : OBox → OBox
  | .para id _ lineH st => .para id 0 lineH st
  | .block id st _ => .block id st []

mutual
/-- `placeholder.set_laid_out_box(new_box)` seen from the tree. -/
def substAbs (res : List (Nat × OFrag)) : OFrag → OFrag
  | .para ser id idx st n g lines => .para ser id idx st n g lines
  | .block ser id idx st g kids => .block ser id idx st g (substAbsList res kids)
  | .ph ser id idx y => match res.lookup ser with
    | some f => f
    | none => .ph ser id idx y
def substAbsList (res : List (Nat × OFrag)) : List OFrag → List OFrag
  | [] => []
  | f :: fs => substAbs res f :: substAbsList res fs
end

mutual
def boxDepth : OBox → Nat
  | .para _ _ _ _ => 1
  | .block _ _ kids => 1 + kidsDepth kids
def kidsDepth : List OBox → Nat
  | [] => 0
  | k :: ks => max (boxDepth k) (kidsDepth ks)
end

/-- `absolute_box_layout` / `absolute_block` (vertical part, `top = bottom = auto`): the box is laid out in a
formatting context of its own with a *fresh* `absolute_boxes` list ("this box is the containing block for
absolute descendants"), `bottom_space = 0`; then every placeholder collected in that list (absolutely positioned
boxes nested in it, also those inside floats nested in it) is laid out in turn by `absolute_layout` — recursively,
`fuel` = nesting depth —, replaces its placeholder in the fragment tree (`set_laid_out_box`) and is registered in
`context.broken_out_of_flow` if it is cut: before its containing box is (which the caller registers). The
caller's `absolute_boxes` and `excluded_shapes` are untouched. -/
def layoutAbs (c : Ctx) : (fuel : Nat) → OBox → (idx : Nat) → (y : Rat) → Option Resume → World → LayoutResult
  | 0, box, idx, y, skip, w =>
    let r := layoutBox c box idx y 0 skip false true [] { w with shapes := [], absL := [] }
    { r with w := { r.w with shapes := w.shapes, absL := w.absL } }
  | fuel + 1, box, idx, y, skip, w =>
    let r := layoutBox c box idx y 0 skip false true [] { w with shapes := [], absL := [] }
    let wa := r.w.absL.foldl (fun (acc : World × List (Nat × OFrag)) (e : AbsEntry) =>
        let rn := layoutAbs c fuel e.box e.idx e.y none acc.1
        match rn.frag with
        | none => ({ rn.w with crash := true }, acc.2)
        | some f =>
          let broken : List Broken := match rn.resume with
            | some ρ => [{ ser := e.ser, box := e.box, idx := e.idx, resume := ρ, oof := e.oof }]
            | none => []
          ({ rn.w with broken := rn.w.broken ++ broken }, acc.2 ++ [(e.ser, f)]))
      ({ r.w with absL := [] }, [])
    { r with frag := r.frag.map (substAbs wa.2), w := { wa.1 with shapes := w.shapes, absL := w.absL } }

/-- One iteration of the `for box, containing_block, skip_stack in context_out_of_flow` loop of
`make_page`: the continuation of a float / absolutely positioned box cut on the previous page, laid out at
`rootTop` in a formatting context of its own; a float is then placed among the page's shapes. -/
def contStep (c : Ctx) (rootTop : Rat) (acc : World × List OFrag) (e : Broken) : World × List OFrag :=
  let w := acc.1
  if e.box.st.pos = .float then
    let r := layoutBox c e.box 0 (floatY w.shapes e.box.st.clear rootTop) 0 (some e.resume) false true []
      { w with shapes := [] }
    match floatDone w.shapes r with
    | (none, w') => (w', acc.2)
    | (some (f, ser), w') =>
      let broken : List Broken := match r.resume with
        | some ρ => [{ ser := ser, box := e.box, idx := 0, resume := ρ, oof := e.oof }]
        | none => []
      ({ w' with broken := w'.broken ++ broken }, acc.2 ++ [f])
  else
    let r := layoutAbs c (boxDepth e.box) e.box e.idx rootTop (some e.resume) w
    let w' := r.w
    match r.frag with
    | none => ({ w' with crash := true }, acc.2)
    | some f =>
      let ser := w'.next
      let broken : List Broken := match r.resume with
        | some ρ => [{ ser := ser, box := e.box, idx := e.idx, resume := ρ, oof := e.oof }]
        | none => []
      ({ w' with next := ser + 1, broken := w'.broken ++ broken }, acc.2 ++ [f])

/-- `absolute_layout` of one placeholder of the page (containing block = the page, `bottom_space = 0`,
`skip_stack = None`): the laid-out box by serial, and the `broken_out_of_flow` item if it is cut. -/
def absStep (c : Ctx) (acc : World × List (Nat × OFrag)) (e : AbsEntry) : World × List (Nat × OFrag) :=
  let w := acc.1
  let r := layoutAbs c (boxDepth e.box) e.box e.idx e.y none w
  let w' := r.w
  match r.frag with
  | none => ({ w' with crash := true }, acc.2)
  | some f =>
    let broken : List Broken := match r.resume with
      | some ρ => [{ ser := e.ser, box := e.box, idx := e.idx, resume := ρ, oof := e.oof }]
      | none => []
    ({ w' with broken := w'.broken ++ broken }, acc.2 ++ [(e.ser, f)])


/-- `context.finish_block_formatting_context(root_box)` (auto height: down to the lowest float) and
`root_box.children = out_of_flow_boxes + root_box.children`. -/
def finishRoot (height : Len) (shapes : List Shape) (conts : List OFrag) : OFrag → OFrag
  | .block ser id idx st g kids =>
    let g := if height = none && !shapes.isEmpty then
        let bottom := g.contentBoxY + g.h
        { g with h := g.h + (maxRat (shapes.map fun s => s.y + s.mh) bottom - bottom) }
      else g
    .block ser id idx st g (conts ++ kids)
  | f => f

/-- `remake_page` + `make_page` for page `index` (0-based); `brokenIn` = `context.broken_out_of_flow` left
by the previous page, `rootTop` = the stale `root_box.content_box_y()`. -/
def remakePage (d : Doc) (index : Nat) (resume : Option Resume) (nextPage : NextPage) (rightPage : Bool)
    (brokenIn : List Broken) (rootTop : Rat) : Option Page :=
  let blank := isBlank (requestedSide d.rootLtr nextPage.brk) rightPage
  let name := if blank then "" else (match nextPage.page with | some p => p | none => "")
  let c : Ctx := { pageBottom := d.pageH, currentPage := index + 1, forcedBreak := forcedBreakOf nextPage }
  let root := if blank then emptyRoot d.root else d.root
  let wc := brokenIn.foldl (contStep c rootTop) (World.empty, [])
  let r := layoutBox c root 0 0 0 resume false true [] wc.1
  match r.frag with
  | none => none      -- `assert root_box`
  | some f =>
    let wa := r.w.absL.foldl (absStep c) ({ r.w with absL := [] }, [])
    -- (the placeholders inside the continuation of a float are laid out with the page's as well)
    let f' := finishRoot d.root.st.height r.w.shapes (substAbsList wa.2 wc.2) (substAbs wa.2 f)
    some { type := { right := rightPage, blank := blank, name := name, index := index },
           root := f', resume := if blank then resume else r.resume,
           nextPage := if blank then nextPage else r.nextPage,
           broken := wa.1.broken,
           rootTop := if blank then rootTop else f.geo.mt + f.geo.bt + f.geo.pt,
           crash := wa.1.crash }

/-- `make_all_pages` with fuel. The `broken_out_of_flow` of the last page is cleared, not continued. -/
def makeAllPages (d : Doc) : (fuel : Nat) → (index : Nat) → Option Resume → NextPage → Bool →
    List Broken → Rat → Option (List Page)
  | 0, _, _, _, _, _, _ => none
  | fuel + 1, index, resume, nextPage, rightPage, brokenIn, rootTop =>
    match remakePage d index resume nextPage rightPage brokenIn rootTop with
    | none => none
    | some p =>
      match p.resume with
      | none => some [p]
      | some _ =>
        match makeAllPages d fuel (index + 1) p.resume p.nextPage (!rightPage) p.broken p.rootTop with
        | some ps => some (p :: ps)
        | none => none

def paginate (d : Doc) (fuel : Nat) : Option (List Page) :=
  makeAllPages d fuel 0 none { brk := none, page := some (boxPageStart d.root) } (firstRight d) [] 0

end Wp.PMO
