/-
The footnote methods of `LayoutContext` as operations on the footnote state of the pagination model (PM stage 2b):
sequences of `layout_footnote` / `report_footnote` / `unlayout_footnote` calls in any order, the way
`py/harness/pm_foot_ops.py` makes them on a real layout context (function-level correspondence: the document-level
sections only reach the orders of calls that `_linebox_layout`, `remove_placeholders` and `make_page` produce).
The operations are the functions of `Model/PaginateFoot.lean` themselves (`layoutFootnote`, `reportFootnote`,
`unlayFootnote`, all through `updateArea` = `_update_footnote_area`), not copies.
-/
import WpModel.Model.PaginateFoot

namespace Wp.PMF
open Wp Wp.PM

/-- One call of a footnote method of `LayoutContext`. -/
inductive FOp where
  | lay (f : Fn)        -- `layout_footnote(f)`      (requires `f in context.footnotes`)
  | report (f : Fn)     -- `report_footnote(f)`      (requires `f in context.current_page_footnotes`)
  | unlay (f : Fn)      -- `unlayout_footnote(f)`
  deriving Repr, Inhabited

def FOp.fn : FOp → Fn
  | .lay f => f
  | .report f => f
  | .unlay f => f

/-- The Python preconditions (`list.remove` raises ValueError otherwise). -/
def FOp.ok (fs : FState) : FOp → Bool
  | .lay f => decide (f ∈ fs.pending)
  | .report f => decide (f ∈ fs.cur)
  | .unlay _ => true

/-- State after the call, and the value `layout_footnote` returns (`overflow`; false for the others). -/
def applyOp (c : FCtx) (fs : FState) : FOp → FState × Bool
  | .lay f => layoutFootnote c fs f
  | .report f => (reportFootnote c fs f, false)
  | .unlay f => (unlayFootnote c fs f, false)

/-- A sequence of calls from a state; stops at the first call whose precondition fails. Returns the state after
each call performed, with the value returned. -/
def applyOps (c : FCtx) : FState → List FOp → List (FState × Bool)
  | _, [] => []
  | fs, op :: rest =>
    if op.ok fs then
      let r := applyOp c fs op
      r :: applyOps c r.1 rest
    else []

/-- The state in which `make_page` starts a page: fresh area (height 'auto'), `page_bottom` = page box bottom. -/
def pageStartState (c : FCtx) (pending : List Fn) : FState :=
  { pending := pending, cur := [], reported := [], pageBottom := c.pageH, areaH := none }

end Wp.PMF
