/-
C19 — state that one `write_pdf` leaves behind on objects a later `write_pdf` (of the same `Document`, of a copy of
it, or of another render sharing the image cache) sees again.  Hand-written mirror of two places:

A. `pdf/anchors.py::add_links` stores the annotation of every *kept* link on its box (`box.link_annotation = …`); the
   class default is `None` (`boxes.InlineBox.link_annotation`).  `draw_inline_level` then wraps the box in a `Link`
   marked-content sequence `if link_annotation:` and `pdfua` emits an `OBJR` to `box.link_annotation.reference`.
   Since 974ea74 `generate_pdf` first forgets the annotations of an earlier generation
   (`for page in document.pages: for *_, box in page.links: box.link_annotation = None`, right after `resolve_links`):
   a link that `resolve_links` drops (its anchor is not in the page list) no longer keeps what an earlier write stored.
B. `images.py::RasterImage.get_x_object(interpolate, dpi_ratio)`: with `dpi_ratio == 1` the stored `image_data` is
   embedded under the original `width × height`; otherwise a thumbnail of `image_data` is computed **and assigned to
   `self.image_data`** (`cache_image_data(…)`, slot `source`: the cache entry is overwritten too).
No Mathlib.
-/
import WpModel.Model.CopyPages

namespace Wp.WriteState
open Wp Wp.CopyPages

/-! ### A. link annotations -/

/-- A link of a page together with the identity of its box. -/
structure BoxLink where
  box : Nat
  kind : LinkKind
  target : String
  deriving Repr, DecidableEq, Inhabited

/-- `box.link_annotation` of every box that has one: box ↦ number of the PDF the annotation object belongs to. -/
abbrev Annots := List (Nat × Nat)

def annotOf (st : Annots) (box : Nat) : Option Nat :=
  match st with
  | [] => none
  | (b, pdf) :: rest => if b = box then some pdf else annotOf rest box

def setAnnot (st : Annots) (box pdf : Nat) : Annots :=
  match st with
  | [] => [(box, pdf)]
  | (b, p) :: rest => if b = box then (box, pdf) :: rest else (b, p) :: setAnnot rest box pdf

/-- `resolve_links` on the links of the page list: internal links need their anchor in `names`. -/
def kept (names : List String) (l : BoxLink) : Bool :=
  if l.kind = .internal then decide (l.target ∈ names) else true

/-- `box.link_annotation = None` (the class default again; modelled as "no entry"). -/
def clearAnnot (st : Annots) (box : Nat) : Annots := st.filter (fun e => e.1 ≠ box)

/-- `for page in document.pages: for *_, box in page.links: box.link_annotation = None` — every link of the page list
being written, whatever its kind, kept or dropped. -/
def resetLinks : Annots → List BoxLink → Annots
  | st, [] => st
  | st, l :: rest => resetLinks (clearAnnot st l.box) rest

/-- `add_links` over all pages of one `generate_pdf` (number `pdf`): only kept internal / external links get a new
annotation. -/
def addLinks (pdf : Nat) (names : List String) : Annots → List BoxLink → Annots
  | st, [] => st
  | st, l :: rest =>
    if kept names l && decide (l.kind ≠ .attachment) then addLinks pdf names (setAnnot st l.box pdf) rest
    else addLinks pdf names st rest

/-- The boxes `draw_inline_level` tags as `Link` while painting the pages (`if link_annotation:`), with the PDF their
annotation belongs to. -/
def tagged (st : Annots) (links : List BoxLink) : List (Nat × Nat) :=
  links.filterMap (fun l => (annotOf st l.box).map (fun pdf => (l.box, pdf)))

/-- One `write_pdf` of a page list whose links are `links` and whose anchors are `names`: reset, `add_links`, paint. -/
def write (pdf : Nat) (names : List String) (links : List BoxLink) (st : Annots) : List (Nat × Nat) × Annots :=
  let st' := addLinks pdf names (resetLinks st links) links
  (tagged st' links, st')

/-- A history of `write_pdf` calls (numbered from `pdf`) over boxes that persist — the same `Document` written again,
copies sharing its pages: per write `(anchor names of its page list, links of its page list)`; the result is what each
write tags. -/
def runWrites : Nat → Annots → List (List String × List BoxLink) → List (List (Nat × Nat))
  | _, _, [] => []
  | pdf, st, w :: rest => (write pdf w.1 w.2 st).1 :: runWrites (pdf + 1) (write pdf w.1 w.2 st).2 rest

/-! ### B. raster image data -/

/-- What `RasterImage.image_data` holds: the data produced at construction, or the result of `generation`
successive thumbnail re-encodings, the last one at `width × height`. -/
structure ImageData where
  generation : Nat
  width : Nat
  height : Nat
  deriving Repr, DecidableEq, Inhabited

structure Raster where
  /-- `self.width`, `self.height`: never changed after construction -/
  width : Nat
  height : Nat
  data : ImageData
  deriving Repr, DecidableEq, Inhabited

def fresh (w h : Nat) : Raster := ⟨w, h, ⟨0, w, h⟩⟩

/-- What one `get_x_object` call embeds: the declared `/Width`, `/Height` and the data. -/
structure XObject where
  width : Nat
  height : Nat
  data : ImageData
  deriving Repr, DecidableEq, Inhabited

/-- `get_x_object(interpolate, dpi_ratio)`; `target` = `(max(1, round(width * ratio)), max(1, round(height * ratio)))`
when `dpi_ratio ≠ 1` (`none` = ratio 1).  `Image.thumbnail` never enlarges: the thumbnail of data that is already
smaller keeps its size, but is encoded again. -/
def getXObject (r : Raster) (target : Option (Nat × Nat)) : XObject × Raster :=
  match target with
  | none => (⟨r.width, r.height, r.data⟩, r)
  | some (w, h) =>
    let tw := if r.data.width ≤ w ∧ r.data.height ≤ h then r.data.width else min w r.data.width
    let th := if r.data.width ≤ w ∧ r.data.height ≤ h then r.data.height else min h r.data.height
    let d : ImageData := ⟨r.data.generation + 1, tw, th⟩
    (⟨tw, th, d⟩, { r with data := d })

/-- A sequence of writes using the image at the given thumbnail targets. -/
def getXObjects : Raster → List (Option (Nat × Nat)) → List XObject
  | _, [] => []
  | r, t :: rest => (getXObject r t).1 :: getXObjects (getXObject r t).2 rest

end Wp.WriteState
