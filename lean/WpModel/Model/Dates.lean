/-
Mirror of `weasyprint/pdf/__init__.py::_w3c_date_to_pdf` on the groups of `html.W3C_DATE_RE`, and a
deterministic matcher for that regular expression (the pattern text is regenerated from html.py in
`Gen/W3cDate.lean`; `Props/C18.lean` proves it is the pattern transcribed here).

Strings are `List Char` (the driver converts at the boundary).  `\d` is modelled as the ASCII digits
(Python's `\d` on `str` also accepts other Unicode decimal digits: outside the six W3C formats).
No Mathlib: linked into the driver.
-/
import WpModel.Model.Wire
import WpModel.Gen.W3cDate

namespace Wp.Dates
open Wp

abbrev Str := List Char

/-- `match.groupdict()`: `None` is `none`. -/
structure Groups where
  year : Option Str := none
  month : Option Str := none
  day : Option Str := none
  hour : Option Str := none
  minute : Option Str := none
  second : Option Str := none
  tzHour : Option Str := none
  tzMinute : Option Str := none
  deriving Repr, BEq, DecidableEq

/-! ## The regular expression -/

/-- The pattern of `W3C_DATE_RE` with the `re.VERBOSE` white space and comments removed: what `matchW3C`
below transcribes. -/
def modelledPattern : String :=
  "^[ \\t\\n\\f\\r]*(?P<year>\\d\\d\\d\\d)(?:-(?P<month>0\\d|1[012])(?:-(?P<day>[012]\\d|3[01])(?:T(?P<hour>[01]\\d|2[0-3]):(?P<minute>[0-5]\\d)(?::(?P<second>[0-5]\\d)(?:\\.\\d+)?)?(?:Z|(?P<tz_hour>[+-](?:[01]\\d|2[0-3])):(?P<tz_minute>[0-5]\\d)))?)?)?[ \\t\\n\\f\\r]*$"

/-- `[ \t\n\f\r]`. -/
def isWs (c : Char) : Bool := c == ' ' || c == '\t' || c == '\n' || c == '\x0c' || c == '\r'

/-- `\d` (ASCII). -/
def isDig (c : Char) : Bool := '0' ≤ c && c ≤ '9'

def skipWs : Str → Str
  | [] => []
  | c :: rest => if isWs c then skipWs rest else c :: rest

def allWs : Str → Bool
  | [] => true
  | c :: rest => isWs c && allWs rest

/-- `0\d|1[012]`. -/
def isMonth (a b : Char) : Bool := (a == '0' && isDig b) || (a == '1' && (b == '0' || b == '1' || b == '2'))
/-- `[012]\d|3[01]`. -/
def isDay (a b : Char) : Bool :=
  ((a == '0' || a == '1' || a == '2') && isDig b) || (a == '3' && (b == '0' || b == '1'))
/-- `[01]\d|2[0-3]`. -/
def isHour (a b : Char) : Bool :=
  ((a == '0' || a == '1') && isDig b) || (a == '2' && '0' ≤ b && b ≤ '3')
/-- `[0-5]\d`. -/
def isSixty (a b : Char) : Bool := '0' ≤ a && a ≤ '5' && isDig b

def dropDigits : Str → Str
  | [] => []
  | c :: rest => if isDig c then dropDigits rest else c :: rest

/-- `(?:Z | (?P<tz_hour>[+-](?:[01]\d|2[0-3])):(?P<tz_minute>[0-5]\d))` then `[ \t\n\f\r]*$`. -/
def matchTz (g : Groups) : Str → Option Groups
  | 'Z' :: rest => if allWs rest then some g else none
  | s :: a :: b :: ':' :: c :: d :: rest =>
    if (s == '+' || s == '-') && isHour a b && isSixty c d && allWs rest then
      some { g with tzHour := some [s, a, b], tzMinute := some [c, d] }
    else none
  | _ => none

/-- `(?: :(?P<second>[0-5]\d) (?:\.\d+)? )?` then the time zone. -/
def matchSecond (g : Groups) : Str → Option Groups
  | ':' :: a :: b :: rest =>
    if isSixty a b then
      let g := { g with second := some [a, b] }
      match rest with
      | '.' :: c :: rest' => if isDig c then matchTz g (dropDigits rest') else none
      | _ => matchTz g rest
    else none
  | s => matchTz g s

/-- `(?: T(?P<hour>…):(?P<minute>…) … )?`. -/
def matchTime (g : Groups) : Str → Option Groups
  | 'T' :: a :: b :: ':' :: c :: d :: rest =>
    if isHour a b && isSixty c d then matchSecond { g with hour := some [a, b], minute := some [c, d] } rest
    else none
  | s => if allWs s then some g else none

/-- `(?: -(?P<day>…) … )?`. -/
def matchDay (g : Groups) : Str → Option Groups
  | '-' :: a :: b :: rest => if isDay a b then matchTime { g with day := some [a, b] } rest else none
  | s => if allWs s then some g else none

/-- `(?: -(?P<month>…) … )?`. -/
def matchMonth (g : Groups) : Str → Option Groups
  | '-' :: a :: b :: rest => if isMonth a b then matchDay { g with month := some [a, b] } rest else none
  | s => if allWs s then some g else none

/-- `W3C_DATE_RE.match(string)` → `groupdict()`. -/
def matchW3C (s : Str) : Option Groups :=
  match skipWs s with
  | a :: b :: c :: d :: rest =>
    if isDig a && isDig b && isDig c && isDig d then matchMonth { year := some [a, b, c, d] } rest else none
  | _ => none

/-! ## `_w3c_date_to_pdf` -/

def Groups.get (g : Groups) (key : String) : Option Str :=
  if key == "year" then g.year else if key == "month" then g.month else if key == "day" then g.day
  else if key == "hour" then g.hour else if key == "minute" then g.minute
  else if key == "second" then g.second else if key == "tz_hour" then g.tzHour
  else if key == "tz_minute" then g.tzMinute else none

/-- Truthiness of a group: `None` and `''` are falsy. -/
def truthy : Option Str → Bool
  | some (_ :: _) => true
  | _ => false

def digitChar (n : Nat) : Char := Char.ofNat (48 + n)

/-- `f'{n:02d}'` for a natural number. -/
def pad2 (n : Nat) : Str :=
  let s := Nat.toDigits 10 n
  if s.length < 2 then '0' :: s else s

def digitsVal : Str → Nat → Option Nat
  | [], acc => some acc
  | c :: rest, acc => if isDig c then digitsVal rest (acc * 10 + (c.toNat - 48)) else none

/-- `f'{i:02d}'` for an int. -/
def fmt02d (i : Int) : Str :=
  if i < 0 then '-' :: Nat.toDigits 10 i.natAbs else pad2 i.toNat

/-- `int(s)` on `[+-]?[0-9]+`; anything else raises ValueError. -/
def pyInt : Str → Except PyErr Int
  | '+' :: (c :: rest) => match digitsVal (c :: rest) 0 with
    | some n => .ok n
    | none => .error (.valueError "int")
  | '-' :: (c :: rest) => match digitsVal (c :: rest) 0 with
    | some n => .ok (-(n : Int))
    | none => .error (.valueError "int")
  | c :: rest => match digitsVal (c :: rest) 0 with
    | some n => .ok n
    | none => .error (.valueError "int")
  | [] => .error (.valueError "int")

/-- `for key in (…): if groups[key]: found = True; pdf_date = groups[key] + pdf_date
elif found: pdf_date = f'{(key in ("day", "month")):02d}{pdf_date}'`. -/
def dateLoop (g : Groups) : List String → Bool → Str → Str
  | [], _, acc => acc
  | key :: rest, found, acc =>
    match g.get key with
    | some (c :: cs) => dateLoop g rest true ((c :: cs) ++ acc)
    | _ =>
    if found then dateLoop g rest found (pad2 (if Gen.dateOneKeys.contains key then 1 else 0) ++ acc)
    else dateLoop g rest found acc

/-- The time-zone suffix (`if groups['hour']: …`). -/
def tzSuffix (g : Groups) : Except PyErr Str :=
  if truthy g.hour then
    if !truthy g.minute then .error (.assertFailed "minute")
    else if truthy g.tzHour then
      match g.tzHour with
      | some (sign :: rest) =>
        if !(sign == '+' || sign == '-') then .error (.assertFailed "tz_sign")
        else if !truthy g.tzMinute then .error (.assertFailed "tz_minute")
        else
          match g.tzMinute with
          | some tzm =>
            match pyInt (sign :: rest), pyInt tzm with
            | .ok h, .ok m => .ok (sign :: fmt02d (h.natAbs : Int) ++ '\'' :: fmt02d m)
            | .error e, _ => .error e
            | _, .error e => .error e
          | none => .error (.assertFailed "tz_minute")
      | _ => .ok []
    else .ok ['Z']
  else .ok []

/-- `_w3c_date_to_pdf` after a successful match. -/
def groupsToPdf (g : Groups) : Except PyErr Str :=
  let body := dateLoop g Gen.dateKeys (truthy g.hour) []
  match tzSuffix g with
  | .error e => .error e
  | .ok tz => .ok ('D' :: ':' :: (body ++ tz))

/-- `_w3c_date_to_pdf(string, attr_name)` for a string argument: `none` = returns `None`. -/
def w3cDateToPdf (s : Str) : Except PyErr (Option Str) :=
  match matchW3C s with
  | none => .ok none
  | some g => match groupsToPdf g with
    | .error e => .error e
    | .ok r => .ok (some r)

end Wp.Dates
