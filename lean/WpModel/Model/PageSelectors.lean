/-
Page selectors: mirror of weasyprint/css/__init__.py
  `parse_page_selectors` (on the tinycss2 token list of an `@page` prelude; `tinycss2.nth.parse_nth`
  is third-party and enters as an oracle table), `StyleFor._page_type_match`,
  `declaration_precedence`, and the weight fold of `StyleFor.add_page_declarations`.
No Mathlib, no Std: linked into the compiled driver.
-/
import WpModel.Model.Wire

namespace Wp.PageSel
open Wp

/-! ## Tokens -/

/-- A token inside the arguments of a function block, as far as `parse_page_selectors` looks. -/
inductive ArgTok where
  | ident (v : String)
  | ws
  | comment
  | other
  deriving Repr, DecidableEq, BEq, Inhabited

/-- Outcome of `tinycss2.nth.parse_nth` (third-party, an oracle here): `None`, `(a, b)`, or an
exception of class `cls` (tinycss2 1.5 raises `AttributeError` on a trailing sign such as `2n+`). -/
inductive NthRes where
  | none
  | val (a b : Int)
  | raised (cls : String)
  deriving Repr, DecidableEq, BEq, Inhabited

/-- Three-valued result of the parser: a value, `return None`, or an exception (class `cls`) of the
oracle that `parse_page_selectors` does not catch. -/
inductive PRes (α : Type) where
  | ok (a : α)
  | reject
  | raised (cls : String)
  deriving Repr, BEq, Inhabited

/-- `except (AttributeError, StopIteration, ValueError):` around `tinycss2.nth.parse_nth(nth)` (repairs 9ef10c8,
54b52a1). -/
def nthCaught (cls : String) : Bool := cls == "AttributeError" || cls == "StopIteration" || cls == "ValueError"

/-- `try: nth_values = parse_nth(nth) / except (AttributeError, StopIteration, ValueError): return None /
if nth_values is None: return None` on one entry of the oracle table (`none` = index out of the table). -/
def nthValues (e : Option NthRes) : PRes (Int × Int) :=
  match e with
  | some (.val a b) => .ok (a, b)
  | some (.raised cls) => if nthCaught cls then .reject else .raised cls
  | _ => .reject

/-- A top-level prelude token.  For a function block, `nthTable[k]` is
`tinycss2.nth.parse_nth(arguments[:k])` for `k = 0 … len(arguments)` (oracle). -/
inductive Tok where
  | ident (value lower : String)
  | literal (v : String)
  | func (name : String) (args : List ArgTok) (nthTable : List NthRes)
  | ws
  | comment
  | other
  deriving Repr, BEq, Inhabited

/-- `remove_whitespace(rule.prelude)`. -/
def removeWhitespace (ts : List Tok) : List Tok :=
  ts.filter (fun t => match t with | .ws => false | .comment => false | _ => true)

/-! ## parse_page_selectors -/

/-- One entry of `page_data` (`PageSelectorType` + specificity).
`blank` / `first`: `true` is Python `True`, `false` is `None`. -/
structure Sel where
  side : Option String := none
  blank : Bool := false
  first : Bool := false
  index : Option (Int × Int × Option String) := none
  name : Option String := none
  spec : Nat × Nat × Nat := (0, 0, 0)
  deriving Repr, DecidableEq, BEq, Inhabited

def Sel.anySpec (s : Sel) : Bool := s.spec.1 != 0 || s.spec.2.1 != 0 || s.spec.2.2 != 0

def bump0 (s : Sel) : Sel := { s with spec := (s.spec.1 + 1, s.spec.2.1, s.spec.2.2) }
def bump1 (s : Sel) : Sel := { s with spec := (s.spec.1, s.spec.2.1 + 1, s.spec.2.2) }
def bump2 (s : Sel) : Sel := { s with spec := (s.spec.1, s.spec.2.1, s.spec.2.2 + 1) }

/-- Index of the first `ident 'of'` among the arguments (`for i, argument in enumerate(...)`). -/
def findOf : List ArgTok → Nat → Option Nat
  | [], _ => none
  | .ident "of" :: _, i => some i
  | _ :: rest, i => findOf rest (i + 1)

/-- The `:nth(...)` branch: returns the `index` triple or `none` (`return None`). -/
def parseNth (args : List ArgTok) (table : List NthRes) : PRes (Int × Int × Option String) :=
  let n := args.length
  match findOf args 0 with
  | some i =>
    -- nth = function.arguments[:i - 1]  (Python slice: `[:-1]` when i = 0); group = arguments[i + 1:]
    let k := if i ≥ 1 then i - 1 else n - 1
    match nthValues table[k]? with
    | .ok (a, b) =>
      let group := (args.drop (i + 1)).filter (fun t => match t with | .ws => false | .comment => false | _ => true)
      match group with
      | [.ident g] => .ok (a, b, some g)
      | _ => .reject
    | .raised cls => .raised cls
    | .reject => .reject
  | none =>
    match nthValues table[n]? with
    | .ok (a, b) => .ok (a, b, none)
    | .raised cls => .raised cls
    | .reject => .reject

/-- The inner `while tokens:` loop.  `none` is `return None`; otherwise the selector built so far
and the tokens left (non-empty exactly when the loop was left by `break` on a comma). -/
def parseInner : List Tok → Sel → PRes (Sel × List Tok)
  | [], types => .ok (types, [])
  | .literal ":" :: rest, types =>
    match rest with
    | [] => .reject
    | .ident _ lower :: rest' =>
      if lower == "left" || lower == "right" then
        match types.side with
        | some s => if s != lower then .reject else parseInner rest' (bump2 { types with side := some lower })
        | none => parseInner rest' (bump2 { types with side := some lower })
      else if lower == "blank" then parseInner rest' (bump1 { types with blank := true })
      else if lower == "first" then parseInner rest' (bump1 { types with first := true })
      else .reject
    | .func name args table :: rest' =>
      if name != "nth" then .reject
      else
        match parseNth args table with
        | .reject => .reject
        | .raised cls => .raised cls
        | .ok (a, b, group) =>
          let types := bump1 { types with index := some (a, b, group) }
          -- `if group:` (a non-empty identifier)
          let types := match group with
            | some g => if g.isEmpty then types else bump0 types
            | none => types
          parseInner rest' types
    | _ :: _ => .reject
  | .literal "," :: rest, types =>
    if !rest.isEmpty && types.anySpec then .ok (types, rest) else .reject
  | .literal _ :: rest, types => parseInner rest types     -- any other literal: no branch taken
  | _ :: _, _ => .reject                                   -- `literal.type != 'literal'`

/-- The outer `while tokens:` loop (`fuel` ≥ number of tokens: every iteration consumes one). -/
def parseOuter : Nat → List Tok → List Sel → PRes (List Sel)
  | 0, _, _ => .reject
  | fuel + 1, tokens, acc =>
    let (types, tokens) : Sel × List Tok :=
      match tokens with
      | .ident value _ :: rest => ({ name := some value, spec := (1, 0, 0) }, rest)
      | _ => ({}, tokens)
    if tokens.length == 1 then .reject
    else if tokens.isEmpty then .ok (acc ++ [types])
    else
      match parseInner tokens types with
      | .reject => .reject
      | .raised cls => .raised cls
      | .ok (types, rest) =>
        if rest.isEmpty then .ok (acc ++ [types]) else parseOuter fuel rest (acc ++ [types])

/-- `parse_page_selectors(rule)` on `rule.prelude`. -/
def parsePageSelectors (prelude : List Tok) : PRes (List Sel) :=
  let tokens := removeWhitespace prelude
  if tokens.isEmpty then .ok [{}]
  else parseOuter (tokens.length + 1) tokens []

/-! ## _page_type_match -/

/-- `PageType(side, blank, name, index, groups)`. -/
structure PageType where
  side : String
  blank : Bool
  name : String
  index : Nat
  groups : List (String × Nat)
  deriving Repr, DecidableEq, BEq, Inhabited

/-- `offset == 0 if a == 0 else (offset * a >= 0 and not offset % a)` with `offset = index + 1 - b`
(integer arithmetic only: no float division, no `OverflowError` outcome). -/
def nthMatch (a b : Int) (index : Nat) : Bool :=
  let offset : Int := (index : Int) + 1 - b
  if a = 0 then offset == 0
  else offset * a ≥ 0 && offset % a == 0

/-- `StyleFor._page_type_match(page_selector_type, page_type)`. -/
def pageTypeMatch (s : Sel) (p : PageType) : Bool :=
  if (match s.side with | none => false | some sd => sd != p.side) then false
  else if s.blank && !p.blank then false
  else if s.first && !(p.index == 0) then false
  else if (match s.name with | none => false | some n => n != p.name) then false
  else
    match s.index with
    | none => true
    | some (a, b, none) => nthMatch a b p.index
    | some (a, b, some name) =>
      if name != p.name then false
      else p.groups.any (fun g => g.1 == name && nthMatch a b g.2)

/-! ## Weights and the cascade fold -/

inductive Origin where
  | userAgent | user | author
  deriving Repr, DecidableEq, BEq, Inhabited

/-- `declaration_precedence(origin, importance)`. -/
def declarationPrecedence (o : Origin) (important : Bool) : Nat :=
  match o, important with
  | .userAgent, _ => 1
  | .user, false => 2
  | .author, false => 3
  | .author, true => 4
  | .user, true => 5

/-- `(precedence, specificity)`. -/
structure Weight where
  prec : Nat
  spec : Nat × Nat × Nat
  deriving Repr, DecidableEq, BEq, Inhabited

/-- Python tuple / list comparison `old_weight <= weight`. -/
def Weight.le (x y : Weight) : Bool :=
  if x.prec != y.prec then x.prec < y.prec
  else if x.spec.1 != y.spec.1 then x.spec.1 < y.spec.1
  else if x.spec.2.1 != y.spec.2.1 then x.spec.2.1 < y.spec.2.1
  else x.spec.2.2 ≤ y.spec.2.2

/-- The cascaded style being built: `name → (value, weight)`, a dict in insertion order. -/
abbrev Cascaded (α : Type) := List (String × α × Weight)

def Cascaded.get {α} (c : Cascaded α) (name : String) : Option (α × Weight) :=
  match c with
  | [] => none
  | (n, v, w) :: rest => if n == name then some (v, w) else Cascaded.get rest name

def Cascaded.set {α} (c : Cascaded α) (name : String) (v : α) (w : Weight) : Cascaded α :=
  match c with
  | [] => [(name, v, w)]
  | (n, v', w') :: rest => if n == name then (n, v, w) :: rest else (n, v', w') :: Cascaded.set rest name v w

/-- `if old_weight is None or old_weight <= weight: style[name] = values, weight`. -/
def applyDecl {α} (c : Cascaded α) (name : String) (v : α) (w : Weight) : Cascaded α :=
  match c.get name with
  | none => c.set name v w
  | some (_, old) => if old.le w then c.set name v w else c

/-- One `(rule, selector_list, declarations)` entry of `sheet.page_rules` with one selector. -/
structure PageRule (α : Type) where
  origin : Origin
  sel : Sel
  pseudo : String            -- "" for the page itself, `@top-left` … for a margin box
  decls : List (String × α × Bool)

/-- `add_page_declarations(page_type)` restricted to one key `(page_type, pseudo_type)`. -/
def addPageDeclarations {α} (rules : List (PageRule α)) (p : PageType) (pseudo : String) : Cascaded α :=
  rules.foldl (fun c r =>
    if r.pseudo == pseudo && pageTypeMatch r.sel p then
      r.decls.foldl (fun c (name, v, imp) =>
        applyDecl c name v ⟨declarationPrecedence r.origin imp, r.sel.spec⟩) c
    else c) []

end Wp.PageSel
